"""Shared plumbing of the correspondence harness: locating /repo, importing the implementation,
talking to the compiled Lean driver, canonical encodings, result accumulation."""
import collections
import contextlib
import io
import json
import math
import os
import random
import shutil
import subprocess
import sys
import tempfile
import warnings
from fractions import Fraction

VERIF = os.path.dirname(os.path.dirname(os.path.abspath(__file__)))
REPO = os.environ.get("KT_REPO", "/repo")
LEAN_DIR = os.path.join(VERIF, "lean")
DRIVER = os.path.join(LEAN_DIR, ".lake", "build", "bin", "ktdriver")

os.environ.setdefault("TF_CPP_MIN_LOG_LEVEL", "3")
os.environ.setdefault("KERAS_BACKEND", "tensorflow")
warnings.filterwarnings("ignore")

_impl = None


def impl():
    """Import keras_tuner from REPO's working tree (fresh interpreter each run => current sources)."""
    global _impl
    if _impl is None:
        if REPO not in sys.path:
            sys.path.insert(0, REPO)
        with contextlib.redirect_stderr(io.StringIO()):
            import keras_tuner  # noqa
        src = os.path.dirname(os.path.dirname(os.path.abspath(keras_tuner.__file__)))
        if os.path.realpath(src) != os.path.realpath(REPO):
            raise RuntimeError(f"keras_tuner imported from {src}, expected {REPO}")
        _impl = keras_tuner
    return _impl


class Hang(Exception):
    """A call into the implementation used more than CALL_LIMIT seconds of CPU time without returning (CPU time of this
    process, not wall time: a loaded machine must not look like a loop; raised from a signal handler, so the traceback ends
    in the implementation's loop). It escapes the suite and is reported by `check` as a failure of the
    property under check, located at the innermost implementation frame."""


CALL_LIMIT = float(os.environ.get("VERIF_CALL_LIMIT", "120"))


def _on_alarm(signum, frame):
    raise Hang(f"the call used {CALL_LIMIT:.0f} s of CPU time without returning (non-terminating loop?)")


def quiet(f, *a, **k):
    """run one call into the implementation with its chatter swallowed and a watchdog (main thread only)"""
    import signal
    import threading
    arm = threading.current_thread() is threading.main_thread() and signal.getitimer(signal.ITIMER_VIRTUAL)[0] == 0
    if arm:
        old = signal.signal(signal.SIGVTALRM, _on_alarm)
        signal.setitimer(signal.ITIMER_VIRTUAL, CALL_LIMIT)
    try:
        with contextlib.redirect_stdout(io.StringIO()), contextlib.redirect_stderr(io.StringIO()):
            return f(*a, **k)
    finally:
        if arm:
            signal.setitimer(signal.ITIMER_VIRTUAL, 0)
            signal.signal(signal.SIGVTALRM, old)


class Violation(Exception):
    """A property statement evaluated to false on an implementation trace."""

    def __init__(self, pid, what, sig=None):
        super().__init__(f"{pid}: {what}")
        self.pid = pid
        self.what = what
        self.sig = sig or {}


def fl(x):
    """A float on the wire: exact ratio, or inf / -inf / nan."""
    if x is None:
        return None
    x = float(x)
    if x != x:
        return "nan"
    if x == math.inf:
        return "inf"
    if x == -math.inf:
        return "-inf"
    n, d = Fraction(x).as_integer_ratio()
    return [n, d]


def fl_str(x):
    """How the driver prints the same float."""
    if x is None:
        return "-"
    x = float(x)
    if x != x:
        return "nan"
    if x == math.inf:
        return "inf"
    if x == -math.inf:
        return "-inf"
    n, d = Fraction(x).as_integer_ratio()
    return f"{n}/{d}"


def kind_of(x):
    """bool / int / float / str by `isinstance` (numpy.float64 is a float; numpy.int64 is NOT an int)."""
    if isinstance(x, bool):
        return "bool"
    if isinstance(x, int):
        return "int"
    if isinstance(x, float):
        return "float"
    if isinstance(x, str):
        return "str"
    return type(x).__name__


def canon_vals(v):
    return json.dumps({k: [kind_of(x), float(x) if kind_of(x) == "float" else x] for k, x in sorted(v.items())}, sort_keys=True, default=str)


def run_driver(lines, timeout=600):
    """Feed JSON lines to the compiled model driver; one answer line per input line."""
    if not os.path.exists(DRIVER):
        raise FileNotFoundError(DRIVER)
    inp = "\n".join(json.dumps(l) for l in lines) + "\n"
    r = subprocess.run([DRIVER], input=inp, capture_output=True, text=True, timeout=timeout)
    out = r.stdout.splitlines()
    if len(out) != len(lines):
        raise RuntimeError(f"driver answered {len(out)} lines for {len(lines)} (rc={r.returncode}) {r.stderr[-300:]}")
    return out


class Result:
    """What a suite run produced."""

    def __init__(self, suite):
        self.suite = suite
        self.evaluations = 0            # compared operations / evaluated cases
        self.scenarios = 0
        self.nontrivial = set()         # canonical hashes of distinct non-trivial scenarios
        self.mismatches = []            # model/implementation disagreements (dicts with a replay doc)
        self.violations = []            # property failures on the implementation (dicts: pid, what, sig, replay)
        self.samples = []
        self.hist = collections.Counter()
        self.rule = ""
        self.errors = []                # infrastructure problems (driver missing, ...)

    def merge(self, other):
        self.evaluations += other.evaluations
        self.scenarios += other.scenarios
        self.nontrivial |= other.nontrivial
        self.mismatches += other.mismatches
        self.violations += other.violations
        self.samples += other.samples[:2]
        self.hist.update(other.hist)
        self.errors += other.errors
        if other.rule and other.rule not in self.rule:
            self.rule = (self.rule + " | " if self.rule else "") + f"[{other.suite}] {other.rule}"
        return self


@contextlib.contextmanager
def tempdir(prefix="ktv"):
    d = tempfile.mkdtemp(prefix=prefix)
    try:
        yield d
    finally:
        shutil.rmtree(d, ignore_errors=True)


_NUM = __import__("re").compile(r"-?\d+/\d+")


def approx_equal(e, g, rel=1e-12):
    """Equal up to float rounding of exact rationals (`p/q` tokens): the model computes means exactly,
    the implementation in double precision."""
    if e == g:
        return True
    ne, ng = _NUM.findall(e), _NUM.findall(g)
    if len(ne) != len(ng) or _NUM.sub("#", e) != _NUM.sub("#", g):
        return False
    for a, b in zip(ne, ng):
        fa, fb = Fraction(a), Fraction(b)
        if fa != fb and abs(fa - fb) > rel * max(abs(fa), abs(fb)):
            return False
    return True


def compare(res, lines, expect, got, scen):
    """Diff expected (implementation) and model answers; record the first disagreement of a scenario."""
    for i, (e, g) in enumerate(zip(expect, got)):
        if e is None:
            continue
        res.evaluations += 1
        if not approx_equal(e, g):
            res.mismatches.append({"suite": res.suite, "scenario": scen, "op_index": i, "op": lines[i],
                                   "impl": e, "model": g, "ops": lines[: i + 1][-12:]})
            return False
    return True


def worker_copy(R, t, p=0.5):
    """What a remote worker (or any caller that rebuilt the trial from its state) hands back to `end_trial`: with
    probability `p` a copy of the trial - same id, hyperparameters, status, message - instead of the oracle's own
    object. Every decision of `end_trial` must be taken on, and recorded in, the stored trial."""
    if R.random() >= p:
        return t
    from keras_tuner.engine import trial as trial_module
    c = trial_module.Trial(hyperparameters=t.hyperparameters.copy(), trial_id=t.trial_id, status=t.status)
    c.message = t.message
    return c
