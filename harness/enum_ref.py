"""Independent reference enumeration of the active combinations of a finite search space (used by the
C09 / C11 / C05 monitors; deliberately not sharing code with the implementation's grid search)."""
from harness import gen


def value_list(spec):
    """values of one entry in grid order: the default first, then hp.values without it"""
    hp = gen.build_hp(spec, with_conds=False)
    vals = list(hp.values)
    d = hp.default
    out = [d] + [v for v in vals if not (v == d and type(v) == type(d))]
    return out


def enumerate_space(specs):
    """all assignments {name: value} of exactly the active entries (parent-first spec list)"""
    results = []

    def active(spec, env):
        return all(n in env and env[n] in vals for n, vals in spec["conds"])

    def rec(i, env):
        if i == len(specs):
            results.append(dict(env))
            return
        s = specs[i]
        if s["name"] in env or not active(s, env):
            # same name already bound by an earlier entry, or inactive
            rec(i + 1, env)
            return
        for v in value_list(s):
            env[s["name"]] = v
            rec(i + 1, env)
            del env[s["name"]]

    rec(0, {})
    return results
