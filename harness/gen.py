"""Single-PRNG generators: search spaces (as serialisable specs and as real HyperParameters),
schedules and outcomes. Every random choice comes from the `random.Random` passed in."""
from harness.common import impl, fl


def rand_specs(R, finite=False, samename=False, maxdepth=3, top=(1, 3), prefix="h", nonfixed=False):
    """A parent-first list of hyperparameter specs (dicts). `conds` is the chain of enclosing
    conditions [(parent_name, [values])...]."""
    specs = []
    cnt = [0]

    def values_of(spec):
        return list(_spec_values(spec))

    def decl(depth, conds):
        n = f"{prefix}{cnt[0]}"
        cnt[0] += 1
        kind = R.choice(["int", "int", "float", "choice", "bool", "fixed"])
        s = {"name": n, "kind": kind, "conds": [list(c) for c in conds]}
        if kind == "int":
            samp = R.choice(["linear", "linear", "log", "reverse_log"])
            mn = R.randint(-3, 3) if samp == "linear" else R.randint(1, 4)
            mx = mn + R.randint(0, 6)
            step = R.choice([None, 1, 2]) if samp == "linear" else R.choice([2, 3] if finite else [None, 2, 3])
            s.update(lo=mn, hi=mx, step=step, sampling=samp, default=R.choice([None, mn, mx]))
        elif kind == "float":
            samp = R.choice(["linear", "log", "reverse_log"])
            mn = R.choice([0.5, 1.0, 2.0])
            mx = mn * R.choice([1, 2, 4, 8])
            step = R.choice([None, 0.5, 0.25]) if samp == "linear" else R.choice([None, 2])
            if finite and step is None:
                step = 0.5 if samp == "linear" else 2
            s.update(lo=mn, hi=mx, step=step, sampling=samp, default=None)
        elif kind == "choice":
            vals = R.choice([["a", "b", "c"], [1, 2], [0.5, 1.5, 2.5], ["x"], [True, False]])
            s.update(values=vals, default=R.choice([None, vals[-1]]))
        elif kind == "bool":
            s.update(default=R.choice([True, False]))
        else:
            s.update(value=R.choice([1, 2.5, "s", True]))
        specs.append(s)
        if depth < maxdepth and R.random() < 0.5:
            vals = values_of(s)[:6]
            sub = R.sample(vals, R.randint(1, max(1, len(vals) - 1)))
            for _ in range(R.randint(1, 2)):
                decl(depth + 1, conds + [(n, sub)])
            if samename and len(vals) > len(sub) and R.random() < 0.6:
                # the documented pattern: the same name under a different value of the parent
                other = [v for v in vals if v not in sub]
                child = dict(specs[-1])
                child["conds"] = [list(c) for c in conds] + [[n, other]]
                if R.random() < 0.6:
                    # ... with a domain of its own (`units` 32..128 under one model type, 256..512 under the other)
                    k = child["kind"]
                    if k == "int":
                        child.update(lo=child["lo"] + 10, hi=child["hi"] + 10, default=None if child["default"] is None else child["default"] + 10)
                    elif k == "float":
                        child.update(lo=child["lo"] * 16, hi=child["hi"] * 16)
                    elif k == "choice" and not isinstance(child["values"][0], bool):
                        v0 = child["values"][0]
                        child.update(values=["p", "q"] if isinstance(v0, str) else [7, 8, 9] if isinstance(v0, int) else [10.5, 11.5], default=None)
                    elif k == "fixed" and not isinstance(child["value"], bool):
                        v0 = child["value"]
                        child.update(value="t" if isinstance(v0, str) else v0 + 5)
                specs.append(child)

    for _ in range(R.randint(*top)):
        decl(0, [])
    if samename:
        # `units` under model=mlp ... other declarations ... `units` under model=cnn: a same-name copy (always a leaf whose
        # parents are declared before it) may come much later than its twin
        seen, late = set(), []
        for s_ in list(specs):
            if s_["name"] in seen and R.random() < 0.5:
                specs.remove(s_)
                late.append(s_)
            seen.add(s_["name"])
        specs.extend(late)
    if nonfixed and all(s["kind"] == "fixed" for s in specs):
        # the Bayesian oracle cannot fit a Gaussian process on a zero-dimensional space (sklearn raises);
        # recorded in DESIGN.md as an observation outside the listed properties
        specs.append({"name": f"{prefix}{cnt[0]}", "kind": "bool", "conds": [], "default": False})
    return specs


def _spec_values(s):
    """`hp.values` of a spec, computed by the implementation."""
    return build_hp(s).values


def build_hp(s, with_conds=True):
    kt = impl()
    from keras_tuner.engine import conditions as cm
    from keras_tuner.engine.hyperparameters import hp_types
    conds = [cm.Parent(n, list(v)) for n, v in s["conds"]] if with_conds else []
    k = s["kind"]
    if k == "int":
        return hp_types.Int(s["name"], s["lo"], s["hi"], step=s["step"], sampling=s["sampling"], default=s["default"], conditions=conds)
    if k == "float":
        return hp_types.Float(s["name"], s["lo"], s["hi"], step=s["step"], sampling=s["sampling"], default=s["default"], conditions=conds)
    if k == "choice":
        return hp_types.Choice(s["name"], s["values"], default=s["default"], conditions=conds)
    if k == "bool":
        return hp_types.Boolean(s["name"], default=s["default"], conditions=conds)
    return hp_types.Fixed(s["name"], s["value"], conditions=conds)


def build_space(specs, hps=None):
    """Declare the specs on a real HyperParameters object through nested conditional scopes
    (the public API), in list order."""
    kt = impl()
    import contextlib
    hps = hps if hps is not None else kt.HyperParameters()
    for s in specs:
        with contextlib.ExitStack() as st:
            for n, v in s["conds"]:
                st.enter_context(hps.conditional_scope(n, list(v)))
            k = s["kind"]
            if k == "int":
                hps.Int(s["name"], s["lo"], s["hi"], step=s["step"], sampling=s["sampling"], default=s["default"])
            elif k == "float":
                hps.Float(s["name"], s["lo"], s["hi"], step=s["step"], sampling=s["sampling"], default=s["default"])
            elif k == "choice":
                hps.Choice(s["name"], s["values"], default=s["default"])
            elif k == "bool":
                hps.Boolean(s["name"], default=s["default"])
            else:
                hps.Fixed(s["name"], s["value"])
    return hps


def specs_of(hps):
    """Specs of a real space (used after discovery, so the model sees what the implementation holds)."""
    kt = impl()
    from keras_tuner.engine.hyperparameters import hp_types
    out = []
    for p in hps.space:
        conds = [[c.name, list(c.values)] for c in p.conditions]
        if isinstance(p, hp_types.Int):
            out.append(dict(name=p.name, kind="int", conds=conds, lo=p.min_value, hi=p.max_value, step=p.step, sampling=p.sampling, default=p._default))
        elif isinstance(p, hp_types.Float):
            out.append(dict(name=p.name, kind="float", conds=conds, lo=p.min_value, hi=p.max_value, step=p.step, sampling=p.sampling, default=p._default))
        elif isinstance(p, hp_types.Choice):
            out.append(dict(name=p.name, kind="choice", conds=conds, values=list(p.values), default=p._default))
        elif isinstance(p, hp_types.Boolean):
            out.append(dict(name=p.name, kind="bool", conds=conds, default=p.default))
        else:
            out.append(dict(name=p.name, kind="fixed", conds=conds, value=p.value))
    return out


def wire_val(v):
    """A hyperparameter value on the wire: tagged, floats exact."""
    if isinstance(v, bool):
        return ["bool", v]
    if isinstance(v, int):
        return ["int", v]
    if isinstance(v, float):
        return ["float", fl(v), repr(v)]
    return ["str", str(v)]


def make_oracle(R, kind, specs, directory, **over):
    """A real oracle of the given kind with randomly drawn retry / failure / budget parameters."""
    kt = impl()
    from keras_tuner.tuners import randomsearch, gridsearch, hyperband, bayesian
    hps = build_space(specs)
    kw = dict(objective=kt.Objective("score", R.choice(["min", "max"])), hyperparameters=hps,
              seed=R.randint(0, 999), max_retries_per_trial=R.randint(0, 2),
              max_consecutive_failed_trials=R.randint(1, 4))
    kw.update({k: v for k, v in over.items() if k in ("objective", "seed", "max_retries_per_trial", "max_consecutive_failed_trials", "allow_new_entries", "tune_new_entries")})
    if kind == "random":
        o = randomsearch.RandomSearchOracle(max_trials=over.get("max_trials", R.randint(1, 8)), **kw)
    elif kind == "grid":
        o = gridsearch.GridSearchOracle(max_trials=over.get("max_trials", R.choice([None, None, R.randint(1, 8)])), **kw)
    elif kind == "hyperband":
        o = hyperband.HyperbandOracle(max_epochs=over.get("max_epochs", R.randint(1, 9)), factor=over.get("factor", R.randint(2, 3)),
                                      hyperband_iterations=over.get("iterations", 1), **kw)
    else:
        o = bayesian.BayesianOptimizationOracle(max_trials=over.get("max_trials", R.randint(1, 6)),
                                                num_initial_points=over.get("num_initial_points", R.randint(1, 3)), **kw)
    o._set_project_dir(directory, "p")
    o.verbose = 0
    o._verif_initial_space = build_space(specs)     # what a restarted process passes as `hyperparameters=` again
    return o


def clone_oracle(o, directory):
    """A freshly constructed oracle with the same configuration (what a new process builds)."""
    kt = impl()
    from keras_tuner.tuners import randomsearch, gridsearch, hyperband, bayesian
    kw = dict(objective=kt.Objective(o.objective.name, o.objective.direction), hyperparameters=None,
              seed=o.seed, max_retries_per_trial=o.max_retries_per_trial,
              max_consecutive_failed_trials=o.max_consecutive_failed_trials)
    if not (o.tune_new_entries and o.allow_new_entries):
        init = getattr(o, "_verif_initial_space", None)
        kw.update(hyperparameters=init.copy() if init is not None else o.hyperparameters.copy(),
                  tune_new_entries=o.tune_new_entries, allow_new_entries=o.allow_new_entries)
    if isinstance(o, randomsearch.RandomSearchOracle):
        n = randomsearch.RandomSearchOracle(max_trials=o.max_trials, **kw)
    elif isinstance(o, gridsearch.GridSearchOracle):
        n = gridsearch.GridSearchOracle(max_trials=o.max_trials, **kw)
    elif isinstance(o, hyperband.HyperbandOracle):
        it = o.hyperband_iterations
        n = hyperband.HyperbandOracle(max_epochs=o.max_epochs, factor=o.factor, hyperband_iterations=it if it != float("inf") else None, **kw)
    else:
        n = bayesian.BayesianOptimizationOracle(max_trials=o.max_trials, num_initial_points=o.num_initial_points, alpha=o.alpha, beta=o.beta, **kw)
    n._verif_initial_space = getattr(o, "_verif_initial_space", None)
    n._set_project_dir(directory, "p")
    n.verbose = 0
    return n
