"""Which suites, monitors and trusted-base notes belong to which property."""

ORACLE = ("suite_oracle", {"n": {"quick": 240, "thorough": 4000}})

ORACLE_RELOAD = ("suite_oracle", {"n": {"quick": 200, "thorough": 3000}, "modes": ("reload", "reload", "plain", "reload")})
ORACLE_CRASH = ("suite_oracle", {"n": {"quick": 120, "thorough": 1500}, "modes": ("crash",)})
ORACLE_CRASH_ALL = ("suite_oracle:run_crash_all", {"n": {"quick": 36, "thorough": 400}})

SYMMETRY = ("suite_symmetry", {"n": {"quick": 80, "thorough": 1200}})
HYPERBAND = ("suite_hyperband", {"n": {"quick": 100, "thorough": 2500}})
LIVENESS = ("suite_liveness", {"n": {"quick": 240, "thorough": 4000}})
ORACLE_SMALL = ("suite_oracle", {"n": {"quick": 120, "thorough": 2000}})

TRANSFORMS = ("suite_transforms", {"n": {"quick": 500, "thorough": 10000}})
METRICS = ("suite_metrics", {"n": {"quick": 600, "thorough": 12000}})
CHECKPOINT = ("suite_checkpoint", {"n": {"quick": 4, "thorough": 50}})

SEARCH = ("suite_search", {"n": {"quick": 160, "thorough": 3000}, "crash_n": {"quick": 6, "thorough": 100}})
SEARCH_RESUME = ("suite_search", {"n": {"quick": 80, "thorough": 1500}, "crash_n": {"quick": 0, "thorough": 0}})
SEARCH_CRASH = ("suite_search", {"n": {"quick": 20, "thorough": 200}, "crash_n": {"quick": 8, "thorough": 150}})

GRID = ("suite_grid", {"n": {"quick": 120, "thorough": 3000}})
GRID_DISCOVER_RELOAD = ("suite_grid", {"n": {"quick": 100, "thorough": 2500}, "modes": ("discover-reload",)})
GRID_DISCOVER_RELOAD_SMALL = ("suite_grid", {"n": {"quick": 60, "thorough": 1500}, "modes": ("discover-reload",)})
GRID_DISCOVER = ("suite_grid", {"n": {"quick": 320, "thorough": 5000}, "modes": ("discover",)})
SAMPLING = ("suite_sampling", {"n": {"quick": 160, "thorough": 3000}, "subprocs": {"quick": 1, "thorough": 2}})
SAMPLING_GROW = ("suite_sampling", {"n": {"quick": 120, "thorough": 3000}, "subprocs": 0, "modes": ("grow-random", "grow-hyperband")})
SAMPLING_SAMENAME = ("suite_sampling", {"n": {"quick": 90, "thorough": 2000}, "subprocs": 0, "modes": ("samename-random", "samename-hyperband", "samename-bayes")})
TRANSFORMS_SMALL = ("suite_transforms", {"n": {"quick": 200, "thorough": 3000}})
HYPERBAND_RELOAD = ("suite_hyperband:run_reload", {"n": {"quick": 100, "thorough": 2500}})
HYPERBAND_SMALL = ("suite_hyperband", {"n": {"quick": 40, "thorough": 800}})

SYNC = ("suite_sync", {"n": {"quick": 200, "thorough": 4000}})

PROGRAMS = ("suite_programs", {"n": {"quick": 400, "thorough": 8000}})

CODEC = ("suite_codec", {"n": {"quick": 240, "thorough": 5000}})

RPC = ("suite_rpc", {"n": {"quick": 100, "thorough": 2500}})

NOT_CLAIMED = {}

CORE_NOTE = ("Trusted: Lean kernel; the hand-written generic oracle model (Ktm/Core.lean: create/update/endT over an arbitrary "
             "algorithm record, so all four oracle kinds are instances) is tied to keras_tuner/engine/oracle.py only by the "
             "`oracle` correspondence suite (every answer and the full bookkeeping state compared after every call on random "
             "multi-tuner schedules for random/grid/hyperband/bayes oracles); the algorithm's populate_space answer and the "
             "floats reported are inputs of the model; Python dict ordering, json, numpy mean/nanmin are assumed.")

PROPS = {
    "C01": {"suites": [ORACLE],
            "level_text": "Theorems (Ktm/Props/C01.lean): the lifecycle invariant holds in every state reachable by ANY list of "
                          "create/update/end requests from any number of tuners with any outcomes and ANY algorithm (induction over "
                          "the request list), plus same-tuner idempotence, fresh ids, never-reissued and ended-is-recorded. "
                          "A proof covers all interleavings x outcomes x oracle kinds at once, which sampling cannot.",
            "level_note": CORE_NOTE + " Calls are driven from one thread: C01 is about interleavings of requests; thread-level atomicity is C17.",
            "assumptions": ["calls are driven from one thread: C01 is about interleavings of requests; thread-level atomicity is C17"]},
    "C02": {"suites": [ORACLE, SEARCH_RESUME],
            "level_text": "Theorems (Ktm/Props/C02.lean): for every request list, algorithm and outcome pattern the number of distinct "
                          "trials never exceeds max_trials (aborted runs included), retries are free, STOPPED once the budget is used "
                          "and no retry is pending, remaining = N - n, and the bound survives reload of any consistent disk. "
                          "The restart clause at tuner level (BaseTuner decides by its own state file whether to reload) is monitored directly "
                          "on interrupted and restarted searches (`search` suite: finished trials known again, remaining_trials = N - n) and proved for the "
                          "file-level model of a tuner's write sequence (tuner_restart_knows_finished_trials: every crash point, except the window of known finding F18).",
            "level_note": CORE_NOTE, "assumptions": []},
    "C03": {"suites": [ORACLE],
            "level_text": "Theorems (Ktm/Props/C03.lean): decision logic of end_trial/_retry stated outright (INVALID or NaN below the run "
                          "limit => requeued; at the limit => FAILED; FAILED final; normal finish => COMPLETED with that run's score, the "
                          "retry starting from empty reports), retries served first with the same values, final trials never reissued, "
                          "and abort <=> the end order contains K consecutive FAILED (scanning loop proved equivalent to the list statement).",
            "level_note": CORE_NOTE, "assumptions": []},
    "C07": {"suites": [ORACLE_RELOAD, GRID_DISCOVER_RELOAD, HYPERBAND_RELOAD],
            "level_text": "Theorems (Ktm/Props/C07.lean): trial files and oracle file stay consistent with memory along every run of "
                          "complete operations (any algorithm, schedule, outcomes); reload of a saved disk = the state with its running "
                          "trials queued again, all other trials, orders, run counts and the algorithm state restored exactly; the "
                          "continuation of ANY request list is then identical; the reloaded state satisfies the lifecycle invariant.",
            "level_note": CORE_NOTE + " The algorithm state is persisted as a whole in the model; that each real oracle's get_state/set_state "
                          "really persists all of its progress (Hyperband brackets, grid position, seed state, tried set) is checked by the "
                          "suite: full state comparison after reload and a twin run (uninterrupted oracle with its running trials queued by "
                          "hand) whose every later answer must equal the reloaded oracle's (random, grid, Hyperband; Bayesian: validity only); for Hyperband "
                          "additionally whole searches with a slow worker (an old bracket open while newer ones finish), saved at a random point: "
                          "get_state() progress restored, every later answer and the final tables equal to the uninterrupted oracle's.",
            "assumptions": ["'saved' = explicit save() at an operation boundary; the files left by the operations themselves are C08"]},
    "C08": {"suites": [ORACLE_CRASH_ALL, ORACLE_CRASH, SEARCH_CRASH],
            "level_text": "Theorems (Ktm/Props/C08.lean): for EVERY scenario and EVERY crash index k the disk is consistent (DiskOK) with the "
                          "state before or after the interrupted operation; hence restart succeeds, satisfies the invariant (unique ids), keeps "
                          "every durably ended trial untouched and unqueued, queues every RUNNING trial, keeps the trial count, and the resumed "
                          "run respects the budget; the same again for a second crash during the resumed run. The suite enumerates every crash index of every "
                          "generated scenario on the real code.",
            "level_note": CORE_NOTE + " Writes are atomic whole-file writes (as the property stipulates); 'durably recorded' = listed in the on-disk "
                          "end_order. A second crash is covered too (Ktm/PersistSecond.lean: every crash point of the requests a restarted process begins "
                          "with leaves a consistent disk; after the first trial handed out memory and disk are DiskOK again, so later crash points are "
                          "first-crash points), and injected by the suite (quick: after every third first crash; thorough: after every one). The "
                          "tuner-level restart (tuner0.json) is part of the `search` suite: whole searches of every kind (Hyperband also with two sweeps; its budget "
                          "is its schedule, counted on the trials) are crashed before every file write and restarted; every crash point is evaluated.",
            "assumptions": ["atomic whole-file writes", "durably recorded = listed in the on-disk end_order"]},
    "C04": {"suites": [ORACLE_SMALL, SYMMETRY],
            "level_text": "Theorems (Ktm/Props/C04.lean): get_best_trials = stable sort of the COMPLETED trials in the objective's direction "
                          "(sorted, completed-first, length for every n, top-n optimality), score = best per-step mean ignoring NaN, NaN never "
                          "COMPLETED, ranking symmetric under (max, s) <-> (min, -s) incl. ties and infinities, Hyperband's promotion winner symmetric; WHOLE searches "
                          "symmetric (Ktm/Symmetry.lean): two algorithm records that mirror each other answer every request list identically and end in "
                          "mirrored states - for any tuners, interleaving and outcomes; random search, grid search and the whole Hyperband oracle are instances.",
            "level_note": CORE_NOTE + " Ranking and scoring run in the model (Ranking.bestTrials, Metrics.bestValue over exact extended rationals) and "
                          "are compared with get_best_trials / trial.score after random histories. Whole-search symmetry is proved for every pair of mirrored algorithm records, with random search, grid search "
                          "and Hyperband as instances; for the Bayesian GP (not modelled) it is decided by the "
                          "`symmetry` suite: each scenario is run twice on the implementation, (max, s) and (min, -s), and the complete traces must be identical "
                          "(incl. focused Bayesian runs with trials in flight during the GP phase).",
            "assumptions": ["sklearn GPR / scipy optimiser: same inputs => same outputs"]},
    "C10": {"suites": [HYPERBAND],
            "level_text": "Theorems (Ktm/Props/C10.lean): epochs = ceil(max_epochs/factor^(b-r)) exactly, monotone along rounds, max_epochs in the last "
                          "round; every freshly issued trial in every reachable state carries the labels of the round it is recorded in, rounds never "
                          "exceed their scheduled size, a promoted trial continues a distinct COMPLETED member of the previous round of the same "
                          "bracket with identical values; promotion rank: fewer strictly better trials in the previous round than places in the next, "
                          "in every later state, ties included (combinatorial lemma).",
            "level_note": "The whole HyperbandOracle is modelled (HB.alg over the generic core, Ktm/Hyperband*.lean) and re-executed by the compiled "
                          "model on every generated schedule: answers, labels, bracket tables, sizes/epochs tables compared. Sizes/epochs use exact "
                          "integer arithmetic in the model and float formulas in the code; their equality is checked for every generated "
                          "configuration, not proved. The random sampler's output is an input (fresh configuration index or 'exhausted').",
            "assumptions": ["float formulas of _get_size/_get_epochs agree with the exact ones on the generated configurations (checked each run)"]},
    "C11": {"suites": [LIVENESS, HYPERBAND],
            "level_text": "Theorems (Ktm/Props/C11.lean): IDLE implies a running trial for every algorithm meeting the contract, proved for Hyperband, "
                          "grid and random sampling; a single tuner is never told IDLE; STOPPED is answered only with no retry pending and budget "
                          "used up or algorithm finished (grid: queue exhausted and nothing running; random: max_collisions+1 collisions); the "
                          "search loop's trace shape (C19); and the run bound: for every algorithm, schedule and outcome pattern the number of trial "
                          "runs is at most (#distinct trials) x (max_retries+1), hence N x (R+1) under max_trials = N and |grid| x (R+1) for grid search.",
            "level_note": "Liveness proper is proved for every oracle with a trial budget (Ktm/Live.lean: along every interleaving of workers that finish "
                          "what they are given at most 2*N*(R+1) steps hand out or end a trial, STOPPED is answered to a worker once, and an IDLE answer "
                          "always points at a worker that has not been told STOPPED and whose next step ends a trial); the finite grid (grid_productive_steps_bounded) "
                          "and Hyperband's schedule (hyperband_trials_bounded: at most iterations x numBrackets x M trials in every reachable state, by a "
                          "potential argument over free places of open brackets and brackets still to be opened; hyperband_search_finishes; "
                          "hyperband_due_promotion_is_found: no early stop while a promotion is due) are instances. The same statements are also checked on the implementation by the "
                          "`liveness` / `hyperband` suites (fair random schedulers incl. all-fail patterns, empty initial spaces, not-tuned "
                          "configurations, trials that report a continuous entry, the process replaced by a fresh one in mid-search, explicit bounds, and a "
                          "count of a finished Hyperband search against its schedule on the trials themselves: iterations x size(b,0) first-round trials "
                          "per bracket), not proved. " + CORE_NOTE,
            "assumptions": ["fairness = every started trial is eventually ended (scheduler of the suite)"]},
    "C14": {"suites": [TRANSFORMS],
            "level_text": "Theorems (Ktm/Props/C14.lean), exact arithmetic: prob->index always in range, index->prob->index = id, the stepped linear "
                          "lattice is exactly {min + k*step <= max} with max included iff on the lattice, every probability maps into it and every "
                          "lattice value survives value->prob->value; the log / reverse_log enumeration is an initial segment of {min*step^i <= max} "
                          "ending at the first index beyond max; Choice / Boolean round trips.",
            "level_note": "The model works on the exact decimals the user wrote (scaled to integers), the code on doubles: float rounding of lattice values, "
                          "math.pow / math.log in the log modes and the continuous (step-less) log transforms are validated on every generated case "
                          "(tolerance 1e-9, plus membership in [min, max]) but not proved. At a bucket boundary (prob*n within 1e-9 of an integer) "
                          "either neighbouring index is accepted (the code divides by 1/n). MT19937 is trusted for 'seeded sampling is deterministic' "
                          "(checked by sampling twice).",
            "assumptions": ["IEEE rounding is not modelled; decimal inputs"]},
    "C18": {"suites": [METRICS],
            "level_text": "Theorems (Ktm/Props/C18.lean): reports recorded per step with repeated steps merged, best value = optimum of the non-NaN "
                          "per-step means (NaN iff all NaN), best step attains it, histories sorted by step and a permutation of the records, "
                          "multi-objective = sum(min) - sum(max), per-execution best epoch = first epoch attaining the best, list objective = mean of "
                          "per-execution bests; at the level of Oracle.update_trial (Ktm/Track.lean) every metric is tracked under the direction of its own name "
                          "(the objective's, a multi-objective's components included, else the name's, else min) for every sequence of reports, and a "
                          "report's effect on a metric does not depend on the other keys or their order.",
            "level_note": "infer_metric_direction is a parameter of the tracker model (its answers for the names used are read from the implementation). "
                          "Values are NaN / +-inf / exact rationals with numpy mean / nanmin / nanmax semantics (assumed for numpy); the implementation's "
                          "doubles are compared with the exact rationals up to 1e-12. History curves in the conversion model are finite integers "
                          "(scaled). Keras History objects are constructed directly.",
            "assumptions": ["numpy mean/nanmin/nanmax semantics"]},
    "C20": {"suites": [CHECKPOINT, METRICS],
            "level_text": "Theorems (Ktm/Props/C20.lean): the shared SaveBestEpoch callback's last write is the first epoch, in execution order, "
                          "attaining the best objective over all executions (ties / plateaus never move it); for one execution this is the best step "
                          "and value reported to the oracle; a promoted Hyperband trial's epoch interval is well-formed and ends at max_epochs.",
            "level_note": "partial: only the selection logic is proved. That the checkpoint file holds those weights, that get_best_models returns them in "
                          "rank order and that a promoted trial starts from its parent's kept weights and trains exactly [initial_epoch, epochs) "
                          "is Keras training + weight-file I/O, validated end to end on real searches by the `checkpoint` suite (weights recorded "
                          "per epoch by a user callback and compared bit for bit), not proved.",
            "assumptions": ["Keras fit / save_weights / load_weights"]},
    "C19": {"suites": [SEARCH],
            "level_text": "Theorems (Ktm/Props/C19.lean): for every script of run_trial behaviours, every retry / streak configuration and every "
                          "algorithm, the loop's trace is (start, end) pairs for the same id followed by STOPPED / a fatal error / an interrupt / the "
                          "aborting end (each started trial ended exactly once), the reported statuses are the images of the attempts in order "
                          "(returned => COMPLETED, exception => INVALID, FailedTrialError => FAILED, fatal => propagates), IDLE => ask again; restart "
                          "from any consistent disk re-issues the interrupted trial first with the same id and values and the same trial count.",
            "level_note": CORE_NOTE + " The loop model is tied to BaseTuner.search by replaying every scripted search in the model (same populate "
                          "answers) and comparing the complete event trace and final statuses. The restart of a whole tuner (tuner0.json decides whether "
                          "anything is reloaded) is checked on the implementation by resuming interrupted searches and by crashing before every file "
                          "write of whole searches (all crash points of a search are evaluated; a trial left RUNNING for good is reported under C19 too); "
                          "the file-level rule is modelled in Ktm/TunerFile.lean (Props C02) and compared with the real write sequence; the window of known "
                          "finding F18 is reported under C08.",
            "assumptions": ["KeyboardInterrupt-like interrupts are modelled as BaseException raised by run_trial"]},
    "C05": {"suites": [SAMPLING, SAMPLING_SAMENAME, GRID, TRANSFORMS_SMALL],
            "level_text": "Theorems (Ktm/Props/C05.lean): an enumerated assignment binds an entry iff it is active under the assignment itself and to a "
                          "member of its value list; every random sample (any draws, seed, tried set) and every grid trial of every reachable state is an "
                          "enumerated assignment; a Hyperband promotion keeps the parent's values; stepped value lists are the declared lattice (C14).",
            "level_note": "Continuous kinds (step-less Float, Int without a step) are proved in REAL arithmetic (Ktm/Continuous.lean, the one proof file that imports "
                          "Mathlib): every probability in [0, 1] - the optimiser's bound 1.0 included - lands in [min, max]; partial: the floating-point "
                          "evaluation (math.pow, rounding) and scipy's choice of vector are validated on every issued trial (type, [min, max] up to 1e-9). "
                          + 'Spaces are modelled as parent-first lists of entries with numbered names and value lists (value code = index in the grid-ordered list: default first); the harness translates real HyperParameters objects to that form. Hypotheses of the theorems: distinct names and parents first (F16 / F10 were exactly violations of these; same-named entries under different conditions are exercised by the suites only).' + " Every issued trial of every suite is additionally checked by a direct monitor (exactly the active names, each value in its domain).",
            "assumptions": ["domain of an entry = its lattice / choices / fixed value plus its default"]},
    "C06": {"suites": [SAMPLING, SAMPLING_GROW, HYPERBAND_SMALL, ORACLE_SMALL],
            "level_text": "Theorems (Ktm/Props/C06.lean): a sampled assignment is never in the tried set; giving up happens after exactly max_collisions+1 "
                          "colliding passes (structural recursion on that fuel: no loop); along every request list the start values of a sampling oracle "
                          "stay pairwise distinct; with values reported at end_trial and the tried set as the code keeps it (old hash dropped when new entries are tuned) "
                          "a fresh trial differs from the current values of every stored trial unless it is a dropped configuration, which is never sampled from the "
                          "grown space; unconditionally when new entries are not tuned; on exhaustion random search answers STOPPED, Hyperband IDLE only while trials run.",
            "level_note": "The hash of the active values is modelled as the assignment itself (SHA-256 truncation and str() rendering are outside the model). "
                          "The whole seeded random oracle is re-executed by the model from the logged PRNG draws; the tried set (with its removals) is "
                          "compared with the model after every request of the oracle suite. partial: that a dropped configuration really lacks an active "
                          "entry of the grown space (the link between the two halves of the growth theorem) is checked by the grow modes, not proved. " + 'Spaces are modelled as parent-first lists of entries with numbered names and value lists (value code = index in the grid-ordered list: default first); the harness translates real HyperParameters objects to that form. Hypotheses of the theorems: distinct names and parents first (F16 / F10 were exactly violations of these; same-named entries under different conditions are exercised by the suites only).',
            "assumptions": ["hash injective on well-typed values"]},
    "C09": {"suites": [GRID, GRID_DISCOVER],
            "level_text": "Theorems (Ktm/Props/C09.lean): the code's odometer step is the successor function of the enumeration of active combinations; the "
                          "enumeration has no duplicates and starts with all defaults; in every reachable state (any workers, finishing order, failures, "
                          "retries) trial i carries combination i; a STOPPED answer with nothing running means the trials are exactly the enumeration.",
            "level_note": "The whole GridSearchOracle (queue, ordered id list, successor computation) runs in the model and is compared answer by answer. "
                          "partial: spaces discovered while trials run and same-named entries under different conditions are not covered by the theorems "
                          "(both were defects, F5 and F16g, repaired in this round); they are decided by the suite: exactly-once coverage of the final "
                          "space for uniformly late declarations, and of an independent enumeration for same-named entries with domains of their own. " + 'Spaces are modelled as parent-first lists of entries with numbered names and value lists (value code = index in the grid-ordered list: default first); the harness translates real HyperParameters objects to that form. Hypotheses of the theorems: distinct names and parents first (F16 / F10 were exactly violations of these; same-named entries under different conditions are exercised by the suites only).',
            "assumptions": []},
    "C12": {"suites": [SAMPLING],
            "level_text": "Theorems (Ktm/Props/C12.lean): seed schedule (one seed per sampled entry, +1 each, never reused), issued trials a function of "
                          "history and of the generator's values at the consumed seeds only, seed state persisted across reload. The suite establishes that "
                          "the model's inputs are complete: every PRNG draw of the implementation is logged with its seed and must be the one the model predicts.",
            "level_note": "MT19937 (random.Random) is trusted; Bayesian GP / optimiser numerics are not modelled (same inputs => same outputs assumed for "
                          "sklearn / scipy with fixed random_state; checked by running scenarios twice and in a fresh interpreter with another "
                          "PYTHONHASHSEED, a third time with the process-wide generators drawn from and re-seeded between the requests, and by stopping a "
                          "search and resuming it in a fresh interpreter with another PYTHONHASHSEED against the same search resumed in-process).",
            "assumptions": ["random.Random(seed) is deterministic"]},
    "C17": {"suites": [SYNC],
            "level_text": "Theorems (Ktm/Props/C17.lean), for any number of threads and every schedule over the wrapper's shared operations: mutual "
                          "exclusion; linearizability (the oracle state equals the sequential composition of the calls in write order although each "
                          "call is a non-atomic read-modify-write); a raising call leaves the lock free and the owner cleared; a nested call from the "
                          "owning thread skips the lock; only acquire can block and only while the lock is held. The original wrapper's two failing "
                          "schedules are proved by decide.",
            "level_note": "The model is at shared-operation granularity (owner read / acquire / owner write / body read / body write / owner clear / "
                          "release; lock lookup and creation under the guard as one atomic step); CPython bytecode-level preemption inside one of "
                          "these operations and OS scheduling are not modelled. That the real oracle methods touch shared state only inside the critical "
                          "section is decided on real grid / Hyperband / random oracles (tracked containers make every access outside it a "
                          "scheduling point, an adversary runs another thread's whole call there, results and final state must equal some "
                          "sequential order of the calls); a read ahead of the lock (defect F23, repaired) is modelled in Ktm/SyncPre.lean. The tie to the code is a deterministic cooperative scheduler over "
                          "real threads running the real `synchronized` (module attributes of keras_tuner.engine.oracle replaced from the harness: "
                          "threading, THREADS, LOCKS, LOCKS_GUARD): every executed schedule is replayed on the model and all intermediate states "
                          "compared. Independence of different oracles: Ktm/SyncMulti.lean (several oracles + guard) and scripted scenarios.",
            "assumptions": ["granularity of preemption = the wrapper's shared operations"]},
    "C13": {"suites": [PROGRAMS],
            "level_text": "Theorems (Ktm/Props/C13.lean): the lookup rules stated outright (known+active => assigned value, known+inactive => None, "
                          "unknown => registered, pre-populated value or default), reading by name (value / inactive error / unknown error, distinct), "
                          "a conditional scope needs its parent, EVERY build program keeps parents before children and restores the scope stacks, "
                          "and the three outcomes of update_space under allow_new_entries / tune_new_entries.",
            "level_note": "partial: completeness of the discovery loop (every declaration under nested, eager or lazy, conditional scopes is found "
                          "before the first trial) is not proved; the loop is modelled (Space.populateInitial; the unseeded values that "
                          "ensure_active_values invents are inputs) and compared with real BaseTuner constructions on every generated program, and a "
                          "monitor checks completeness and parent-first order on the implementation. Values are integer codes assigned by the harness "
                          "(type-aware); Choice retypes bool choices to ints, so bool choices are not generated (recorded in DESIGN.md).",
            "assumptions": ["build functions are the generated program family (declarations, name scopes, conditional scopes, reads)"]},
    "C15": {"suites": [CODEC, GRID_DISCOVER_RELOAD_SMALL],
            "level_text": "Theorems (Ktm/Props/C15.lean): fromJ (toJ x) = x for conditions, the five hyperparameter kinds with every configured field, "
                          "the container (order and values), observations, histories and trials, for ALL values of those types; a copy is an equal "
                          "value; oracle state restored by reload (C07; the grid oracle's saved state is exercised by interrupted grid searches with late declarations: the "
                          "reloaded oracle must continue like the original). The model is tied to the code by parsing every JSON tree the implementation "
                          "writes with the model's reader, writing it back with the model's writer and comparing the canonical text.",
            "level_note": "The JSON text level (json.dumps / json.loads) is Python's; float values are opaque tokens in the model (exact ratio / nan / inf); "
                          "'equal in every observable respect' for implementation objects (defaults, value lists, transforms, activity, best values) is "
                          "evaluated by the suite's monitors on reloaded objects, not proved; from_config mutates the dict it is given (harmless, noted).",
            "assumptions": ["json module; dict ordering"]},
    "C16": {"suites": [RPC, ORACLE_SMALL],
            "level_text": "Theorems (Ktm/Props/C16.lean): values are not retyped by the message; for ANY regrouping of a parents-first space the decoder "
                          "returns a permutation in parents-first order (never needing its fallback); the chief's exit condition and the client-set "
                          "bookkeeping (a worker leaves the set exactly when told STOPPED). Observational equivalence of whole request sequences is "
                          "decided by the `rpc` suite: each scenario is run directly and through OracleClient -> real protobuf bytes -> OracleServicer on "
                          "identically built oracles and every answer, status, value (typed), score (single precision), metric history, best-trial "
                          "list and the chief's own state are compared.",
            "level_note": "partial: the layer's transparency is established by differential runs (direct vs. remote), the theorems cover the codec's ordering "
                          "and typing and the exit condition only; float32 rounding and gRPC itself are not modelled (the transport is in-process but "
                          "serialises every message); every worker has an OracleClient of its own on the same chief and every client's view of the search space is "
                          "compared after every end_trial. Known finding F19 (Trial.message has no proto field).",
            "assumptions": ["protobuf wire encoding"]},
}
