"""Which suites, monitors and trusted-base notes belong to which property."""

ORACLE = ("suite_oracle", {"n": {"quick": 240, "thorough": 4000}})

ORACLE_RELOAD = ("suite_oracle", {"n": {"quick": 200, "thorough": 3000}, "modes": ("reload", "reload", "plain", "reload")})
ORACLE_CRASH = ("suite_oracle", {"n": {"quick": 120, "thorough": 1500}, "modes": ("crash",)})
ORACLE_CRASH_ALL = ("suite_oracle:run_crash_all", {"n": {"quick": 36, "thorough": 400}})

NOT_CLAIMED = {}

CORE_NOTE = ("Trusted: Lean kernel; the hand-written generic oracle model (Ktm/Core.lean: create/update/endT over an arbitrary "
             "algorithm record, so all four oracle kinds are instances) is tied to keras_tuner/engine/oracle.py only by the "
             "`oracle` correspondence suite (every answer and the full bookkeeping state compared after every call on random "
             "multi-tuner schedules for random/grid/hyperband/bayes oracles); the algorithm's populate_space answer and the "
             "floats reported are inputs of the model; Python dict ordering, json, numpy mean/nanmin are assumed.")

PROPS = {
    "C01": {"suites": [ORACLE],
            "level_text": "Theorems (Ktm/Props/C01.lean): the lifecycle invariant holds in every state reachable by ANY list of "
                          "create/update/end requests from any number of tuners with any outcomes and ANY algorithm (induction over "
                          "the request list), plus same-tuner idempotence, fresh ids, never-reissued and ended-is-recorded. "
                          "A proof covers all interleavings x outcomes x oracle kinds at once, which sampling cannot.",
            "level_note": CORE_NOTE + " Calls are driven from one thread: C01 is about interleavings of requests; thread-level atomicity is C17.",
            "assumptions": ["calls are driven from one thread: C01 is about interleavings of requests; thread-level atomicity is C17"]},
    "C02": {"suites": [ORACLE],
            "level_text": "Theorems (Ktm/Props/C02.lean): for every request list, algorithm and outcome pattern the number of distinct "
                          "trials never exceeds max_trials (aborted runs included), retries are free, STOPPED once the budget is used "
                          "and no retry is pending, remaining = N - n, and the bound survives reload of any consistent disk.",
            "level_note": CORE_NOTE, "assumptions": []},
    "C03": {"suites": [ORACLE],
            "level_text": "Theorems (Ktm/Props/C03.lean): decision logic of end_trial/_retry stated outright (INVALID or NaN below the run "
                          "limit => requeued; at the limit => FAILED; FAILED final; normal finish => COMPLETED with that run's score, the "
                          "retry starting from empty reports), retries served first with the same values, final trials never reissued, "
                          "and abort <=> the end order contains K consecutive FAILED (scanning loop proved equivalent to the list statement).",
            "level_note": CORE_NOTE, "assumptions": []},
    "C07": {"suites": [ORACLE_RELOAD],
            "level_text": "Theorems (Ktm/Props/C07.lean): trial files and oracle file stay consistent with memory along every run of "
                          "complete operations (any algorithm, schedule, outcomes); reload of a saved disk = the state with its running "
                          "trials queued again, all other trials, orders, run counts and the algorithm state restored exactly; the "
                          "continuation of ANY request list is then identical; the reloaded state satisfies the lifecycle invariant.",
            "level_note": CORE_NOTE + " The algorithm state is persisted as a whole in the model; that each real oracle's get_state/set_state "
                          "really persists all of its progress (Hyperband brackets, grid position, seed state, tried set) is checked by the "
                          "suite: full state comparison after reload and a twin run (uninterrupted oracle with its running trials queued by "
                          "hand) whose every later answer must equal the reloaded oracle's (random, grid, Hyperband; Bayesian: validity only).",
            "assumptions": ["'saved' = explicit save() at an operation boundary; the files left by the operations themselves are C08"]},
    "C08": {"suites": [ORACLE_CRASH_ALL, ORACLE_CRASH],
            "level_text": "Theorems (Ktm/Props/C08.lean): for EVERY scenario and EVERY crash index k the disk is consistent (DiskOK) with the "
                          "state before or after the interrupted operation; hence restart succeeds, satisfies the invariant (unique ids), keeps "
                          "every durably ended trial untouched and unqueued, queues every RUNNING trial, keeps the trial count, and the resumed "
                          "run respects the budget. The suite enumerates every crash index of every generated scenario on the real code.",
            "level_note": CORE_NOTE + " Writes are atomic whole-file writes (as the property stipulates); 'durably recorded' = listed in the on-disk "
                          "end_order. A second crash between the reload and the first later oracle-file write is exercised by the suite "
                          "(thorough tier: second crash after every first crash) but not covered by a theorem (second_crash_partial). The "
                          "tuner-level restart (tuner0.json) is part of the `search` suite (C19).",
            "assumptions": ["atomic whole-file writes", "durably recorded = listed in the on-disk end_order"]},
}
