"""Which suites, monitors and trusted-base notes belong to which property."""

ORACLE = ("suite_oracle", {"n": {"quick": 240, "thorough": 4000}})

NOT_CLAIMED = {}

CORE_NOTE = ("Trusted: Lean kernel; the hand-written generic oracle model (Ktm/Core.lean: create/update/endT over an arbitrary "
             "algorithm record, so all four oracle kinds are instances) is tied to keras_tuner/engine/oracle.py only by the "
             "`oracle` correspondence suite (every answer and the full bookkeeping state compared after every call on random "
             "multi-tuner schedules for random/grid/hyperband/bayes oracles); the algorithm's populate_space answer and the "
             "floats reported are inputs of the model; Python dict ordering, json, numpy mean/nanmin are assumed.")

PROPS = {
    "C01": {"suites": [ORACLE],
            "level_text": "Theorems (Ktm/Props/C01.lean): the lifecycle invariant holds in every state reachable by ANY list of "
                          "create/update/end requests from any number of tuners with any outcomes and ANY algorithm (induction over "
                          "the request list), plus same-tuner idempotence, fresh ids, never-reissued and ended-is-recorded. "
                          "A proof covers all interleavings x outcomes x oracle kinds at once, which sampling cannot.",
            "level_note": CORE_NOTE + " Calls are driven from one thread: C01 is about interleavings of requests; thread-level atomicity is C17.",
            "assumptions": ["calls are driven from one thread: C01 is about interleavings of requests; thread-level atomicity is C17"]},
    "C02": {"suites": [ORACLE],
            "level_text": "Theorems (Ktm/Props/C02.lean): for every request list, algorithm and outcome pattern the number of distinct "
                          "trials never exceeds max_trials (aborted runs included), retries are free, STOPPED once the budget is used "
                          "and no retry is pending, remaining = N - n, and the bound survives reload of any consistent disk.",
            "level_note": CORE_NOTE, "assumptions": []},
    "C03": {"suites": [ORACLE],
            "level_text": "Theorems (Ktm/Props/C03.lean): decision logic of end_trial/_retry stated outright (INVALID or NaN below the run "
                          "limit => requeued; at the limit => FAILED; FAILED final; normal finish => COMPLETED with that run's score, the "
                          "retry starting from empty reports), retries served first with the same values, final trials never reissued, "
                          "and abort <=> the end order contains K consecutive FAILED (scanning loop proved equivalent to the list statement).",
            "level_note": CORE_NOTE, "assumptions": []},
}
