"""A small generic schedule runner over a real oracle: random tuners ask / report / end; every random
choice comes from the PRNG passed in, so two runs with equal answers make equal choices."""
from harness.common import canon_vals, quiet, worker_copy

OUTCOMES = ["C", "C", "C", "NAN", "INV", "FAIL"]


def run_schedule(o, R, steps=60, ntuners=None, score_of=None, outcomes=OUTCOMES, on_create=None, on_end=None,
                 discover=None, fair_finish=False, sign=1.0, best_every=0.0, restart_at=None, restart=None):
    """Returns the trace: list of tuples. `score_of(R, trial)` gives the objective reported for a
    COMPLETED outcome (default: small random numbers); `sign` multiplies it (direction symmetry);
    `discover(R, trial)` may declare new hyperparameters on the trial before it ends;
    `fair_finish`: after `steps` requests, end everything still held and keep asking until all tuners
    are told STOPPED (bounded); `restart_at` = k with `restart(o)` -> new oracle: before the k-th request the process is
    replaced by a fresh one that reloaded the project (all workers start over: what they held is forgotten)."""
    tun = [f"w{i}" for i in range(ntuners or R.randint(1, 4))]
    hold, trace, stopped = {}, [], set()
    aborted = False

    def end(w):
        nonlocal aborted
        t = hold.pop(w)
        oc = R.choice(outcomes)
        if oc in ("C", "NAN"):
            nrep = 1 if oc == "NAN" else R.choice([1, 1, 2])
            for _ in range(nrep):
                base = float("nan") if oc == "NAN" else (score_of(R, t) if score_of else float(R.choice([0, 1, 2, -1, 3, 0.5, 2.5])))
                step = R.choice([0, 0, 1])
                quiet(o.update_trial, t.trial_id, {o.objective.name: sign * base}, step=step)
            t.status = "COMPLETED"
        else:
            t.status = {"INV": "INVALID", "FAIL": "FAILED"}[oc]
        if discover:
            discover(R, t)
        try:
            quiet(o.end_trial, worker_copy(R, t))
        except RuntimeError as e:
            if "consecutive" not in str(e):
                raise
            aborted = True
        tr = o.trials[t.trial_id]
        trace.append(("end", w, t.trial_id, oc, tr.status))
        if on_end:
            on_end(o, t, oc)

    def ask(w):
        t = quiet(o.create_trial, w)
        if t.status == "RUNNING":
            hold[w] = t
            trace.append(("create", w, t.trial_id, "RUNNING", canon_vals(t.hyperparameters.values)))
        else:
            trace.append(("create", w, None, t.status, ""))
            if t.status == "STOPPED":
                stopped.add(w)
        if on_create:
            on_create(o, w, t)
        return t

    for k_ in range(steps):
        if restart is not None and k_ == restart_at:
            o = restart(o)
            trace.append(("restart", len(hold)))
            hold.clear()
            stopped.clear()
        if aborted or (len(stopped) == len(tun) and not hold):
            break
        w = R.choice(tun)
        if w in hold and R.random() < 0.7:
            end(w)
        elif w not in hold and w not in stopped:       # a worker that was told STOPPED has left
            ask(w)
        if best_every and R.random() < best_every:
            n = R.randint(1, len(o.trials) + 1)
            trace.append(("best", n, tuple(t.trial_id for t in o.get_best_trials(n))))
    if fair_finish and not aborted:
        guard = 0
        while not aborted and (hold or len(stopped) < len(tun)) and guard < 4000:
            guard += 1
            w = R.choice(tun)
            if w in hold:
                end(w)
            elif w not in stopped:
                ask(w)
        trace.append(("finished", guard < 4000, aborted))
    return trace
