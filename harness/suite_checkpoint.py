"""Suite `checkpoint` (C20): real Keras searches (RandomSearch, Hyperband; 1-2 executions per trial) on a
tiny model. A user callback injects a scripted objective curve into `logs` and records the model weights
after every epoch; afterwards the weights kept on disk per trial, the reported score / best step, the
order of get_best_models, the starting weights of promoted Hyperband trials and the epochs actually trained
are compared with the selection the Lean model (Results.keptFlat / listObjective / listBestStep) makes."""
import contextlib
import hashlib
import io
import json
import random

from harness.common import Result, Violation, compare, impl, run_driver, tempdir

STATE = {}


def curve_value(seed, tid, ex, epoch):
    h = hashlib.sha1(f"{seed}|{tid}|{ex}|{epoch}".encode()).digest()
    return float([0, 1, 1, 2, 2, 3, 4][h[0] % 7])


def make_callback():
    import keras

    class Inject(keras.callbacks.Callback):
        """scripted objective + weight recorder (deep-copied per execution, so all state is global)"""

        def on_train_begin(self, logs=None):
            tid = STATE["tid"]
            STATE["exec"][tid] = STATE["exec"].get(tid, -1) + 1
            STATE["start_w"][(tid, STATE["exec"][tid])] = [w.copy() for w in self.model.get_weights()]

        def on_epoch_end(self, epoch, logs=None):
            tid = STATE["tid"]
            ex = STATE["exec"][tid]
            sign = STATE["sign"]
            v = curve_value(STATE["seed"], tid, ex, epoch)
            logs["val_score"] = sign * v
            if STATE["multi"]:
                logs["val_b"] = float((epoch * 7 + ex) % 3)
            STATE["rec"][(tid, ex, epoch)] = [w.copy() for w in self.model.get_weights()]
            STATE["trained"].setdefault((tid, ex), []).append(epoch)

    return Inject()


def scenario(sseed, kind):
    kt = impl()
    import numpy as np
    import keras
    R = random.Random(sseed)
    direction = R.choice(["min", "max"])
    multi = kind == "random" and R.random() < 0.3
    nexec = R.choice([1, 1, 2])
    STATE.clear()
    STATE.update(seed=sseed, exec={}, rec={}, start_w={}, trained={}, sign=1.0, multi=multi, tid=None)

    def build(hp):
        m = keras.Sequential([keras.Input((2,)), keras.layers.Dense(hp.Int("u", 1, 3)), keras.layers.Dense(1)])
        m.compile(optimizer=keras.optimizers.SGD(hp.Float("lr", 0.01, 0.1)), loss="mse")
        return m

    if multi:
        objective = [kt.Objective("val_score", direction), kt.Objective("val_b", "min")]
    else:
        objective = kt.Objective("val_score", direction)
    base = kt.RandomSearch if kind == "random" else kt.Hyperband

    class T(base):
        def run_trial(self, trial, *a, **k):
            STATE["tid"] = trial.trial_id
            return super().run_trial(trial, *a, **k)

    rng = np.random.RandomState(sseed % 1000)
    x, y = rng.rand(16, 2), rng.rand(16, 1)
    lines, expect = [], []
    with tempdir("ktk") as d, contextlib.redirect_stdout(io.StringIO()), contextlib.redirect_stderr(io.StringIO()):
        if kind == "random":
            t = T(build, objective=objective, max_trials=R.randint(2, 3), executions_per_trial=nexec, directory=d, project_name="p", seed=R.randint(1, 99))
            epochs = R.randint(2, 5)
            t.search(x, y, epochs=epochs, verbose=0, callbacks=[make_callback()])
        else:
            t = T(build, objective=objective, max_epochs=R.choice([2, 3, 4]), factor=2, hyperband_iterations=1,
                  executions_per_trial=nexec, directory=d, project_name="p", seed=R.randint(1, 99))
            # `epochs=` / `initial_epoch=` given to search() (as the tutorial does) must not override the round's schedule
            extra = R.choice([{}, {"epochs": 9}, {"epochs": 1, "initial_epoch": 0}, {"epochs": 9}])
            t.search(x, y, verbose=0, callbacks=[make_callback()], **extra)
        sign = 1 if direction == "min" else -1
        tags = {"trials": 0, "promoted": 0}
        for tid, tr in t.oracle.trials.items():
            if tr.status != "COMPLETED":
                continue
            tags["trials"] += 1
            nex = STATE["exec"][tid] + 1
            curves, keys = [], []
            for ex in range(nex):
                eps = STATE["trained"][(tid, ex)]
                vals = []
                for ep in eps:
                    v = curve_value(sseed, tid, ex, ep)
                    vals.append(v + ((ep * 7 + ex) % 3) if multi and direction == "min" else (-v + ((ep * 7 + ex) % 3) if multi else v))
                curves.append([int(v) for v in vals])
                keys += [(tid, ex, ep) for ep in eps]
            mn = True if multi else direction == "min"
            lines.append(dict(suite="metrics", op="conv", minimize=mn, curves=curves))
            # implementation side: which recorded weights are on disk for this trial?
            model = t.load_model(tr)
            w = model.get_weights()
            kept = [i for i, k in enumerate(keys) if all(np.array_equal(a, b) for a, b in zip(w, STATE["rec"][k]))]
            from fractions import Fraction
            q = Fraction(float(tr.score)).limit_denominator(1000)
            # reference selection (the property statement)
            flat = [(1 if mn else -1) * v for c in curves for v in c]
            ref = flat.index(min(flat))
            if ref not in kept:
                raise Violation("C20", f"{kind} trial {tid}: weights on disk are those of trained epoch(s) {kept}, first global best of {curves} ({'min' if mn else 'max'}) is flat epoch {ref}",
                                {"tag": "kept", "kind": kind})
            beps = [c.index(min(c, key=lambda v: (1 if mn else -1) * v)) for c in curves]
            if nex == 1 and tr.best_step != beps[0]:
                raise Violation("C20", f"{kind} trial {tid}: best_step {tr.best_step} but the kept epoch is position {beps[0]} of {curves}", {"tag": "best-step", "kind": kind})
            expect.append(f"obj={q.numerator}/{q.denominator} step={tr.best_step} kept={ref if ref in kept else kept} epochs=" + ",".join(str(e) for e in beps))
            # Hyperband: promoted trials start from the parent's kept weights and train [initial_epoch, epochs)
            v = tr.hyperparameters.values
            if kind == "hyperband":
                for ex in range(nex):
                    eps = STATE["trained"][(tid, ex)]
                    if eps != list(range(v["tuner/initial_epoch"], v["tuner/epochs"])):
                        raise Violation("C20", f"hyperband trial {tid} trained epochs {eps}, schedule says [{v['tuner/initial_epoch']}, {v['tuner/epochs']})", {"tag": "epochs", "kind": kind})
                if "tuner/trial_id" in v:
                    tags["promoted"] += 1
                    parent = t.oracle.trials[v["tuner/trial_id"]]
                    pw = t.load_model(parent).get_weights()
                    for ex in range(nex):
                        sw = STATE["start_w"][(tid, ex)]
                        if not all(np.array_equal(a, b) for a, b in zip(pw, sw)):
                            raise Violation("C20", f"promoted trial {tid} (execution {ex}) does not start from the kept weights of its parent {v['tuner/trial_id']}", {"tag": "promoted-start", "kind": kind})
        # get_best_models: rank order, exactly the kept weights
        bt = t.oracle.get_best_trials(2)
        bm = t.get_best_models(len(bt))
        for tr, m in zip(bt, bm):
            w1 = t.load_model(tr).get_weights()
            if not all(np.array_equal(a, b) for a, b in zip(w1, m.get_weights())):
                raise Violation("C20", f"get_best_models does not return the kept weights of trial {tr.trial_id} in rank order", {"tag": "best-models", "kind": kind})
            if m.layers[0].units != tr.hyperparameters.values["u"]:
                raise Violation("C20", "best model not built from the best trial's hyperparameters", {"tag": "best-models", "kind": kind})
    doc = {"suite": "checkpoint", "seed": sseed, "kind": kind, "direction": direction, "executions": nexec, "multi": multi, **tags}
    return lines, expect, doc


def run(seed, tier, n=None):
    res = Result("checkpoint")
    res.rule = ("end-to-end Keras searches (RandomSearch / Hyperband, 1-2 executions, min / max / multi-objective) with scripted tie-heavy "
                "objective curves; every completed trial of every search is one evaluation; non-trivial = trial with >= 2 epochs; "
                "distinct by (search seed, trial id)")
    n = n or (5 if tier == "quick" else 60)
    R = random.Random(seed ^ 0xC20)
    all_lines, spans = [], []
    for i in range(n):
        kind = ["random", "hyperband"][i % 2]
        sseed = R.randrange(1 << 30)
        res.scenarios += 1
        try:
            lines, expect, doc = scenario(sseed, kind)
        except Violation as v:
            res.violations.append({"pid": v.pid, "what": v.what, "sig": v.sig, "replay": {"suite": "checkpoint", "seed": sseed, "kind": kind}})
            continue
        res.hist["kind-" + kind] += 1
        res.hist["promoted"] += doc["promoted"]
        spans.append((len(all_lines), lines, expect, doc))
        all_lines += lines
        for j, l in enumerate(lines):
            if sum(len(c) for c in l["curves"]) >= 2:
                res.nontrivial.add(hashlib.sha1(f"{sseed}-{j}".encode()).hexdigest())
        if len(res.samples) < 2 and lines:
            res.samples.append({"search": doc, "trial_curves": lines[0]["curves"], "impl": expect[0]})
    try:
        out = run_driver(all_lines) if all_lines else []
    except Exception as e:
        res.errors.append(f"model driver unavailable: {e}")
        return res
    for start, lines, expect, doc in spans:
        compare(res, lines, expect, out[start:start + len(lines)], doc)
    return res


def replay(doc):
    res = Result("checkpoint")
    try:
        lines, expect, d = scenario(doc["seed"], doc["kind"])
    except Violation as v:
        res.violations.append({"pid": v.pid, "what": v.what, "sig": v.sig, "replay": doc})
        return res
    out = run_driver(lines) if lines else []
    compare(res, lines, expect, out, d)
    return res
