"""Suite `codec` (C15): config / JSON round trips of hyperparameters, the HyperParameters container, metric
histories / trackers, trials and oracle state. Every JSON tree the implementation writes (after json.dumps /
json.loads, as on disk) is parsed by the Lean model's `fromJ`, written again by `toJ` and must print to the
same canonical text: a dropped, added or retyped field on either side breaks the comparison. Monitors load
the JSON back with the implementation and compare the reloaded object with the original in every observable
respect (config, values, defaults, activity, transforms, histories, trial fields), and check that a copy of
a search space is equal and independent."""
import hashlib
import json
import math
import random
from fractions import Fraction

from harness import gen
from harness.common import Result, Violation, compare, fl_str, impl, kind_of, quiet, run_driver, tempdir


def tok(x):
    x = float(x)
    if x != x:
        return "nan"
    if x in (math.inf, -math.inf):
        return "inf" if x > 0 else "-inf"
    n, d = Fraction(x).as_integer_ratio()
    return f"{n}/{d}"


def wire(o):
    """python JSON value -> wire tree (floats become tokens)"""
    if isinstance(o, bool) or o is None or isinstance(o, str):
        return o
    if isinstance(o, int):
        return o
    if isinstance(o, float):
        return {"$f": tok(o)}
    if isinstance(o, (list, tuple)):
        return [wire(x) for x in o]
    if isinstance(o, dict):
        return {str(k): wire(v) for k, v in o.items()}
    raise TypeError(type(o))


def canon(o):
    """the canonical text the driver prints"""
    if o is None:
        return "null"
    if isinstance(o, bool):
        return "true" if o else "false"
    if isinstance(o, int):
        return str(o)
    if isinstance(o, float):
        return "f:" + tok(o)
    if isinstance(o, str):
        return '"' + o.replace("\n", "\\n") + '"'
    if isinstance(o, (list, tuple)):
        return "[" + ",".join(canon(x) for x in o) + "]"
    return "{" + ",".join('"' + k + '":' + canon(v) for k, v in sorted(o.items())) + "}"


def through_json(obj):
    return json.loads(json.dumps(obj))


def rich_specs(R):
    specs = gen.rand_specs(R, finite=R.random() < 0.5, samename=R.random() < 0.3, maxdepth=3)
    for s in specs:
        if s["kind"] == "int" and R.random() < 0.3:
            s["default"] = s["lo"]            # explicit default equal to min_value must stay explicit
        if s["kind"] == "float" and R.random() < 0.3:
            s["default"] = float(s["lo"])
    return specs


def observably_equal(a, b, R):
    """two hyperparameter objects agree on everything a user can observe"""
    if type(a) is not type(b) or a.name != b.name:
        return f"type/name {type(a).__name__}/{a.name} vs {type(b).__name__}/{b.name}"
    if [(c.name, c.values) for c in a.conditions] != [(c.name, c.values) for c in b.conditions]:
        return "conditions differ"
    if not (a.default == b.default and kind_of(a.default) == kind_of(b.default)):
        return f"default {a.default!r} vs {b.default!r}"
    for attr in ("min_value", "max_value", "step", "sampling", "ordered", "value"):
        if hasattr(a, attr) and not (getattr(a, attr) == getattr(b, attr) and kind_of(getattr(a, attr)) == kind_of(getattr(b, attr))):
            return f"{attr} {getattr(a, attr)!r} vs {getattr(b, attr)!r}"
    va, vb = list(a.values), list(b.values)
    if not (len(va) == len(vb) and all(x == y and kind_of(x) == kind_of(y) for x, y in zip(va, vb))):
        return f"values {va[:5]} vs {vb[:5]}"
    for p in (0.0, 0.37, 0.99999):
        x, y = a.prob_to_value(p), b.prob_to_value(p)
        if not (x == y and kind_of(x) == kind_of(y)):
            return f"prob_to_value({p}) {x!r} vs {y!r}"
    if a.random_sample(5) != b.random_sample(5):
        return "random_sample(5) differs"
    return None


def case_space(R, res, lines, expect):
    kt = impl()
    specs = rich_specs(R)
    hps = gen.build_space(specs)
    # values as a trial would hold them (active entries only), incl. floats / bools / strings
    for p in hps.space:
        if hps.is_active(p) and R.random() < 0.7:
            hps.values[p.name] = R.choice(list(p.values))
    hps.ensure_active_values()
    cfg = through_json(hps.get_config())
    lines.append(dict(suite="codec", op="space", tree=wire(cfg)))
    expect.append(canon(cfg))
    for p in hps.space:
        c = through_json({"class_name": p.__class__.__name__, "config": p.get_config()})
        lines.append(dict(suite="codec", op="hp", tree=wire(c)))
        expect.append(canon(c))
    # monitors: reload and compare
    back = kt.HyperParameters.from_config(through_json(cfg))     # from_config rewrites the dict it is given
    if canon(through_json(back.get_config())) != canon(cfg):
        raise Violation("C15", "HyperParameters config changes on a second round trip", {"tag": "space-config"})
    if len(back.space) != len(hps.space):
        raise Violation("C15", f"space has {len(back.space)} entries after the round trip, {len(hps.space)} before", {"tag": "space-order"})
    for a, b in zip(hps.space, back.space):
        why = observably_equal(a, b, R)
        if why:
            raise Violation("C15", f"entry {a.name} differs after the config round trip: {why}", {"tag": "hp-field"})
    if {k: (kind_of(v), v) for k, v in back.values.items()} != {k: (kind_of(v), v) for k, v in hps.values.items()}:
        raise Violation("C15", f"values differ after the round trip: {back.values} vs {hps.values}", {"tag": "values"})
    for p in hps.space:
        if back.is_active(p) != hps.is_active(p):
            raise Violation("C15", f"activity of {p.name} differs after the round trip", {"tag": "activity"})
    # ... and behaves like the original when asked by NAME (the container's per-name tables are rebuilt by from_config): activity,
    # membership, lookup, completion of the values, and declaring the same entries again registers nothing new
    names = []
    for p in hps.space:
        if p.name not in names:
            names.append(p.name)
    for nm in names:
        if back.is_active(nm) != hps.is_active(nm):
            raise Violation("C15", f"is_active({nm!r}) is {back.is_active(nm)} on the reloaded search space, {hps.is_active(nm)} on the original (values {hps.values})",
                            {"tag": "activity-by-name"})
        if (nm in back) != (nm in hps):
            raise Violation("C15", f"{nm!r} in <space> differs after the round trip", {"tag": "contains-by-name"})
        if hps.is_active(nm):
            x, y = hps.get(nm), back.get(nm)
            if not (x == y and kind_of(x) == kind_of(y)):
                raise Violation("C15", f"get({nm!r}) gives {y!r} on the reloaded search space, {x!r} on the original", {"tag": "get-by-name"})
    back2 = kt.HyperParameters.from_config(through_json(cfg))
    back2.ensure_active_values()
    if {k: (kind_of(v), v) for k, v in back2.values.items()} != {k: (kind_of(v), v) for k, v in hps.values.items()}:
        raise Violation("C15", f"ensure_active_values() on the reloaded search space changes the values: {back2.values} vs {hps.values}", {"tag": "values-completed"})
    back3 = kt.HyperParameters.from_config(through_json(cfg))
    gen.build_space(specs, hps=back3)
    if len(back3.space) != len(hps.space):
        raise Violation("C15", f"declaring the same entries on the reloaded search space registers {len(back3.space) - len(hps.space)} new one(s): it does not recognise its own entries",
                        {"tag": "redeclare"})
    # copy: equal and independent
    cp = hps.copy()
    if canon(through_json(cp.get_config())) != canon(cfg):
        raise Violation("C15", "a copy of the search space is not equal to the original", {"tag": "copy"})
    before = canon(through_json(hps.get_config()))
    cp.Boolean("__added_to_copy__")
    for k in list(cp.values):
        cp.values[k] = "changed"
    for p in cp.space:
        p.conditions.append("junk")
    if canon(through_json(hps.get_config())) != before:
        raise Violation("C15", "mutating a copy of the search space changes the original", {"tag": "copy-independent"})
    return len(specs) >= 2


def case_trial(R, res, lines, expect):
    kt = impl()
    from keras_tuner.engine import trial as tm, metrics_tracking as mt
    specs = rich_specs(R)
    hps = gen.build_space(specs)
    if R.random() < 0.5:
        # values that have no entry in the space: the bookkeeping entries Hyperband adds to a trial, or a value set ahead of
        # the declaration that will use it - they are part of the trial's values and must survive like any other
        hps.values.update({"tuner/epochs": R.randint(1, 9), "tuner/initial_epoch": 0, "tuner/bracket": R.randint(0, 3), "tuner/round": R.randint(0, 3)})
        if R.random() < 0.5:
            hps.values["tuner/trial_id"] = "0007"
        if R.random() < 0.3:
            hps.values["declared_later"] = R.choice([0.25, 3, "x", True])
    t = tm.Trial(hyperparameters=hps, trial_id=str(R.randint(0, 99)), status=R.choice(["RUNNING", "COMPLETED", "INVALID", "FAILED"]))
    names = R.sample(["loss", "val_acc", "score", "m/x"], R.randint(0, 3))
    for nme in names:
        t.metrics.register(nme, direction=R.choice(["min", "max"]))
        for _ in range(R.randint(0, 5)):
            t.metrics.update(nme, R.choice([0.0, 0.5, 1.0, -2.25, float("nan"), float("inf"), float("-inf"), 3]), step=R.choice([0, 1, 2, 5, 0]))
    t.score = R.choice([None, 0.25, float("nan"), float("inf"), 2, 0.0, 0.0, -0.0, 0])
    t.best_step = R.choice([None, 0, 3])
    t.message = R.choice([None, "Traceback ...\nValueError: x", ""])
    st = through_json(t.get_state())
    lines.append(dict(suite="codec", op="trial", tree=wire(st)))
    expect.append(canon(st))
    t2 = tm.Trial.from_state(through_json(st))
    st2 = through_json(t2.get_state())
    if canon(st2) != canon(st):
        raise Violation("C15", f"trial state changes on a round trip: {canon(st)[:200]} -> {canon(st2)[:200]}", {"tag": "trial-state"})
    if {k: (kind_of(v), v) for k, v in t2.hyperparameters.values.items()} != {k: (kind_of(v), v) for k, v in t.hyperparameters.values.items()}:
        raise Violation("C15", f"the trial's values differ after the round trip: {t.hyperparameters.values} -> {t2.hyperparameters.values}", {"tag": "trial-values"})
    if (t2.trial_id, t2.status, t2.message, t2.best_step) != (t.trial_id, t.status, t.message, t.best_step) or fl_str(t2.score) != fl_str(t.score):
        raise Violation("C15", "trial id / status / message / best_step / score differ after the round trip", {"tag": "trial-fields"})
    for nme in names:
        h1, h2 = t.metrics.get_history(nme), t2.metrics.get_history(nme)
        if [(o.step, [fl_str(v) for v in o.value]) for o in h1] != [(o.step, [fl_str(v) for v in o.value]) for o in h2]:
            raise Violation("C15", f"history of {nme} differs after the round trip", {"tag": "history"})
        if t.metrics.get_direction(nme) != t2.metrics.get_direction(nme):
            raise Violation("C15", f"direction of {nme} differs after the round trip", {"tag": "direction"})
        b1, b2 = t.metrics.get_best_value(nme), t2.metrics.get_best_value(nme)
        if fl_str(b1) != fl_str(b2):
            raise Violation("C15", f"best value of {nme} differs after the round trip: {b1} vs {b2}", {"tag": "best-value"})
    # a tracker on its own
    cfgm = through_json(t.metrics.get_config())
    m2 = mt.MetricsTracker.from_config(through_json(cfgm))
    if canon(through_json(m2.get_config())) != canon(cfgm):
        raise Violation("C15", "MetricsTracker config changes on a round trip", {"tag": "tracker"})
    for nme in names:
        hc = through_json(t.metrics.metrics[nme].get_config())
        lines.append(dict(suite="codec", op="hist", tree=wire(hc)))
        expect.append(canon(hc))
    return bool(names)


def case_oracle(R, res):
    """oracle state reachable by a schedule: get_state -> JSON -> set_state on a fresh oracle"""
    from harness.sched import run_schedule
    kind = R.choice(["random", "grid", "hyperband"])
    with tempdir("ktc") as d, tempdir("ktc2") as d2:
        specs = gen.rand_specs(R, finite=(kind == "grid"), maxdepth=2)
        o = gen.make_oracle(R, kind, specs, d)
        run_schedule(o, R, steps=R.randint(3, 25))
        st = through_json(o.get_state())
        n2 = gen.clone_oracle(o, d2)
        n2.trials = dict(o.trials)
        n2.set_state(through_json(st))
        st2 = through_json(n2.get_state())
        for x in (st, st2):
            x["tried_so_far"] = sorted(x["tried_so_far"])      # a set: its listing order is not part of the state
        if canon(st2) != canon(st):
            keys = [k for k in st if canon(st[k]) != canon(st2.get(k))]
            raise Violation("C15", f"{kind} oracle state changes on get_state -> JSON -> set_state in fields {keys}", {"tag": "oracle-state", "kind": kind})
    return True


def run(seed, tier, n=None):
    res = Result("codec")
    res.rule = ("random conditional spaces (all five kinds, explicit defaults equal to min_value, ordered choices, conditions on any kind, the same "
                "name under different conditions) with trial-like values; trials with metrics reported at arbitrary steps / executions incl. NaN "
                "and infinities, scores, best steps, messages; oracle states after random schedules; everything through json.dumps / json.loads; "
                "non-trivial = space with >= 2 entries or trial with metrics; distinct by hash of the JSON")
    n = n or (240 if tier == "quick" else 5000)
    R = random.Random(seed ^ 0xC15)
    all_lines, spans = [], []
    for i in range(n):
        sseed = R.randrange(1 << 30)
        RR = random.Random(sseed)
        lines, expect = [], []
        res.scenarios += 1
        kind = ("space", "trial", "space", "trial", "oracle")[i % 5]
        try:
            nt = case_space(RR, res, lines, expect) if kind == "space" else (case_trial(RR, res, lines, expect) if kind == "trial" else case_oracle(RR, res))
        except Violation as v:
            res.violations.append({"pid": v.pid, "what": v.what, "sig": v.sig, "replay": {"suite": "codec", "seed": sseed, "kind": kind}})
            continue
        res.hist[kind] += 1
        doc = {"suite": "codec", "seed": sseed, "kind": kind}
        spans.append((len(all_lines), lines, expect, doc))
        all_lines += lines
        if nt:
            res.nontrivial.add(hashlib.sha1((json.dumps(lines, sort_keys=True) + str(sseed)).encode()).hexdigest())
        if len(res.samples) < 2 and lines and nt:
            res.samples.append({"case": doc, "impl_json": expect[0][:400]})
    try:
        out = run_driver(all_lines) if all_lines else []
    except Exception as e:
        res.errors.append(f"model driver unavailable: {e}")
        return res
    for start, lines, expect, doc in spans:
        compare(res, [{k: v for k, v in l.items() if k != "tree"} for l in lines], expect, out[start:start + len(lines)], doc)
    return res


def replay(doc):
    res = Result("codec")
    RR = random.Random(doc["seed"])
    lines, expect = [], []
    try:
        k = doc["kind"]
        case_space(RR, res, lines, expect) if k == "space" else (case_trial(RR, res, lines, expect) if k == "trial" else case_oracle(RR, res))
    except Violation as v:
        res.violations.append({"pid": v.pid, "what": v.what, "sig": v.sig, "replay": doc})
        return res
    out = run_driver(lines) if lines else []
    compare(res, [{k: v for k, v in l.items() if k != "tree"} for l in lines], expect, out, doc)
    return res
