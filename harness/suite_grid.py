"""Suite `grid` (C09, C05 for grid, C11): random finite conditional spaces, 1-4 workers, random finishing
orders, failures and retries; the whole GridSearchOracle is re-executed by the Lean model (Grid.alg with the
odometer `next` proved to be the successor function of the enumeration) and every answer compared. Monitors:
exactly-once coverage against an independent enumeration, all-defaults first, STOPPED at the end, values
exactly the active entries and in their domains. Modes `samename` and `discover` run monitors only."""
import collections
import hashlib
import json
import random
import traceback

from harness import gen
from harness.common import Result, Violation, compare, impl, kind_of, quiet, run_driver, tempdir, worker_copy
from harness.enum_ref import enumerate_space, value_list


def same(a, b):
    return a == b and kind_of(a) == kind_of(b)


def encode_space(specs):
    names = {}
    for s in specs:
        names.setdefault(s["name"], len(names))
    vlists = [value_list(s) for s in specs]
    enc = []
    for s, vl in zip(specs, vlists):
        conds = []
        for pn, pv in s["conds"]:
            pidx = next(i for i, q in enumerate(specs) if q["name"] == pn)
            codes = [i for i, v in enumerate(vlists[pidx]) if any(same(v, w) for w in pv)]
            conds.append([names[pn], codes])
        enc.append(dict(name=names[s["name"]], vals=list(range(len(vl))), conds=conds))
    return enc, names, vlists


def encode_values(values, specs, names, vlists):
    out = {}
    for k, v in values.items():
        cands = [i for i, s in enumerate(specs) if s["name"] == k]
        code = None
        for i in cands:
            for c, w in enumerate(vlists[i]):
                if same(v, w):
                    code = c
                    break
            if code is not None:
                break
        out[names.get(k, 900 + len(out))] = code if code is not None else f"?{v!r}"
    return ",".join(f"{k}={out[k]}" for k in sorted(out))


def ordered_ids(o):
    ll = o._ordered_ids
    data, idx = [], ll._next_index[None]
    while idx is not None:
        data.append(ll._memory[idx])
        idx = ll._next_index[idx]
    return data


def state_str(o):
    sts = ",".join(f"{int(tid)}:{t.status}:{o._run_times[tid] if tid in o._run_times else 0}" for tid, t in sorted(o.trials.items()))
    ong = ",".join(sorted(f"{k}={int(v.trial_id)}" for k, v in o.ongoing_trials.items()))
    return (f"trials[{sts}] ongoing[{ong}] retry[{','.join(str(int(x)) for x in o._retry_queue)}] end[{','.join(str(int(x)) for x in o.end_order)}] "
            f"ordered[{','.join(str(int(x)) for x in ordered_ids(o))}] queue[{','.join(str(int(x)) for x in o._populate_next)}]")


def check_values(t, pid="C05", extra=()):
    """values = exactly the active entries, each in its domain (type, range, lattice / choice / fixed).
    `extra`: entries that build functions reported but the oracle does not tune (tune_new_entries=False): they are
    hyperparameters of the search all the same, a promoted trial carries the (default) value its parent reported"""
    from keras_tuner.engine.hyperparameters import hp_types
    hps = t.hyperparameters
    vals = {k: v for k, v in hps.values.items() if not k.startswith("tuner/")}
    active = set()
    space = list(hps.space)
    for p in space:
        if all(c.name in vals and any(same(vals[c.name], w) for w in c.values) for c in p.conditions):
            active.add(p.name)
    # not-tuned extras: optional (only what the trial's own parent reported is inherited), and then at the entry's default
    optional = {p.name for p in extra if not hps._exists(p.name, p.conditions)} - active
    for nm in optional & set(vals):
        if not any(same(vals[nm], p.default) for p in extra if p.name == nm):
            raise Violation(pid, f"trial {t.trial_id}: value {nm}={vals[nm]!r} of an entry the oracle does not tune is not its default", {"tag": "domain"})
    if set(vals) - optional != active:
        raise Violation(pid, f"trial {t.trial_id}: values for {sorted(vals)} but active entries are {sorted(active)}", {"tag": "active-set"})
    for p in space:
        if p.name not in vals or not all(c.name in vals and any(same(vals[c.name], w) for w in c.values) for c in p.conditions):
            continue
        v = vals[p.name]
        ok = True
        if same(v, p.default):
            continue
        if isinstance(p, hp_types.Boolean):
            ok = type(v) is bool
        elif isinstance(p, hp_types.Fixed):
            ok = same(v, p.value)
        elif isinstance(p, hp_types.Choice):
            ok = any(same(v, w) for w in p.values)
        elif isinstance(p, hp_types.Int):
            ok = kind_of(v) == "int" and p.min_value <= v <= p.max_value
            if ok and p.step:
                ok = any(v == w for w in p.values)
        elif isinstance(p, hp_types.Float):
            ok = kind_of(v) == "float" and p.min_value - 1e-9 * abs(p.min_value) <= v <= p.max_value + 1e-9 * abs(p.max_value)
            if ok and p.step:
                ok = any(abs(v - w) <= 1e-9 * max(1, abs(w)) for w in p.values)
        if not ok:
            raise Violation(pid, f"trial {t.trial_id}: value {p.name}={v!r} outside the domain of {p}", {"tag": "domain"})


def complete_defaults(vals, specs):
    """fill entries that are active under `vals` but absent (declared after the trial ran) with their defaults"""
    for s in specs:
        if s["name"] in vals:
            continue
        if all(pn in vals and any(same(vals[pn], w) for w in pv) for pn, pv in s["conds"]):
            vals[s["name"]] = gen.build_hp(s).default
    return vals


def scenario(sseed, mode, do_reload=True):
    kt = impl()
    R = random.Random(sseed)
    with_reload = mode == "discover-reload"
    if with_reload:
        mode = "discover"
    lines, expect = [], []
    tags = collections.Counter()
    specs = gen.rand_specs(R, finite=True, samename=(mode == "samename"), maxdepth=R.choice([1, 2, 3]), top=(1, 3))
    ref = enumerate_space(specs)
    if len(ref) > (60 if mode == "discover" else 400):
        specs = specs[:2]
        specs = [s for s in specs if all(any(q["name"] == c[0] for q in specs) for c in s["conds"])]
        ref = enumerate_space(specs)
    with tempdir("ktg") as d:
        o = gen.make_oracle(R, "grid", specs, d, max_trials=None)
        compare_model = mode == "static"
        if compare_model:
            enc, names, vlists = encode_space(specs)
            lines.append(dict(suite="grid", op="init", space=enc, max_retries=o.max_retries_per_trial, max_consec=o.max_consecutive_failed_trials))
            first = {s["name"]: None for s in specs}
            expect.append(f"size={len(ref)} first={encode_values(ref[0], specs, names, vlists)}")
        hold, stopped = {}, set()
        tun = [f"w{i}" for i in range(R.randint(1, 4))]
        issued = []
        aborted = False
        steps = 0
        disc_n = [0]
        # discover mode, uniform flavour: every trial's run declares the same late entries (HyperModel.fit style, or a
        # conditional scope opened only there) - the final space is then well defined and exactly-once coverage is checked
        uniform = (R.random() < 0.6 and mode == "discover") or with_reload
        reload_at = R.randint(3, 30) if with_reload else -1
        late = []
        if uniform:
            tops = [s_ for s_ in specs if not s_["conds"]]
            for j in range(R.randint(1, 2)):
                cond = None
                if R.random() < 0.5:
                    par = R.choice(tops)
                    pv = list(gen.build_hp(par).values)
                    cond = (par["name"], [R.choice(pv)])
                late.append((f"u{j}", R.choice(["bool", "int", "choice"]), cond))
            # a late twin: an entry of the given space that lives under some values of a top-level parent gets a namesake
            # under the parent's OTHER values, with a domain of its own, declared only while trials run
            cands = [s_ for s_ in specs if len(s_["conds"]) == 1 and any(t_["name"] == s_["conds"][0][0] for t_ in tops)
                     and sum(1 for q_ in specs if q_["name"] == s_["name"]) == 1]
            if cands and R.random() < 0.5:
                e_ = R.choice(cands)
                par_ = next(t_ for t_ in tops if t_["name"] == e_["conds"][0][0])
                other = [v_ for v_ in gen.build_hp(par_).values if not any(same(v_, w_) for w_ in e_["conds"][0][1])]
                if other:
                    if R.random() < 0.5:
                        late.clear()          # the namesake is the only thing reported late: no new NAME appears at all
                    late.append((e_["name"], "int20", (par_["name"], other)))
                    tags["late-twin"] += 1
            tags["uniform"] += 1

        def declare_late(hps):
            import contextlib
            for nm, kind, cond in late:
                with (hps.conditional_scope(cond[0], cond[1]) if cond else contextlib.nullcontext()):
                    if kind == "bool":
                        hps.Boolean(nm)
                    elif kind == "int":
                        hps.Int(nm, 0, 2)
                    elif kind == "int20":
                        hps.Int(nm, 20, 22)
                    else:
                        hps.Choice(nm, ["p", "q", "r"], default="q")

        def late_specs():
            out = []
            for nm, kind, cond in late:
                conds = [[cond[0], list(cond[1])]] if cond else []
                if kind == "bool":
                    out.append(dict(name=nm, kind="bool", conds=conds, default=False))
                elif kind == "int":
                    out.append(dict(name=nm, kind="int", conds=conds, lo=0, hi=2, step=None, sampling="linear", default=None))
                elif kind == "int20":
                    out.append(dict(name=nm, kind="int", conds=conds, lo=20, hi=22, step=None, sampling="linear", default=None))
                else:
                    out.append(dict(name=nm, kind="choice", conds=conds, values=["p", "q", "r"], default="q"))
            return out
        declared_any = [False]
        while steps < 6000 and not aborted and (hold or len(stopped) < len(tun)):
            steps += 1
            if steps == reload_at and do_reload:
                # C07: the process stops here; a new one reloads the project and the search goes on (the trials that were
                # running are queued again, their workers are gone)
                quiet(o.save)
                n2 = gen.clone_oracle(o, d)
                quiet(n2.reload)
                o = n2
                hold = {}
                tags["reloaded-mid-search"] += 1
            w = R.choice(tun)
            if w in hold and R.random() < 0.7:
                t = hold.pop(w)
                oc = R.choice(["C"] * 7 + ["NAN", "INV", "FAIL"])
                if oc in ("C", "NAN"):
                    val = None if oc == "NAN" else R.choice([0, 1, 2, 3])
                    if compare_model:
                        lines.append(dict(suite="grid", op="update", id=int(t.trial_id), value=val))
                        expect.append("ok")
                    quiet(o.update_trial, t.trial_id, {"score": float("nan") if val is None else float(val)}, step=0)
                    t.status = "COMPLETED"
                else:
                    t.status = {"INV": "INVALID", "FAIL": "FAILED"}[oc]
                if uniform and oc == "INV" and R.random() < 0.5:
                    # the run crashed BEFORE its build function reached the late declarations: this run reports none of them
                    # (its retry, or any other trial, will)
                    tags["crashed-before-declaring"] += 1
                elif uniform:
                    declare_late(t.hyperparameters)
                    declared_any[0] = True
                    tags["discovered"] += 1
                elif mode == "discover" and R.random() < 0.3 and disc_n[0] < 3:
                    disc_n[0] += 1
                    nm = f"n{disc_n[0]}"
                    try:
                        if R.random() < 0.5:
                            t.hyperparameters.Boolean(nm)
                        else:
                            par = R.choice(t.hyperparameters.space)
                            if par.name in t.hyperparameters.values:
                                t.hyperparameters.Int(nm + "c", 0, 2, parent_name=par.name, parent_values=[t.hyperparameters.values[par.name]])
                        tags["discovered"] += 1
                    except Exception:
                        pass
                tags["end-" + oc] += 1
                if compare_model:
                    lines.append(dict(suite="grid", op="end", id=int(t.trial_id), status=t.status))
                try:
                    quiet(o.end_trial, worker_copy(R, t))
                    if compare_model:
                        expect.append("ok | " + state_str(o))
                except RuntimeError as e:
                    if "consecutive" not in str(e):
                        raise
                    if compare_model:
                        expect.append(None)
                    aborted = True
                    tags["abort"] += 1
            elif w not in hold and w not in stopped:
                n_before = len(o.trials)
                t = quiet(o.create_trial, w)
                if compare_model:
                    lines.append(dict(suite="grid", op="create", tuner=w))
                if t.status == "RUNNING":
                    hold[w] = t
                    if len(o.trials) > n_before:
                        issued.append(dict(t.hyperparameters.values))
                        check_values(t)
                    else:
                        tags["retry-served"] += 1
                    if compare_model:
                        expect.append(f"RUNNING {int(t.trial_id)} {encode_values(t.hyperparameters.values, specs, names, vlists)} | {state_str(o)}")
                else:
                    if t.status == "IDLE":
                        tags["idle"] += 1
                        if not o.ongoing_trials:
                            raise Violation("C11", "grid answered IDLE while nothing is running")
                    else:
                        stopped.add(w)
                    if compare_model:
                        expect.append(f"{t.status} | {state_str(o)}")
                if len(o.ongoing_trials) >= 2:
                    tags["parallel"] += 1
        if steps >= 6000:
            raise Violation("C09", f"grid search over {len(ref)} combinations does not finish within 6000 requests ({len(issued)} trials issued)", {"tag": "no-termination", "mode": mode})
        if not aborted:
            tags["finished"] += 1
            canon = lambda vs: json.dumps({k: [kind_of(v), v] for k, v in sorted(vs.items())}, sort_keys=True, default=str)
            got = collections.Counter(canon(v) for v in issued)
            if mode != "discover":
                want = collections.Counter(canon(v) for v in ref)
                dup = [k for k, c in got.items() if c > 1]
                if dup:
                    raise Violation("C09", f"combination tried {got[dup[0]]} times: {dup[0]}", {"tag": "duplicate", "mode": mode})
                if got != want:
                    missing = list((want - got).keys())[:2]
                    extra = list((got - want).keys())[:2]
                    raise Violation("C09", f"grid tried {len(issued)} of {len(ref)} combinations; missing {missing} extra {extra}", {"tag": "coverage", "mode": mode})
                if issued and canon(issued[0]) != canon(ref[0]):
                    raise Violation("C09", f"first trial {issued[0]} is not the all-defaults combination {ref[0]}", {"tag": "first", "mode": mode})
            else:
                dup = [k for k, c in got.items() if c > 1]
                if dup:
                    raise Violation("C09", f"combination tried twice under discovery: {dup[0]}", {"tag": "duplicate", "mode": mode})
                # coverage of the space as it stands at the end: every trial's final values (entries it never saw
                # at their defaults - that is what its build function used) against the enumeration of the final space
                # the final space as it has to be: what was given plus what every trial declares - computed from the scenario,
                # not read back from the oracle (an entry the oracle failed to merge must show)
                fspecs = ((specs + late_specs()) if declared_any[0] else list(specs)) if uniform else gen.specs_of(o.hyperparameters)
                if uniform and len(o.trials) >= 1:
                    have_ = {(p_.name, tuple((c_.name, tuple(map(str, c_.values))) for c_ in p_.conditions)) for p_ in o.hyperparameters.space}
                    want_ = {(s_["name"], tuple((c_[0], tuple(map(str, c_[1]))) for c_ in s_["conds"])) for s_ in fspecs}
                    if want_ - have_:
                        raise Violation("C09", f"entries {sorted(want_ - have_)[:2]} reported by every finished trial are not part of the oracle's search space",
                                        {"tag": "late-entry-not-merged", "mode": mode})
                fref = enumerate_space(fspecs) if uniform else []
                if uniform and len(fref) <= 3000:
                    fin = collections.Counter(canon(complete_defaults(dict(tr.hyperparameters.values), fspecs)) for tr in o.trials.values())
                    want = collections.Counter(canon(v) for v in fref)
                    tags["discover-coverage-checked"] += 1
                    if fin != want:
                        missing = list((want - fin).keys())[:2]
                        extra = list((fin - want).keys())[:2]
                        sig = {"tag": "coverage", "mode": mode}
                        # known finding F24: a trial whose every run crashed before its build function reached the late declarations is
                        # recorded without them; the combinations that differ from it only in those entries are never generated.
                        # Recognised by: nothing extra, and every missing combination agrees with such a trial on all entries it holds
                        late_names = {s_["name"] for s_ in late_specs()} - {s_["name"] for s_ in specs}
                        bare = [dict(tr.hyperparameters.values) for tr in o.trials.values() if not (late_names & set(tr.hyperparameters.values))]
                        allmissing = [json.loads(k_) for k_ in (want - fin).keys()]

                        def agrees(comb, vals):
                            return all(k_ in comb and comb[k_][1] == v_ for k_, v_ in vals.items())
                        if declared_any[0] and bare and not (fin - want) and all(any(agrees(c_, b_) for b_ in bare) for c_ in allmissing):
                            sig["cause"] = "trial-never-declared"
                        raise Violation("C09", f"grid with discovery ran {len(o.trials)} trials for {len(fref)} combinations of the final space; missing {missing} extra/duplicate {extra}"
                                        + (" (all next to a trial that crashed before declaring the late entries)" if "cause" in sig else ""), sig)
        doc = {"suite": "grid", "seed": sseed, "mode": mode, "combinations": len(ref), "workers": len(tun), "tags": dict(tags)}
    return lines, expect, doc, tags


def guarded(sseed, mode):
    try:
        return scenario(sseed, mode)
    except Violation as v:
        if mode == "discover-reload" and v.pid == "C09" and (v.sig or {}).get("cause") != "trial-never-declared":
            # is the reload to blame? the same search without the interruption decides
            try:
                scenario(sseed, mode, do_reload=False)
            except Exception:
                raise v
            v2 = Violation("C07", "grid search reloaded in mid-search does not continue as the uninterrupted one (which tries every combination "
                                  "exactly once): " + v.what, {"tag": "grid-reload-continuation"})
            # the same fact in the words of C15: the oracle loaded back from its saved state is not equal to the original in an
            # observable respect - it hands out different trials on the same requests
            v3 = Violation("C15", "a GridSearchOracle loaded back from its saved state (oracle.json + trial files) does not behave like the original: the "
                                  "uninterrupted search tries every combination exactly once, the reloaded one does not: " + v.what, {"tag": "grid-state-round-trip"})
            v2.also = [v, v3]
            raise v2
        raise
    except Exception as e:
        import os
        tb = traceback.extract_tb(e.__traceback__)
        where = next((f"{os.path.basename(f.filename)}:{f.name}" for f in reversed(tb) if "keras_tuner" in f.filename), "?")
        raise Violation("C09", f"{type(e).__name__}: {str(e)[:100]} raised in {where} (grid, mode {mode})",
                        {"exception": type(e).__name__, "where": where, "mode": mode})


def run(seed, tier, n=None, modes=("static", "static", "static", "samename", "discover")):
    res = Result("grid")
    res.rule = ("random finite spaces (all five types, steps, defaults in/out of the value list, conditions nested to depth 3), no trial limit, "
                "1-4 workers, random finishing orders, NaN / INVALID / FAILED outcomes with retries; modes: static (model-compared), samename "
                "(same name under two conditions) and discover (entries declared at end_trial) run monitors only; non-trivial = finished search "
                "over >= 3 combinations; distinct by hash of the operation lines / seed")
    n = n or (150 if tier == "quick" else 3000)
    R = random.Random(seed ^ 0xC09)
    all_lines, spans = [], []
    for i in range(n):
        mode = modes[i % len(modes)]
        sseed = R.randrange(1 << 30)
        res.scenarios += 1
        try:
            lines, expect, doc, tags = guarded(sseed, mode)
        except Violation as v:
            for x in [v] + list(getattr(v, "also", [])):
                sig = dict(x.sig or {})
                sig.setdefault("suite", "grid")
                sig.setdefault("mode", mode)
                res.violations.append({"pid": x.pid, "what": x.what, "sig": sig, "replay": {"suite": "grid", "seed": sseed, "mode": mode}})
            continue
        res.hist.update(tags)
        res.hist["mode-" + mode] += 1
        spans.append((len(all_lines), lines, expect, doc))
        all_lines += lines
        if tags.get("finished") and doc["combinations"] >= 3:
            res.nontrivial.add(hashlib.sha1((json.dumps(lines, sort_keys=True) + str(sseed)).encode()).hexdigest())
        if len(res.samples) < 2 and lines and doc["combinations"] >= 4:
            res.samples.append({"scenario": doc, "first_ops": lines[:4], "impl_answers": [e[:160] if e else e for e in expect[:4]]})
    try:
        out = run_driver(all_lines) if all_lines else []
    except Exception as e:
        res.errors.append(f"model driver unavailable: {e}")
        return res
    for start, lines, expect, doc in spans:
        compare(res, lines, expect, out[start:start + len(lines)], doc)
    return res


def replay(doc):
    res = Result("grid")
    try:
        lines, expect, d, tags = guarded(doc["seed"], doc["mode"])
    except Violation as v:
        for x in [v] + list(getattr(v, "also", [])):
            res.violations.append({"pid": x.pid, "what": x.what, "sig": x.sig, "replay": doc})
        return res
    out = run_driver(lines) if lines else []
    compare(res, lines, expect, out, d)
    return res
