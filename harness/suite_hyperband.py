"""Suite `hyperband` (C10, C11, C04-symmetry for promotion): random parallel schedules on the real
HyperbandOracle; the whole oracle runs in the Lean model (HB.alg over the generic core, schedule in
exact integer arithmetic) and every answer, label and the bracket tables are compared. Direct monitors
evaluate the C10 / C11 statements on the implementation."""
import collections
import hashlib
import json
import math
import random

from harness import gen
from harness.common import Result, Violation, compare, impl, quiet, run_driver, tempdir, worker_copy

TUNER_KEYS = ("tuner/epochs", "tuner/initial_epoch", "tuner/bracket", "tuner/round", "tuner/trial_id")


def base_of(values):
    return json.dumps({k: [type(v).__name__, v] for k, v in sorted(values.items()) if not k.startswith("tuner/")}, sort_keys=True, default=str)


def brackets_str(o):
    bs = []
    for b in o._brackets:
        rounds = "|".join(",".join(f"{int(e['id'])}/{int(e['past_id']) if e['past_id'] is not None else '-'}" for e in r) for r in b["rounds"])
        bs.append(f"{b['bracket_num']}:[{rounds}]")
    return f"cur={o._current_bracket} it={o._current_iteration} " + " ".join(bs)


def state_str(o):
    def sc(t):
        return str(int(t.score)) if t.status == "COMPLETED" else "-"
    sts = ",".join(f"{int(tid)}:{t.status}:{sc(t)}:{o._run_times[tid] if tid in o._run_times else 0}" for tid, t in sorted(o.trials.items()))
    ong = ",".join(sorted(f"{k}={int(v.trial_id)}" for k, v in o.ongoing_trials.items()))
    return (f"trials[{sts}] ongoing[{ong}] retry[{','.join(str(int(x)) for x in o._retry_queue)}] "
            f"end[{','.join(str(int(x)) for x in o.end_order)}] {brackets_str(o)}")


def table_str(o):
    nb = o._get_num_brackets()
    rows = [",".join(f"{o._get_size(b, r)}/{o._get_epochs(b, r)}" for r in range(b + 1)) for b in range(nb)]
    return f"nb={nb} " + ";".join(rows)


def round0_account(o, gave_up=False):
    """A finished Hyperband search against its schedule, counted on the trials themselves: round 0 of every bracket is
    filled by sampling whatever happens to the trials, so a search that ran all its sweeps has exactly
    iterations * size(b, 0) round-0 trials labelled b - fewer means it stopped early (unless the sampler found nothing new),
    more means it ran brackets the schedule does not have. Returns a text or None."""
    cnt = collections.Counter()
    for t in o.trials.values():
        v = t.hyperparameters.values
        if v.get("tuner/round") == 0:
            cnt[v.get("tuner/bracket")] += 1
    nb = o._get_num_brackets()
    for b in range(nb):
        want = o.hyperband_iterations * o._get_size(b, 0)
        if cnt[b] > want:
            return (f"{cnt[b]} first-round trials of bracket {b} were run, the schedule (max_epochs={o.max_epochs}, factor={o.factor}, "
                    f"{o.hyperband_iterations} iteration(s)) has {want}: more sweeps than asked for")
        if cnt[b] < want and not gave_up:
            return (f"the search is over with {cnt[b]} first-round trials of bracket {b}, the schedule (max_epochs={o.max_epochs}, factor={o.factor}, "
                    f"{o.hyperband_iterations} iteration(s)) has {want}: it ended early")
    extra = [b for b in cnt if b not in range(nb)]
    if extra:
        return f"trials labelled with bracket(s) {extra} outside the schedule's {nb} brackets"
    # later rounds: when every trial of round r of bracket b (over all sweeps) is COMPLETED and the round is full, the best
    # size(b, r+1) of them are promoted one by one - round r+1 is full as well when the search is over
    byround = collections.defaultdict(list)
    for t in o.trials.values():
        v = t.hyperparameters.values
        if "tuner/round" in v:
            byround[(v.get("tuner/bracket"), v.get("tuner/round"))].append(t)
    for b in range(nb):
        for r in range(b):
            full = o.hyperband_iterations * o._get_size(b, r)
            nxt = o.hyperband_iterations * o._get_size(b, r + 1)
            ts = byround.get((b, r), [])
            if len(ts) > full:
                return f"{len(ts)} trials labelled bracket {b} round {r}, the schedule has {full}"
            if len(ts) == full and all(t.status == "COMPLETED" for t in ts):
                if len(byround.get((b, r + 1), [])) < nxt:
                    return (f"the search is over although round {r} of bracket {b} is full and all of its {full} trials are COMPLETED while round {r + 1} holds "
                            f"{len(byround.get((b, r + 1), []))} of {nxt} trials: promotions that were due never happened (it ended early)")
            else:
                break
    return None


class Mon:
    """C10 / C11 statements on the implementation."""

    def __init__(self, o):
        self.round_of = {}      # trial id -> (bracket, round)
        self.parent = {}
        self.members = collections.defaultdict(list)   # (bracket-object index, round) -> ids
        self.bracket_uid = {}   # id(trial) -> unique bracket instance number
        self.promos = []        # (child, parent, bracket uid, round)
        self.running_runs = 0

    def bracket_instance(self, o, tid):
        for b in o._brackets:
            for r, rnd in enumerate(b["rounds"]):
                if any(e["id"] == tid for e in rnd):
                    return b, r
        return None, None

    def on_issue(self, o, t, fresh):
        v = t.hyperparameters.values
        if not fresh:
            return
        b, r = v.get("tuner/bracket"), v.get("tuner/round")
        bo, rr = self.bracket_instance(o, t.trial_id)
        if bo is None:
            raise Violation("C10", f"trial {t.trial_id} is not recorded in any bracket")
        if (bo["bracket_num"], rr) != (b, r):
            raise Violation("C10", f"trial {t.trial_id} labelled bracket {b} round {r} but recorded in bracket {bo['bracket_num']} round {rr}", {"tag": "label"})
        exp_epochs = math.ceil(o.max_epochs / o.factor ** (b - r))
        if v.get("tuner/epochs") != exp_epochs:
            raise Violation("C10", f"trial {t.trial_id}: epochs {v.get('tuner/epochs')} != ceil({o.max_epochs}/{o.factor}^({b}-{r})) = {exp_epochs}")
        exp_init = 0 if r == 0 else math.ceil(o.max_epochs / o.factor ** (b - r + 1))
        if v.get("tuner/initial_epoch") != exp_init:
            raise Violation("C10", f"trial {t.trial_id}: initial_epoch {v.get('tuner/initial_epoch')} != {exp_init}")
        if len(bo["rounds"][rr]) > o._get_size(b, rr):
            raise Violation("C10", f"round {rr} of bracket {b} holds {len(bo['rounds'][rr])} > {o._get_size(b, rr)} trials")
        self.round_of[t.trial_id] = (id(bo), rr, b)
        if r == 0:
            if "tuner/trial_id" in v:
                raise Violation("C10", f"round-0 trial {t.trial_id} has a parent")
        else:
            pid = v.get("tuner/trial_id")
            if pid not in o.trials:
                raise Violation("C10", f"promoted trial {t.trial_id} has no parent ({pid})")
            p = o.trials[pid]
            if self.round_of.get(pid, (None, None, None))[:2] != (id(bo), rr - 1):
                raise Violation("C10", f"parent {pid} of {t.trial_id} is not in round {rr - 1} of the same bracket")
            if p.status != "COMPLETED":
                raise Violation("C10", f"parent {pid} of {t.trial_id} is {p.status}")
            if base_of(p.hyperparameters.values) != base_of(v):
                raise Violation("C10", f"promoted trial {t.trial_id} changes hyperparameter values of its parent {pid}")
            if any(pp == pid for (_, pp, bu, rq) in self.promos if bu == id(bo) and rq == rr):
                raise Violation("C10", f"parent {pid} promoted twice into round {rr}")
            self.promos.append((t.trial_id, pid, id(bo), rr))
            self.brackets_keep = getattr(self, "brackets_keep", {})
            self.brackets_keep[id(bo)] = bo

    def final_rank_check(self, o):
        """fewer trials of the previous round score strictly better than a promoted parent than the next round has places"""
        sign = 1 if o.objective.direction == "min" else -1
        for child, pid, buid, r in self.promos:
            bo = self.brackets_keep[buid]
            prev = [e["id"] for e in bo["rounds"][r - 1]]
            ps = o.trials[pid].score
            better = [i for i in prev if o.trials[i].status == "COMPLETED" and sign * o.trials[i].score < sign * ps]
            places = o._get_size(bo["bracket_num"], r)
            if len(better) >= places:
                raise Violation("C10", f"parent {pid} (score {ps}) promoted to round {r} although {len(better)} trials of round {r - 1} are strictly better and round {r} has {places} places")


def scenario(sseed, res, direction=None, cfg=None):
    kt = impl()
    R = random.Random(sseed)
    lines, expect = [], []
    tags = collections.Counter()
    with tempdir("kth") as d:
        # a space large enough not to be exhausted, sometimes tiny to exercise exhaustion (IDLE/STOPPED)
        tiny = R.random() < 0.2
        specs = gen.rand_specs(R, finite=tiny, maxdepth=1 if tiny else 3, top=(1, 1) if tiny else (2, 3))
        me, fa, it = cfg or (R.randint(1, 40), R.randint(2, 5), R.randint(1, 2))
        o = gen.make_oracle(R, "hyperband", specs, d, max_epochs=me, factor=fa, iterations=it,
                            objective=kt.Objective("score", direction or R.choice(["min", "max"])))
        doc = {"suite": "hyperband", "seed": sseed, "max_epochs": me, "factor": fa, "iterations": it,
               "direction": o.objective.direction, "nspace": len(specs)}
        lines.append(dict(suite="hyperband", op="init", max_epochs=me, factor=fa, iterations=it,
                          minimize=o.objective.direction == "min", max_retries=o.max_retries_per_trial,
                          max_consec=o.max_consecutive_failed_trials))
        expect.append(table_str(o))
        mon = Mon(o)
        bases = {}
        hold, stopped = {}, set()
        tun = [f"w{i}" for i in range(R.randint(1, 5))]
        # a straggler: one worker that keeps its trial for a long time, so that rounds stay partly filled while others move on
        slow = tun[0] if len(tun) >= 2 and R.random() < 0.4 else None
        steps = 0
        limit = R.randint(20, 400)
        aborted = False
        extreme = [0]
        while steps < limit and not aborted and (hold or len(stopped) < len(tun)):
            steps += 1
            w = R.choice(tun)
            if w in hold and R.random() < (0.06 if w == slow else 0.7):
                t = hold.pop(w)
                oc = R.choice(["C"] * 8 + ["NAN", "INV", "FAIL"])
                if oc in ("C", "NAN"):
                    val = None if oc == "NAN" else R.choice([0, 1, 1, 2, 2, 3, 5, -1])
                    if oc == "C" and w == slow and R.random() < 0.7:
                        # the straggler's late result is a good one: whoever was promoted in the meantime has to stand the comparison
                        val = -2 if o.objective.direction == "min" else 7
                    key_ = mon.round_of.get(t.trial_id, (None, None))[:2]
                    if oc == "C" and any((bu_, rq_ - 1) == key_ for (_c, _p, bu_, rq_) in mon.promos) and R.random() < 0.8:
                        # adversarial scoring: somebody has already been promoted out of this trial's round - every later result of
                        # that round beats everything seen so far (a promotion must have waited until that could no longer matter)
                        extreme[0] += 1
                        val = -(2 + extreme[0]) if o.objective.direction == "min" else 7 + extreme[0]
                        tags["late-result-beats-promoted"] += 1
                    lines.append(dict(suite="hyperband", op="update", id=int(t.trial_id), value=val))
                    expect.append("ok")
                    quiet(o.update_trial, t.trial_id, {"score": float("nan") if val is None else float(val)}, step=0)
                    t.status = "COMPLETED"
                else:
                    t.status = {"INV": "INVALID", "FAIL": "FAILED"}[oc]
                tags["end-" + oc] += 1
                lines.append(dict(suite="hyperband", op="end", id=int(t.trial_id), status=t.status))
                try:
                    quiet(o.end_trial, worker_copy(R, t))
                    expect.append("ok | " + state_str(o))
                except RuntimeError as e:
                    if "consecutive" not in str(e):
                        raise
                    expect.append(None)
                    aborted = True
                    tags["abort"] += 1
            elif w not in hold and w not in stopped:
                n_before = len(o.trials)
                rq_before = list(o._retry_queue)
                t = quiet(o.create_trial, w)
                choice = 0
                if t.status == "RUNNING":
                    fresh = len(o.trials) > n_before
                    v = t.hyperparameters.values
                    b = base_of(v)
                    if fresh and v.get("tuner/round") == 0:
                        if b in bases:
                            raise Violation("C06", f"hyperband round-0 trial {t.trial_id} repeats the configuration of trial {bases[b]}")
                        bases[b] = len(bases)
                        choice = bases[b] + 1
                    hold[w] = t
                    mon.on_issue(o, t, fresh)
                    mon.running_runs += 1
                    bidx = bases.get(b, -1)
                    par = v.get("tuner/trial_id")
                    expect.append(f"RUNNING {int(t.trial_id)} base={bidx} epochs={v['tuner/epochs']} initial={v['tuner/initial_epoch']} "
                                  f"bracket={v['tuner/bracket']} round={v['tuner/round']} parent={int(par) if par is not None else '-'} | {state_str(o)}")
                    if fresh and v.get("tuner/round", 0) > 0:
                        tags["promotion"] += 1
                    if not fresh:
                        tags["retry-served"] += 1
                else:
                    if t.status == "IDLE":
                        tags["idle"] += 1
                        if not o.ongoing_trials:
                            raise Violation("C11", "Hyperband answered IDLE while no trial is running")
                    else:
                        stopped.add(w)
                        tags["stopped"] += 1
                    expect.append(f"{t.status} | {state_str(o)}")
                lines.append(dict(suite="hyperband", op="create", tuner=w, choice=choice))
                # keep line order = call order
                lines[-1], expect[-1] = lines[-1], expect[-1]
                if len(o._brackets) > 1:
                    tags["overlap"] += 1
        mon.final_rank_check(o)
        finished = not hold and len(stopped) == len(tun)
        if finished:
            tags["finished"] += 1
            # C11: bounded number of runs: iterations * sum of scheduled sizes * (retries + 1)
            nb = o._get_num_brackets()
            bound = it * sum(o._get_size(b, r) for b in range(nb) for r in range(b + 1)) * (o.max_retries_per_trial + 1)
            if mon.running_runs > bound:
                raise Violation("C11", f"{mon.running_runs} trial runs exceed the schedule bound {bound}")
        doc["tags"] = dict(tags)
    return lines, expect, doc, tags


def fix_order(lines, expect):
    return lines, expect


def schedule_sweep(res, tier, lines_out, spans):
    """the schedule functions themselves, for every bracket and round of a whole range of configurations: epochs =
    ceil(max_epochs / factor^(bracket-round)) in exact integer arithmetic, round 0 of a bracket the cheapest, the last
    round max_epochs, monotone along the rounds; the same tables go to the Lean model (exact arithmetic)"""
    kt = impl()
    from keras_tuner.tuners import hyperband
    top = 130 if tier == "quick" else 1200
    for fa in range(2, 8):
        for me in range(1, top + 1):
            o = hyperband.HyperbandOracle(objective=kt.Objective("score", "min"), max_epochs=me, factor=fa, hyperband_iterations=1)
            nb = o._get_num_brackets()
            exact_nb = 1
            while fa ** exact_nb <= me:
                exact_nb += 1
            if nb != exact_nb:
                res.violations.append({"pid": "C10", "what": f"max_epochs={me}, factor={fa}: {nb} brackets, the schedule has {exact_nb}", "sig": {"tag": "schedule-table"},
                                       "replay": {"suite": "hyperband", "table": [me, fa]}})
                continue
            bad = None
            for b in range(nb):
                for r in range(b + 1):
                    e = o._get_epochs(b, r)
                    exact = -(-me // fa ** (b - r))
                    if e != exact:
                        bad = f"max_epochs={me}, factor={fa}: round {r} of bracket {b} gets {e} epochs, ceil({me}/{fa}^{b - r}) = {exact}"
            if bad:
                res.violations.append({"pid": "C10", "what": bad, "sig": {"tag": "schedule-table"}, "replay": {"suite": "hyperband", "table": [me, fa]}})
                continue
            res.hist["schedule-tables"] += 1
            ln = [dict(suite="hyperband", op="init", max_epochs=me, factor=fa, iterations=1, minimize=True, max_retries=0, max_consec=3)]
            spans.append((len(lines_out), ln, [table_str(o)], {"suite": "hyperband", "table": [me, fa]}))
            lines_out += ln


def reload_scenario(sseed):
    """C07 for Hyperband, statement evaluated literally: a search with a slow worker (its trial stays in flight while the
    others run whole brackets) is saved at a random point and reloaded by a fresh oracle; from then on the reloaded oracle
    and the uninterrupted one (its running trials queued again, as the statement says) get the same requests and outcomes
    until the search is over: every answer and the final bracket tables must be the same."""
    import os
    import shutil
    kt = impl()
    R = random.Random(sseed)
    tags = collections.Counter()
    with tempdir("kth") as d, tempdir("kth2") as d2:
        specs = gen.rand_specs(R, maxdepth=2, top=(2, 3))
        me, fa, it = R.randint(2, 12), R.randint(2, 3), R.randint(1, 2)
        o = gen.make_oracle(R, "hyperband", specs, d, max_epochs=me, factor=fa, iterations=it, max_consecutive_failed_trials=4)
        tun = [f"w{i}" for i in range(R.randint(2, 4))]
        slow = tun[0]

        def answer(t):
            return (t.status, t.trial_id, json.dumps(t.hyperparameters.values, sort_keys=True, default=str)) if t.status == "RUNNING" else (t.status,)

        def outcome():
            oc = R.choice(["C"] * 9 + ["INV", "FAIL"])
            return oc, float(R.choice([0, 1, 1, 2, 2, 3, 5, -1]))

        def end(oracle, t, oc, val):
            if oc == "C":
                quiet(oracle.update_trial, t.trial_id, {"score": val}, step=0)
            c = kt.engine.trial.Trial(hyperparameters=t.hyperparameters.copy(), trial_id=t.trial_id,
                                      status={"C": "COMPLETED", "INV": "INVALID", "FAIL": "FAILED"}[oc])
            quiet(oracle.end_trial, c)
        hold, stopped = {}, set()
        n1 = R.randint(4, 150)
        try:
            for _ in range(n1):
                if not hold and len(stopped) == len(tun):
                    break
                w = R.choice(tun)
                if w in hold:
                    if R.random() < (0.04 if w == slow else 0.7):
                        t = hold.pop(w)
                        end(o, t, *outcome())
                elif w not in stopped:
                    t = quiet(o.create_trial, w)
                    if t.status == "RUNNING":
                        hold[w] = t
                    elif t.status == "STOPPED":
                        stopped.add(w)
        except RuntimeError as e:
            if "consecutive" not in str(e):
                raise
            return tags
        quiet(o.save)
        HB_KEYS = ("hyperband_iterations", "max_epochs", "factor", "brackets", "current_bracket", "current_iteration")

        def progress(oracle):
            st = oracle.get_state()
            return json.dumps({k: st.get(k) for k in HB_KEYS}, sort_keys=True)
        state_before = progress(o)
        if len(o._brackets) > 1:
            tags["reload-with-open-brackets"] += 1
        if o._brackets and o._brackets[-1]["bracket_num"] != o._current_bracket:
            tags["reload-newest-bracket-done-older-open"] += 1
        n2 = gen.clone_oracle(o, d)
        quiet(n2.reload)
        shutil.rmtree(d2, ignore_errors=True)
        shutil.copytree(d, d2)
        o._set_project_dir(d2, "p")
        for t in o.ongoing_trials.values():
            o._retry_queue.append(t.trial_id)
        o.ongoing_trials = {}
        if progress(n2) != state_before:
            raise Violation("C07", f"Hyperband progress (get_state) changed by save/reload: {state_before} -> {progress(n2)}", {"tag": "hyperband-reload-state"})
        tags["reload"] += 1
        hold, stopped = {}, set()
        try:
            for step in range(600):
                if not hold and len(stopped) == len(tun):
                    break
                w = R.choice(tun)
                if w in hold:
                    if R.random() < 0.7:
                        t1, t2 = hold.pop(w)
                        oc, val = outcome()
                        e1 = e2 = None
                        try:
                            end(o, t1, oc, val)
                        except RuntimeError as e:
                            e1 = str(e)[:40]
                        try:
                            end(n2, t2, oc, val)
                        except RuntimeError as e:
                            e2 = str(e)[:40]
                        if e1 != e2:
                            raise Violation("C07", f"after the reload end_trial({t1.trial_id}) aborts differently: uninterrupted {e1}, reloaded {e2}", {"tag": "hyperband-reload"})
                        if e1:
                            return tags
                elif w not in stopped:
                    t1 = quiet(o.create_trial, w)
                    t2 = quiet(n2.create_trial, w)
                    if answer(t1) != answer(t2):
                        raise Violation("C07", f"Hyperband (max_epochs={me}, factor={fa}, iterations={it}) saved at {state_before}: request {step} after the reload is answered "
                                               f"{answer(t2)} by the reloaded oracle, {answer(t1)} by the uninterrupted one", {"tag": "hyperband-reload"})
                    if t1.status == "RUNNING":
                        hold[w] = (t1, t2)
                    elif t1.status == "STOPPED":
                        stopped.add(w)
            else:
                tags["reload-unfinished"] += 1
        except RuntimeError as e:
            if "consecutive" not in str(e):
                raise
            return tags
        if brackets_str(o) != brackets_str(n2) or len(o.trials) != len(n2.trials):
            raise Violation("C07", f"after the reload the search ends with {len(n2.trials)} trials / {brackets_str(n2)}, uninterrupted {len(o.trials)} / {brackets_str(o)}",
                            {"tag": "hyperband-reload"})
        tags["reload-finished"] += 1
    return tags


def run_reload(seed, tier, n=None):
    res = Result("hyperband")
    res.rule = ("Hyperband searches with a slow worker (2-4 workers, max_epochs 2-12, factor 2-3, 1-2 iterations), saved after 4-150 requests and "
                "reloaded; the reloaded and the uninterrupted oracle then serve the same requests to the end; non-trivial = reload with a bracket open")
    n = n or (120 if tier == "quick" else 2500)
    R = random.Random(seed ^ 0xC07)
    for i in range(n):
        sseed = R.randrange(1 << 30)
        res.scenarios += 1
        try:
            tags = reload_scenario(sseed)
        except Violation as v:
            res.violations.append({"pid": v.pid, "what": v.what, "sig": v.sig, "replay": {"suite": "hyperband", "seed": sseed, "reload": True}})
            continue
        res.hist.update(tags)
        res.evaluations += 1
        if tags.get("reload"):
            res.nontrivial.add(hashlib.sha1(f"r{sseed}".encode()).hexdigest())
    return res


def run(seed, tier, n=None):
    res = Result("hyperband")
    res.rule = ("random parallel schedules (1-5 workers, 20-400 requests) on HyperbandOracle with max_epochs 1-40, factor 2-5, 1-2 iterations, "
                "tie-heavy integer scores, NaN / INVALID / FAILED outcomes, retries; whole oracle re-executed by the Lean model; "
                "non-trivial = scenario with a promotion; distinct by hash of the operation lines")
    n = n or (120 if tier == "quick" else 2500)
    R = random.Random(seed ^ 0xC10)
    all_lines, spans = [], []
    for i in range(n):
        sseed = R.randrange(1 << 30)
        res.scenarios += 1
        try:
            lines, expect, doc, tags = scenario(sseed, res)
        except Violation as v:
            res.violations.append({"pid": v.pid, "what": v.what, "sig": v.sig, "replay": {"suite": "hyperband", "seed": sseed}})
            continue
        res.hist.update(tags)
        spans.append((len(all_lines), lines, expect, doc))
        all_lines += lines
        if tags.get("promotion"):
            res.nontrivial.add(hashlib.sha1(json.dumps(lines, sort_keys=True).encode()).hexdigest())
        if len(res.samples) < 2 and tags.get("promotion"):
            res.samples.append({"scenario": doc, "first_ops": lines[:5], "impl_answers": [e[:200] if e else e for e in expect[:5]]})
    if seed % 1000 == 0:        # once per run (the suite is split over worker processes with seeds s*1000 + w)
        schedule_sweep(res, tier, all_lines, spans)
    try:
        out = run_driver(all_lines)
    except Exception as e:
        res.errors.append(f"model driver unavailable: {e}")
        return res
    for start, lines, expect, doc in spans:
        compare(res, lines, expect, out[start:start + len(lines)], doc)
    return res


def replay(doc):
    res = Result("hyperband")
    if "table" in doc:
        spans, lines = [], []
        schedule_sweep(res, "quick", lines, spans)
        res.violations = [v for v in res.violations if v["replay"].get("table") == doc["table"]]
        return res
    try:
        if doc.get("reload"):
            reload_scenario(doc["seed"])
            return res
        lines, expect, d, tags = scenario(doc["seed"], res)
    except Violation as v:
        res.violations.append({"pid": v.pid, "what": v.what, "sig": v.sig, "replay": doc})
        return res
    out = run_driver(lines)
    compare(res, lines, expect, out, d)
    return res
