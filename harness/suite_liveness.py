"""Suite `liveness` (C11): fair random schedulers drive every oracle kind to the end; monitors: IDLE only
while something runs, every worker reaches STOPPED within the run bound, STOPPED only when the budget /
schedule is used up or the sampler gave up after its collision bound."""
import hashlib
import json
import random

from harness import gen
from harness.common import Result, Violation, impl, quiet, tempdir
from harness.sched import run_schedule

KINDS = ("random", "grid", "hyperband", "bayes")


def grid_size(specs):
    """number of active combinations of a finite space (independent enumeration)"""
    from harness.enum_ref import enumerate_space
    return len(enumerate_space(specs))


def scenario(sseed, kind, allfail=False, empty=False):
    kt = impl()
    R = random.Random(sseed)
    with tempdir("ktl") as d:
        finite = kind == "grid" or R.random() < 0.5
        specs = gen.rand_specs(R, finite=finite, nonfixed=(kind == "bayes"), maxdepth=2)
        if empty and kind in ("random", "hyperband"):
            specs = []      # everything is declared inside the build function and discovered later
        over = {}
        if kind == "hyperband":
            over = dict(max_epochs=R.randint(1, 12), factor=R.randint(2, 4), iterations=R.randint(1, 2))
        if specs and R.random() < 0.3:
            # "tune a subset": the space is given up front and what build functions declare later is not tuned
            over.update(tune_new_entries=False, allow_new_entries=True)
        will_restart = R.random() < (0.5 if kind == "hyperband" else 0.3) and kind != "bayes"
        if will_restart and not allfail:
            over["max_consecutive_failed_trials"] = R.randint(4, 8)      # fewer aborted searches among the restarted ones
        o = gen.make_oracle(R, kind, specs, d, **over)
        last_sample = {}
        # growth: with everything declared tunable, an ended trial may report a continuous entry its build function declared
        # (random / Hyperband; grid growth is the grid suite's, Bayes' regressor rejects a grown space)
        grows = kind in ("random", "hyperband") and o.tune_new_entries and (empty or R.random() < 0.3)
        box = {"o": o, "extra_runs": 0}

        def wrap(oracle):
            real_rv = oracle._random_values

            def rv():
                v = real_rv()
                last_sample["v"] = v
                if v is None:
                    box["gave_up"] = True
                if v is None and oracle.tune_new_entries and any(hp.name == "late_f" for hp in oracle.hyperparameters.space):
                    raise Violation("C11", f"{kind}: the sampler gives up (the request is answered IDLE / STOPPED) after {len(oracle.trials)} trial(s) although the "
                                           "search space has a continuous entry (`late_f`, reported by an earlier trial): untried configurations can be found",
                                    {"kind": kind, "tag": "gave-up-in-a-grown-space"})
                return v
            oracle._random_values = rv
        wrap(o)

        def discover(R_, t):
            if grows and "late_f" not in t.hyperparameters.values and R_.random() < 0.7:
                t.hyperparameters.Float("late_f", 0.0, 1.0)

        def restart(old):
            quiet(old.save)
            box["extra_runs"] += len(old.ongoing_trials)
            n2 = gen.clone_oracle(old, d)
            quiet(n2.reload)
            wrap(n2)
            box["o"] = n2
            return n2
        runs = [0]
        R1 = o.max_retries_per_trial + 1

        stopped_seen = []
        known_ids = set()

        def on_create(o_, w, t):
            if t.status == "RUNNING":
                runs[0] += 1
                if t.trial_id not in known_ids:
                    known_ids.add(t.trial_id)
                    if stopped_seen and kind in ("grid", "hyperband") and last_sample.get("v", 0) is not None:
                        raise Violation("C11", f"{kind}: new trial {t.trial_id} handed to {w} after {stopped_seen} had already been told STOPPED "
                                               "(the search was declared finished while work remained)", {"kind": kind, "tag": "trial-after-stopped"})
            elif t.status == "IDLE":
                if not o_.ongoing_trials:
                    raise Violation("C11", f"{kind}: IDLE answered to {w} while no trial is running", {"kind": kind, "tag": "idle"})
            elif t.status == "STOPPED":
                if o_._retry_queue:
                    raise Violation("C11", f"{kind}: {w} is told STOPPED while trial(s) {list(o_._retry_queue)} wait to be run again: the search ends "
                                           "with work it was asked to do left over", {"kind": kind, "tag": "stopped-with-retry-pending"})
                budget_used = bool(o_.max_trials) and len(o_.trials) >= o_.max_trials
                if budget_used:
                    return
                # told STOPPED because the sampler found nothing new within its collision bound: a later request may be luckier
                # (finite, nearly exhausted space), that is not "work handed out after the search was declared finished"
                if w not in stopped_seen and last_sample.get("v", 0) is not None:
                    stopped_seen.append(w)
                if kind in ("random", "bayes"):
                    if last_sample.get("v", 0) is not None:
                        raise Violation("C11", f"{kind}: STOPPED with budget left ({len(o_.trials)}/{o_.max_trials}) although the sampler did not give up",
                                        {"kind": kind, "tag": "early-stop"})
                elif kind == "grid":
                    if o_.ongoing_trials:
                        raise Violation("C11", "grid: STOPPED while trials are running", {"kind": kind, "tag": "early-stop"})
                    n = grid_size(specs)
                    if len(o_.trials) < n:
                        raise Violation("C11", f"grid: STOPPED after {len(o_.trials)} of {n} combinations", {"kind": kind, "tag": "early-stop"})
                else:
                    if o_.ongoing_trials:
                        raise Violation("C11", "hyperband: STOPPED while trials are running", {"kind": kind, "tag": "early-stop"})
                    sched_done = o_._current_bracket == 0 and o_._current_iteration + 1 == o_.hyperband_iterations
                    if not sched_done and last_sample.get("v", 0) is not None:
                        raise Violation("C11", "hyperband: STOPPED before the last bracket although the sampler did not give up",
                                        {"kind": kind, "tag": "early-stop"})

        outcomes = ["INV", "FAIL", "NAN"] if allfail else None
        kw = dict(outcomes=outcomes) if outcomes else {}
        steps = R.randint(5, 80)
        if will_restart:
            # the process is replaced by a fresh one in mid-search (C07 says the search goes on as before): the search must
            # still end, within the bound (plus the runs repeated for the trials in flight), and not early
            kw.update(restart_at=R.randint(1, min(steps, 40)), restart=restart)
        tr = run_schedule(o, R, steps=steps, on_create=on_create, fair_finish=True, discover=discover, **kw)
        o = box["o"]
        fin = tr[-1] if tr and tr[-1][0] == "finished" else None
        aborted = fin[2] if fin else True
        if fin and not fin[1] and kind == "grid" and grid_size(specs) * R1 > 300:
            return tr, runs[0], True        # a grid too large to be finished within the request limit: no verdict
        if fin and not fin[1]:
            raise Violation("C11", f"{kind}: fair schedule did not reach STOPPED for all workers within 4000 further requests", {"kind": kind, "tag": "livelock"})
        if fin and fin[1] and not aborted:
            left = [tid for tid, t_ in o.trials.items() if t_.status not in ("COMPLETED", "FAILED")]
            if left:
                raise Violation("C11", f"{kind}: every worker was told STOPPED but trial(s) {left[:3]} never finished "
                                       f"({[o.trials[x].status for x in left[:3]]})", {"kind": kind, "tag": "unfinished-at-stop"})
        if fin and not aborted:
            if o.max_trials:
                bound = o.max_trials * R1
            elif kind == "grid":
                bound = grid_size(specs) * R1
            else:
                nb = o._get_num_brackets()
                bound = over["iterations"] * sum(o._get_size(b, r) for b in range(nb) for r in range(b + 1)) * R1
            if kind == "hyperband" and fin[1]:
                from harness.suite_hyperband import round0_account
                msg = round0_account(o, gave_up=box.get("gave_up", False))
                if msg:
                    raise Violation("C11", "hyperband: " + msg + (" (the process was replaced by a fresh one in mid-search)" if box["extra_runs"] or any(e[0] == "restart" for e in tr) else ""),
                                    {"kind": kind, "tag": "schedule-account"})
            bound += box["extra_runs"]
            if runs[0] > bound:
                raise Violation("C11", f"{kind}: {runs[0]} trial runs exceed the bound {bound}", {"kind": kind, "tag": "bound"})
        return tr, runs[0], aborted


def run(seed, tier, n=None, kinds=KINDS):
    res = Result("liveness")
    res.rule = ("fair random schedules (1-4 workers; every started trial is eventually ended; all-fail patterns included) on the four "
                "oracle kinds, run until every worker is told STOPPED or the search aborts; non-trivial = finished run with >= 2 workers "
                "or an IDLE answer; distinct by trace hash")
    n = n or (120 if tier == "quick" else 2000)
    R = random.Random(seed ^ 0xC11)
    for i in range(n):
        kind = kinds[i % len(kinds)]
        if kind == "bayes" and tier == "quick" and i % 12 != 3:
            kind = "random"
        sseed = R.randrange(1 << 30)
        allfail = (i % 7 == 0)
        res.scenarios += 1
        try:
            tr, nruns, aborted = scenario(sseed, kind, allfail, empty=(i % 10 in (5, 6)))
        except Violation as v:
            res.violations.append({"pid": v.pid, "what": v.what, "sig": v.sig, "replay": {"suite": "liveness", "kind": kind, "seed": sseed, "allfail": allfail, "empty": (i % 10 in (5, 6))}})
            continue
        res.evaluations += len(tr)
        res.hist["kind-" + kind] += 1
        res.hist["aborted" if aborted else "finished"] += 1
        idle = sum(1 for e in tr if e[0] == "create" and e[3] == "IDLE")
        res.hist["idle-answers"] += idle
        workers = len({e[1] for e in tr if e[0] == "create"})
        if (not aborted and workers >= 2) or idle:
            res.nontrivial.add(hashlib.sha1(json.dumps(tr, default=str).encode()).hexdigest())
        if len(res.samples) < 2 and idle:
            res.samples.append({"kind": kind, "seed": sseed, "runs": nruns, "trace_head": tr[:6]})
    return res


def replay(doc):
    res = Result("liveness")
    try:
        scenario(doc["seed"], doc["kind"], doc.get("allfail", False), doc.get("empty", False))
    except Violation as v:
        res.violations.append({"pid": v.pid, "what": v.what, "sig": v.sig, "replay": doc})
    return res
