"""Suite `metrics` (C18, C20 callback part): MetricsTracker / MetricHistory, convert_to_metrics_dict,
get_best_step, MultiObjective.get_value and the shared SaveBestEpoch callback on scripted inputs, compared
with the Lean model (Ktm/Metrics.lean, Ktm/Results.lean); monitors evaluate the C18 statement against an
independent reference."""
import hashlib
import json
import math
import random
import statistics
from fractions import Fraction

from harness.common import Result, Violation, compare, fl, fl_str, impl, run_driver

VALS = [0.0, 1.0, 2.0, -1.0, 3.0, 0.5, 2.5, -0.25, float("inf"), float("-inf"), float("nan")]


def ref_best(direction, per_step):
    """independent reference: best of the per-step means, NaN ignored unless all NaN"""
    means = []
    for vs in per_step.values():
        if any(v != v for v in vs) or (math.inf in vs and -math.inf in vs):
            means.append(float("nan"))
        else:
            means.append(sum(vs) / len(vs))
    good = [m for m in means if m == m]
    if not means:
        return None, means
    if not good:
        return float("nan"), means
    return (min(good) if direction == "min" else max(good)), means


def case_hist(R, res, lines, expect):
    kt = impl()
    from keras_tuner.engine import metrics_tracking as mt
    direction = R.choice(["min", "max"])
    tr = mt.MetricsTracker()
    tr.register("m", direction=direction)
    n = R.randint(0, 9)
    reps, per = [], {}
    for _ in range(n):
        s = R.choice([0, 0, 1, 2, 3, 5, -1])
        v = R.choice(VALS if R.random() < 0.5 else VALS[:8])
        tr.update("m", v, step=s)
        reps.append([s, fl(v)])
        per.setdefault(s, []).append(v)
    best = tr.get_best_value("m")
    step = tr.get_best_step("m")
    hist = tr.get_history("m")
    # monitors
    rb, _ = ref_best(direction, per)
    same = (best is None and rb is None) or (best is not None and rb is not None and ((best != best and rb != rb) or abs(best - rb) <= 1e-12 * max(1, abs(rb)) or best == rb))
    if not same:
        raise Violation("C18", f"best value {best} of reports {reps} ({direction}), reference {rb}", {"tag": "best-value"})
    if [o.step for o in hist] != sorted(per):
        raise Violation("C18", f"history steps {[o.step for o in hist]} are not the reported steps in order {sorted(per)}", {"tag": "history-order"})
    for o in hist:
        if [fl_str(x) for x in o.value] != [fl_str(x) for x in per[o.step]]:
            raise Violation("C18", f"step {o.step} recorded {o.value}, reported {per[o.step]}", {"tag": "records"})
    if step is not None:
        m = float(sum(per[step]) / len(per[step])) if all(x == x for x in per[step]) else float("nan")
        if not (m == best or abs(m - best) < 1e-12):
            raise Violation("C18", f"best step {step} has mean {m}, best value is {best}", {"tag": "best-step"})
    elif best is not None and best == best:
        raise Violation("C18", f"no best step although best value is {best}", {"tag": "best-step"})
    lines.append(dict(suite="metrics", op="hist", minimize=direction == "min", reports=reps))
    hs = ",".join(f"{o.step}:{fl_str(o.mean())}:{len(o.value)}" for o in hist)
    expect.append(f"best={fl_str(best) if best is not None else 'None'} step={step} history=[{hs}]")
    res.hist["hist"] += 1
    return n >= 3 and len(per) >= 2


class StubModel:
    def __init__(self):
        self.saved = []
        self.distribute_strategy = None

    def save_weights(self, path):
        self.saved.append(self.cursor)


def case_conv(R, res, lines, expect):
    kt = impl()
    import keras
    from keras_tuner.engine import tuner_utils, objective as om
    multi = R.random() < 0.3
    nexec = R.randint(1, 3)
    curves = []
    hists = []
    ragged = False
    if multi:
        names = [("a", R.choice(["min", "max"])), ("b", R.choice(["min", "max"]))]
        obj = om.MultiObjective([om.Objective(n, d) for n, d in names])
        direction = "min"
    else:
        direction = R.choice(["min", "max"])
        obj = om.Objective("score", direction)
    for _ in range(nexec):
        L = R.randint(1, 7)
        # a metric that is not part of the objective may be logged less often (validation_freq=2, sparse callback logs): its
        # list is shorter than the objective's; the best epoch is still looked for over ALL epochs of the objective
        Ls = L if R.random() < 0.6 else R.randint(1, L)
        ragged = ragged or Ls < L
        h = keras.callbacks.History()
        if multi:
            a = [R.randint(-3, 6) for _ in range(L)]
            b = [R.randint(-3, 6) for _ in range(L)]
            h.history = {"a": [float(x) for x in a], "b": [float(x) for x in b], "other": [1.0] * Ls}
            comb = []
            for x, y in zip(a, b):
                terms = [[names[0][1] == "min", x], [names[1][1] == "min", y]]
                v = obj.get_value({"a": float(x), "b": float(y), "other": 1.0})
                lines.append(dict(suite="metrics", op="multi", terms=terms))
                expect.append(f"value={int(v)}")
                ref = sum(t if mn else -t for mn, t in terms)
                if v != ref:
                    raise Violation("C18", f"multi-objective value {v} != sum(min) - sum(max) = {ref} for {terms}", {"tag": "multi"})
                comb.append(int(v))
            curves.append(comb)
        else:
            c = [R.choice([0, 1, 1, 2, 2, 3, 5, -1, 4]) for _ in range(L)]
            h.history = {"score": [float(x) for x in c], "loss": [0.5] * Ls}
            curves.append(c)
        hists.append(h)
    results = hists if nexec > 1 or R.random() < 0.5 else hists[0]
    md = tuner_utils.convert_to_metrics_dict(results, obj)
    step = tuner_utils.get_best_step(results, obj)
    # the shared checkpoint callback, driven epoch by epoch over all executions
    model = StubModel()
    cb = tuner_utils.SaveBestEpoch(obj, "/nonexistent/ckpt")
    cb.set_model(model) if hasattr(cb, "set_model") else None
    cb._model = model
    try:
        cb.model = model
    except Exception:
        pass
    import keras_tuner.engine.tuner_utils as tu
    real_save = tu.SaveBestEpoch._save_model
    tu.SaveBestEpoch._save_model = lambda self: model.save_weights(self.filepath)
    try:
        flat = 0
        for e, h in enumerate(hists):
            L = len(next(iter(h.history.values())))
            for ep in range(L):
                model.cursor = flat
                cb.on_epoch_end(ep, {k: v[ep] for k, v in h.history.items() if ep < len(v)})
                flat += 1
    finally:
        tu.SaveBestEpoch._save_model = real_save
    kept = model.saved[-1] if model.saved else None
    # monitors (independent reference); all of them are evaluated: one result may break several clauses (C18 and C20)
    found = []
    sign = 1 if direction == "min" else -1
    bests, beps = [], []
    for c in curves:
        bv = min(sign * x for x in c)
        beps.append(next(i for i, x in enumerate(c) if sign * x == bv))
        bests.append(sign * bv)
    ref_obj = sum(bests) / len(bests)
    if abs(md[obj.name] - ref_obj) > 1e-9:
        found.append(Violation("C18", f"objective {md[obj.name]} of executions {curves} ({direction}) != mean of per-execution bests {ref_obj}", {"tag": "mean-of-bests"}))
    ref_step = int(statistics.mean(beps))
    if step != ref_step:
        found.append(Violation("C18", f"best step {step} != int(mean(best epochs {beps})) = {ref_step}", {"tag": "best-step-list"}))
    flatc = [sign * x for c in curves for x in c]
    ref_kept = flatc.index(min(flatc))
    if kept != ref_kept:
        found.append(Violation("C20", f"checkpoint kept at flat epoch {kept}, first global best of {curves} ({direction}) is {ref_kept}", {"tag": "kept"}))
    if nexec == 1 and (kept != step or md[obj.name] != curves[0][kept]):
        found.append(Violation("C20", f"single execution: kept epoch {kept} / best step {step} / objective {md[obj.name]} disagree for {curves}", {"tag": "kept-single"}))
    if found:
        found[0].also = found[1:]
        raise found[0]
    lines.append(dict(suite="metrics", op="conv", minimize=direction == "min", curves=curves))
    q = Fraction(md[obj.name]).limit_denominator(1000)
    expect.append(f"obj={q.numerator}/{q.denominator} step={step} kept={kept} epochs=" + ",".join(str(e) for e in beps))
    res.hist["conv-multi" if multi else "conv"] += 1
    res.hist[f"executions-{nexec}"] += 1
    if ragged:
        res.hist["conv-ragged-history"] += 1
    return nexec >= 2 or len(curves[0]) >= 3


NAME_DIR = {"loss": "min", "val_loss": "min", "acc": "max", "accuracy": "max", "val_accuracy": "max", "custom_thing": "min", "score": "min"}


def case_update(R, res, lines, expect):
    """Oracle.update_trial with several metrics per report (the objective anywhere in the dict): every metric is recorded per
    step under ITS OWN direction - the objective's as the user gave it, the others' as their names say (loss-like: min,
    accuracy-like: max, unknown: min) - and the score after end_trial is the objective's best value"""
    kt = impl()
    from harness import gen
    from harness.common import tempdir, quiet
    names = list(NAME_DIR)
    R.shuffle(names)
    multi = R.random() < 0.25
    if multi:
        objs = [(names[0], R.choice(["min", "max"])), (names[1], R.choice(["min", "max"]))]
        obj = kt.Objective(objs[0][0], objs[0][1]), kt.Objective(objs[1][0], objs[1][1])
        obj = list(obj)
    else:
        objs = [(names[0], R.choice(["min", "max"]))]
        obj = kt.Objective(*objs[0])
    want_dir = dict(NAME_DIR)
    want_dir.update(dict(objs))
    others = names[len(objs):len(objs) + R.randint(1, 3)]
    with tempdir("ktm") as d:
        o = gen.make_oracle(R, "random", gen.rand_specs(R, maxdepth=1), d, objective=obj, max_trials=2)
        t = quiet(o.create_trial, "w0")
        per = {}
        sent = []
        nrep = R.randint(2, 6)
        for _ in range(nrep):
            step = R.choice([0, 1, 1, 2, 3, 5])
            keys = [n for n, _ in objs] + [n for n in others if R.random() < 0.8]
            R.shuffle(keys)
            rep = {k: float(R.choice(VALS[:8])) for k in keys}
            quiet(o.update_trial, t.trial_id, rep, step=step)
            sent.append((step, dict(rep)))
            for k, v in rep.items():
                per.setdefault(k, {}).setdefault(step, []).append(v)
        tr = o.trials[t.trial_id]
        found = []
        for k in sorted(per):
            hist = tr.metrics.metrics[k]
            if hist.direction != want_dir[k]:
                found.append(Violation("C18", f"metric {k!r} is tracked with direction {hist.direction!r}; objective(s) {objs}: its direction is {want_dir[k]!r}",
                                       {"tag": "metric-direction"}))
            rb, _ = ref_best(want_dir[k], per[k])
            best = tr.metrics.get_best_value(k)
            if not (best == rb or abs(best - rb) <= 1e-12 * max(1, abs(rb))):
                found.append(Violation("C18", f"best value of metric {k!r} ({want_dir[k]}) over reports {per[k]} is {best}, reference {rb}", {"tag": "best-value-multi-report"}))
            got_steps = [ob.step for ob in tr.metrics.get_history(k)]
            if got_steps != sorted(per[k]):
                found.append(Violation("C18", f"history of {k!r} has steps {got_steps}, reported at {sorted(per[k])}", {"tag": "history-order"}))
            reps = [[s_, fl(v)] for s_ in per[k] for v in per[k][s_]]
            lines.append(dict(suite="metrics", op="hist", minimize=want_dir[k] == "min", reports=reps))
            hs = ",".join(f"{ob.step}:{fl_str(ob.mean())}:{len(ob.value)}" for ob in tr.metrics.get_history(k))
            expect.append(f"best={fl_str(best)} step={tr.metrics.get_best_step(k)} history=[{hs}]")
        if found:
            found[0].also = found[1:]
            raise found[0]
        # the whole tracker against the model (Ktm/Track.lean): registration order, direction, best value and best step of every metric;
        # what the name of a metric says (`infer_metric_direction`) is an input of the model
        from keras_tuner.engine import metrics_tracking as mt_
        infer = [[n_, None if mt_.infer_metric_direction(n_) is None else mt_.infer_metric_direction(n_) == "min"] for n_ in sorted(per)]
        oj = (dict(name="multi_objective", minimize=True, parts=[[n_, d_ == "min"] for n_, d_ in objs]) if multi
              else dict(name=objs[0][0], minimize=objs[0][1] == "min", parts=[]))
        lines.append(dict(suite="metrics", op="track", objective=oj, infer=infer, reports=[[st_, [[k_, fl(v_)] for k_, v_ in rep_.items()]] for st_, rep_ in sent]))
        expect.append(";".join(f"{n_}:{h_.direction}:{fl_str(h_.get_best_value())}:{h_.get_best_step()}" for n_, h_ in tr.metrics.metrics.items()))
        quiet(o.end_trial, t)
        tr = o.trials[t.trial_id]
        bests = {k: ref_best(want_dir[k], per[k])[0] for k, _ in objs}
        ref_score = bests[objs[0][0]] if not multi else sum(b if dr == "min" else -b for (k, dr), b in zip(objs, [bests[k] for k, _ in objs]))
        if not multi and tr.status == "COMPLETED" and not (tr.score == ref_score or abs(tr.score - ref_score) < 1e-9):
            raise Violation("C18", f"score {tr.score} after end_trial, best value of the objective {objs} over {per[objs[0][0]]} is {ref_score}", {"tag": "score"})
    res.hist["update-multi-objective" if multi else "update"] += 1
    return True


def case_plain(R, res, lines=None, expect=None):
    """float / dict / nested list conversion: decision logic"""
    kt = impl()
    from keras_tuner.engine import tuner_utils, objective as om
    obj = om.Objective("score", R.choice(["min", "max"]))
    x = R.choice([0.5, 2, -1.0, 3])
    if tuner_utils.convert_to_metrics_dict(x, obj) != {"score": float(x)}:
        raise Violation("C18", f"a float result {x} is not converted to {{objective: value}}", {"tag": "convert-float"})
    d = {"score": 1.5, "acc": 0.25}
    if tuner_utils.convert_to_metrics_dict(d, obj) != d:
        raise Violation("C18", "a dict result is not passed through", {"tag": "convert-dict"})
    xs = [R.choice([0.0, 1.0, 2.0, 4.0]) for _ in range(R.randint(1, 4))]
    got = tuner_utils.convert_to_metrics_dict([{"score": v, "acc": 1.0} for v in xs], obj)
    if abs(got["score"] - sum(xs) / len(xs)) > 1e-12 or tuner_utils.get_best_step(xs, obj) != 0:
        raise Violation("C18", f"list of dict results {xs} is not averaged", {"tag": "convert-list"})
    # an execution whose objective is NaN makes the mean over executions NaN (and the trial INVALID): it must not be dropped
    ys = [R.choice([0.0, 1.0, 2.0, 4.0]) for _ in range(R.randint(1, 3))]
    ys.insert(R.randrange(len(ys) + 1), float("nan"))
    for form in ("float", "dict", "mixed"):
        rs = [y if form == "float" or (form == "mixed" and i % 2 == 0) else {"score": y, "acc": 1.0} for i, y in enumerate(ys)]
        got = tuner_utils.convert_to_metrics_dict(rs, obj)
        if got["score"] == got["score"]:
            raise Violation("C18", f"executions {ys} (one objective is NaN) are converted to objective {got['score']}: the mean over ALL executions is NaN",
                            {"tag": "nan-execution-dropped"})
    # a History whose objective diverges to NaN after some good epochs: the best epoch is looked for among the epochs before and
    # after it - a NaN is never better than a number (only a NaN at the very first epoch stays: nothing compares better than it)
    import keras
    L = R.randint(2, 7)
    curve = [float(R.choice([0, 1, 2, 3, 4, 5])) for _ in range(L)]
    for j_ in range(1, L):
        if R.random() < 0.35:
            curve[j_] = float("nan")
    h = keras.callbacks.History()
    h.history = {"score": list(curve), "loss": [0.5] * L}
    sign = 1 if obj.direction == "min" else -1
    finite = [(sign * v, i_) for i_, v in enumerate(curve) if v == v]
    bv = min(x for x, _ in finite)
    want_ep = next(i_ for x, i_ in finite if x == bv)
    got = tuner_utils.convert_to_metrics_dict(h, obj)
    step = tuner_utils.get_best_step(h, obj)
    if not (got["score"] == curve[want_ep]) or step != want_ep:
        raise Violation("C18", f"History with objective {curve} ({obj.direction}): converted to objective {got['score']} at best step {step}, the best epoch is "
                               f"{want_ep} with {curve[want_ep]} (a NaN epoch is never the best one)", {"tag": "nan-epoch"})
    if lines is not None:
        lines.append(dict(suite="metrics", op="nanconv", minimize=obj.direction == "min", curve=[None if v != v else int(v) for v in curve]))
        expect.append(f"epoch={step} value={'nan' if got['score'] != got['score'] else int(got['score'])}")
    if any(v != v for v in curve):
        res.hist["history-with-nan-epoch"] += 1
    res.hist["plain"] += 1


def run_case(kind, RR, res, lines, expect):
    if kind == 0:
        return case_hist(RR, res, lines, expect)
    if kind == 1:
        return case_conv(RR, res, lines, expect)
    if kind == 3:
        return case_update(RR, res, lines, expect)
    return case_plain(RR, res, lines, expect) or False


def run(seed, tier, n=None):
    res = Result("metrics")
    res.rule = ("random (value, step) report sequences in any order incl. repeated steps, ties, NaN and infinities; per-execution "
                "History curves (1-3 executions, ties, plateaus) for min / max / multi-objective; non-trivial = >= 3 reports over "
                ">= 2 steps, or >= 2 executions / >= 3 epochs; distinct by hash of the case")
    n = n or (600 if tier == "quick" else 12000)
    R = random.Random(seed ^ 0xC18)
    all_lines, spans = [], []
    for i in range(n):
        sseed = R.randrange(1 << 30)
        RR = random.Random(sseed)
        lines, expect = [], []
        res.scenarios += 1
        kind = i % 3 if i % 12 != 11 else 3
        try:
            nt = run_case(kind, RR, res, lines, expect)
        except Violation as v:
            for x in [v] + list(getattr(v, "also", [])):
                res.violations.append({"pid": x.pid, "what": x.what, "sig": x.sig, "replay": {"suite": "metrics", "seed": sseed, "kind": kind}})
            continue
        doc = {"suite": "metrics", "seed": sseed, "kind": kind}
        spans.append((len(all_lines), lines, expect, doc))
        all_lines += lines
        if nt:
            res.nontrivial.add(hashlib.sha1(json.dumps(lines, sort_keys=True).encode()).hexdigest())
        if len(res.samples) < 3 and nt and lines:
            res.samples.append({"case": doc, "op": lines[-1], "impl_answer": expect[-1]})
    try:
        out = run_driver(all_lines) if all_lines else []
    except Exception as e:
        res.errors.append(f"model driver unavailable: {e}")
        return res
    for start, lines, expect, doc in spans:
        compare(res, lines, expect, out[start:start + len(lines)], doc)
    return res


def replay(doc):
    res = Result("metrics")
    RR = random.Random(doc["seed"])
    lines, expect = [], []
    try:
        run_case(doc["kind"], RR, res, lines, expect)
    except Violation as v:
        for x in [v] + list(getattr(v, "also", [])):
            res.violations.append({"pid": x.pid, "what": x.what, "sig": x.sig, "replay": doc})
        return res
    out = run_driver(lines) if lines else []
    compare(res, lines, expect, out, doc)
    return res
