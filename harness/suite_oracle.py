"""Suite `oracle`: random multi-tuner schedules on the real oracles (random / grid / hyperband / bayes),
compared operation by operation with the Lean model of the generic oracle (Core.create/update/endT,
Core.reload + write model, Metrics.bestValue, Ranking.bestTrials), plus direct monitors for
C01, C02, C03, C04 (ranking), C07, C08 (oracle level) and C11 (IDLE only while work is in flight)."""
import collections
import hashlib
import json
import os
import random
import shutil

from harness import gen
from harness.common import (Result, Violation, canon_vals, compare, fl, fl_str, impl, quiet, run_driver, tempdir, worker_copy)

KINDS = ("random", "grid", "hyperband", "bayes")


class Crash(BaseException):
    pass


class WriteGate:
    """Interposer on keras_tuner.utils.save_json: counts file writes, dies before the (k+1)-th."""

    def __init__(self):
        self.budget = None
        self.count = 0
        self.real = None
        self.trace = None       # when a list: (file name, number of ended trials in the object) of every write that happened

    def install(self):
        from keras_tuner import utils
        self.real = utils.save_json
        gate = self

        def save_json(path, obj):
            if gate.budget is not None:
                if gate.budget == 0:
                    raise Crash()
                gate.budget -= 1
            gate.count += 1
            if gate.trace is not None:
                gate.trace.append((os.path.basename(path), len(obj.get("end_order", [])) if isinstance(obj, dict) else 0))
            return gate.real(path, obj)

        utils.save_json = save_json

    def remove(self):
        from keras_tuner import utils
        utils.save_json = self.real


def state_str(o):
    sts = ",".join(
        f"{tid}:{t.status}:{fl_str(t.score) if t.status == 'COMPLETED' else '-'}:{o._run_times[tid] if tid in o._run_times else 0}"
        for tid, t in sorted(o.trials.items()))
    ong = ",".join(sorted(f"{k}={v.trial_id}" for k, v in o.ongoing_trials.items()))
    return f"trials[{sts}] ongoing[{ong}] retry[{','.join(o._retry_queue)}] end[{','.join(o.end_order)}] tuners[{','.join(sorted(o.tuner_ids))}]"


def metrics_doc(t):
    """per metric: direction and the (step, values) history, floats canonical"""
    out = {}
    for name, h in sorted(t.metrics.metrics.items()):
        out[name] = (h.direction, [(ob.step, [fl_str(v) for v in ob.value]) for ob in h.get_history()])
    return out


def has_streak(sts, k):
    return any(all(s == "FAILED" for s in sts[i:i + k]) for i in range(len(sts) - k + 1))


class Monitors:
    """Direct evaluation of the property statements on the live implementation object."""

    def __init__(self, o):
        self.out = {}            # trial id -> tuner currently holding it (handed out, not ended)
        self.ended_final = set()
        self.runs = collections.Counter()
        self.startvals = {}
        self.keep_reports = set()  # requeued by a reload: the interrupted run's reports stay
        self.last_run_vals = {}  # trial id -> objective values reported in the current run {step: [v..]}

    def reset_process(self, o, waiting=()):
        """a new process: nothing is handed out; the reports of interrupted runs are what the files hold; `waiting`: trials
        that had ended INVALID and were waiting for their retry when the state was saved - their retry starts from no reports"""
        self.out = {}
        self.asked, self.told = set(), set()
        # the values a re-run carries are the ones the trial files hold (a report lost in the crash is lost)
        for tid, t in o.trials.items():
            self.startvals[tid] = canon_vals(t.hyperparameters.values)
        for tid in o._retry_queue:
            t = o.trials[tid]
            per = {}
            if tid in waiting:
                self.last_run_vals[tid] = {}
                self.keep_reports.discard(tid)
                continue
            if t.metrics.exists(o.objective.name):
                for ob in t.metrics.get_history(o.objective.name):
                    per[ob.step] = list(ob.value)
            self.last_run_vals[tid] = per
            self.keep_reports.add(tid)

    def invariants(self, o):
        ong = {k: v.trial_id for k, v in o.ongoing_trials.items()}
        if len(set(ong.values())) != len(ong):
            raise Violation("C01", f"one trial assigned to two tuners: {ong}")
        for tid in ong.values():
            if o.trials[tid].status != "RUNNING":
                raise Violation("C01", f"ongoing trial {tid} has status {o.trials[tid].status}")
        if set(ong.values()) != set(self.out):
            raise Violation("C01", f"ongoing {sorted(ong.values())} != handed out and not ended {sorted(self.out)}")
        for tid, w in self.out.items():
            if ong.get(w) != tid:
                raise Violation("C01", f"trial {tid} handed to {w} but ongoing says {ong}")
        if len(set(o.start_order)) != len(o.start_order) or set(o.start_order) != set(o.trials):
            raise Violation("C01", f"start_order {o.start_order} does not list each trial once (trials {sorted(o.trials)})")
        if len(set(o.end_order)) != len(o.end_order):
            raise Violation("C01", f"end_order lists a trial twice: {o.end_order}")
        if len(set(o._retry_queue)) != len(o._retry_queue):
            raise Violation("C01", f"retry queue lists a trial twice: {o._retry_queue}")
        for tid, t in o.trials.items():
            loc = (tid in ong.values()) + (tid in o._retry_queue) + (tid in o.end_order)
            if loc != 1:
                raise Violation("C01", f"trial {tid} ({t.status}) is in {loc} of ongoing/retry/end: ong={ong} rq={o._retry_queue} eo={o.end_order}")
            if t.status == "COMPLETED" and (t.score is None or t.score != t.score):
                raise Violation("C01", f"COMPLETED trial {tid} without a score ({t.score})")
            if tid in o.end_order and t.status not in ("COMPLETED", "FAILED"):
                raise Violation("C01", f"ended trial {tid} has status {t.status}")
        if o.max_trials:
            if len(o.trials) > o.max_trials:
                raise Violation("C02", f"{len(o.trials)} trials > max_trials {o.max_trials}")
            if o.remaining_trials() != o.max_trials - len(o.trials):
                raise Violation("C02", f"remaining_trials {o.remaining_trials()} != {o.max_trials} - {len(o.trials)}")

    def invariants_after_end(self, o, tid):
        """C01 clause 'once ended it is recorded as COMPLETED, FAILED or queued for retry - never lost'"""
        t = o.trials[tid]
        queued = tid in o._retry_queue
        ended = tid in o.end_order
        if queued == ended:
            raise Violation("C01", f"ended trial {tid} is in {'both' if queued else 'neither'} the retry queue and the end order", {"tag": "lost"})
        if ended and t.status not in ("COMPLETED", "FAILED"):
            raise Violation("C01", f"ended trial {tid} is recorded with status {t.status} (neither COMPLETED, FAILED nor queued for retry)", {"tag": "lost"})
        if t.status == "COMPLETED" and (t.score is None or t.score != t.score):
            raise Violation("C01", f"COMPLETED trial {tid} without a score", {"tag": "no-score"})

    def exit_rule(self, o, w, t):
        """C16, last clause: the chief may regard the search as finished (no trial running, no client left) only when
        every worker that ever asked has been told STOPPED"""
        self.asked = getattr(self, "asked", set())
        self.told = getattr(self, "told", set())
        self.asked.add(w)
        if t.status == "STOPPED":
            self.told.add(w)
        else:
            self.told.discard(w)
        missing = (self.asked - self.told) - set(o.tuner_ids)
        if missing:
            raise Violation("C16", f"worker(s) {sorted(missing)} asked for trials and were never told STOPPED, but the oracle's client set is "
                                   f"{sorted(o.tuner_ids)}: once nothing is running the chief would exit under them", {"tag": "exit-chief"})

    def on_create(self, o, w, t, held_before, rq_before, n_before):
        if held_before is not None:
            if t.trial_id != held_before:
                raise Violation("C01", f"tuner {w} holding {held_before} asked again and got {t.trial_id}")
            return
        if t.status == "RUNNING":
            if t.trial_id in self.ended_final:
                raise Violation("C01", f"trial {t.trial_id} handed out again after it ended COMPLETED/FAILED")
            if t.trial_id in self.out:
                raise Violation("C01", f"trial {t.trial_id} handed to {w} while {self.out[t.trial_id]} holds it")
            vals = canon_vals(t.hyperparameters.values)
            if rq_before:
                if t.trial_id != rq_before[-1] and t.trial_id not in rq_before:
                    raise Violation("C03", f"retry queue {rq_before} not served first: got {t.trial_id}")
                if t.trial_id in self.startvals and self.startvals[t.trial_id] != vals:
                    raise Violation("C03", f"retry of {t.trial_id} has other values {vals} != {self.startvals[t.trial_id]}")
                if len(o.trials) != n_before:
                    raise Violation("C02", "serving a retry created a new trial")
            else:
                if t.trial_id in self.startvals:
                    raise Violation("C01", f"new trial reuses id {t.trial_id}")
                if o.max_trials and n_before >= o.max_trials:
                    raise Violation("C02", f"new trial {t.trial_id} started with {n_before} >= max_trials")
            self.startvals.setdefault(t.trial_id, vals)
            self.out[t.trial_id] = w
            if t.trial_id in self.keep_reports:
                self.keep_reports.discard(t.trial_id)
            else:
                self.last_run_vals[t.trial_id] = {}
        elif t.status == "IDLE":
            if not (set(self.out.values()) - {w}) and not o.ongoing_trials:
                raise Violation("C11", f"IDLE answered to {w} while no trial is running anywhere")
        elif t.status == "STOPPED":
            if rq_before:
                v = Violation("C02", f"STOPPED although retries {rq_before} are pending")
                # the same answer also breaks the retry policy: the queued trial is not issued again, it stays INVALID for good
                v.also = [Violation("C03", f"trial(s) {rq_before} wait for their retry but the tuner is told STOPPED: an INVALID trial is never "
                                           f"issued again and never becomes COMPLETED or FAILED", {"tag": "retry-never-issued"})]
                raise v
        if o.max_trials and n_before >= o.max_trials and not rq_before and t.status != "STOPPED":
            raise Violation("C02", f"budget used up, no retry pending, but answer is {t.status}")

    def on_end(self, o, tid, oc, aborted):
        self.runs[tid] += 1
        self.out.pop(tid, None)
        sts = [o.trials[i].status for i in o.end_order]
        K = o.max_consecutive_failed_trials
        if aborted:
            if not has_streak(sts, K):
                raise Violation("C03", f"aborted without {K} consecutive FAILED: {sts}")
            return
        if has_streak(sts, K):
            raise Violation("C03", f"{K} consecutive FAILED in {sts} but no abort")
        st = o.trials[tid].status
        R1 = o.max_retries_per_trial + 1
        nan_obj = False
        if oc == "COMPLETED":
            best = self.expected_score(o, tid)
            nan_obj = best != best
        if oc == "INVALID" or nan_obj:
            also = []
            if nan_obj and st == "COMPLETED":
                # C04: a trial whose objective is NaN never counts as completed (score = best over the steps of the per-step mean)
                also = [Violation("C04", f"trial {tid} reported {self.last_run_vals.get(tid)} per step: every per-step mean of the objective is NaN, yet it is COMPLETED "
                                         f"with score {o.trials[tid].score}", {"tag": "nan-objective-completed"})]
            if self.runs[tid] < R1:
                if st != "INVALID" or tid not in o._retry_queue or tid in o.end_order:
                    v = Violation("C03", f"INVALID run {self.runs[tid]}/{R1} of {tid} not queued for retry (status {st}, rq {o._retry_queue})")
                    v.also = also
                    raise v
            elif st != "FAILED" or tid not in o.end_order:
                v = Violation("C03", f"trial {tid} run {self.runs[tid]} times (limit {R1}) should be FAILED, is {st}")
                v.also = also
                raise v
        elif oc == "FAILED":
            if st != "FAILED" or tid in o._retry_queue or tid not in o.end_order:
                raise Violation("C03", f"FAILED trial {tid} not final: {st} rq={o._retry_queue}")
        else:
            sc = o.trials[tid].score
            if st != "COMPLETED" or tid not in o.end_order:
                raise Violation("C03", f"normally finished run of {tid} gives status {st}", {"tag": "retry-not-completed"})
            if sc != best:
                v = Violation("C03", f"trial {tid} COMPLETED with score {sc}, this run's score is {best}", {"tag": "score-not-this-run"})
                v.also = [Violation("C04", f"trial {tid} reported {self.last_run_vals.get(tid)} per step ({o.objective.direction}): its score {sc} is not the best of the "
                                           f"per-step means {best}", {"tag": "score-not-best-step-mean"})]
                raise v
        if st in ("COMPLETED", "FAILED"):
            self.ended_final.add(tid)

    def expected_score(self, o, tid):
        """best over steps of the per-step mean of what THIS run reported (numpy semantics)."""
        import numpy as np
        per = self.last_run_vals.get(tid, {})
        if not per:
            return float("nan")
        means = [float(np.mean(v)) for v in per.values()]
        with np.errstate(all="ignore"):
            import warnings
            with warnings.catch_warnings():
                warnings.simplefilter("ignore")
                return float(np.nanmin(means) if o.objective.direction == "min" else np.nanmax(means))

    def check_best(self, o, n, got):
        comp = [t for t in o.trials.values() if t.status == "COMPLETED"]
        rest = [t for t in o.trials.values() if t.status != "COMPLETED"]
        if len(got) != min(n, len(comp) + (len(rest) if len(comp) < n else 0)):
            raise Violation("C04", f"get_best_trials({n}) returned {len(got)} of {len(comp)} completed / {len(rest)} other")
        k = 0
        while k < len(got) and got[k].status == "COMPLETED":
            k += 1
        if any(t.status == "COMPLETED" for t in got[k:]):
            raise Violation("C04", "a non-COMPLETED trial is placed ahead of a COMPLETED one")
        sign = 1 if o.objective.direction == "min" else -1
        sc = [sign * t.score for t in got[:k]]
        if any(a > b for a, b in zip(sc, sc[1:])):
            raise Violation("C04", f"best trials not ordered by score: {[t.score for t in got[:k]]} ({o.objective.direction})")
        if k < len(comp) and k > 0:
            worst_in = max(sc)
            outside = [sign * t.score for t in comp if t not in got[:k]]
            if outside and min(outside) < worst_in:
                raise Violation("C04", "a completed trial outside the answer beats one inside")
        if k < min(n, len(comp)):
            raise Violation("C04", f"only {k} completed trials returned, {len(comp)} exist, n={n}")
        hp = [t.hyperparameters.values for t in got]
        return hp


def scenario(sseed, kind, mode, res, crash_at=None, second=None, maxlen=60):
    """Run one scenario on the implementation, return (lines, expect, doc).
    crash_at = k: the process dies just before the (k+1)-th file write of the whole scenario (then a
    fresh oracle reloads and the schedule goes on); second = k2: it dies again k2 writes later."""
    kt = impl()
    R = random.Random(sseed)
    doc = {"suite": "oracle", "kind": kind, "mode": mode, "seed": sseed, "crash_at": crash_at, "second": second, "maxlen": maxlen}
    lines, expect = [], []
    gate = WriteGate()
    tags = collections.Counter()
    with tempdir("kto") as d, tempdir("kto2") as d2:
        specs = gen.rand_specs(R, finite=(kind == "grid"), nonfixed=(kind == "bayes"))
        # growth: tuners of random / Hyperband searches may report entries their build function declared (grid: known
        # findings F5, Bayes: scikit-learn rejects a grown space - both outside this suite); tuned or not tuned
        grows = kind in ("random", "hyperband") and R.random() < 0.5
        tune_new = (R.random() < 0.6) if grows else True
        o = gen.make_oracle(R, kind, specs, d, **({"tune_new_entries": False, "allow_new_entries": True} if not tune_new else {}))
        hmap = {}
        ndecl = [0]

        def hkey(oracle, values):
            """canonical text of what `_compute_values_hash` hashes (Hyperband leaves the tuner/* entries out)"""
            vs = {k: v for k, v in values.items() if not (kind == "hyperband" and k in ("tuner/epochs", "tuner/initial_epoch", "tuner/bracket", "tuner/round"))}
            hk = canon_vals(vs)
            hmap[oracle._compute_values_hash(dict(values))] = hk
            return hk

        def tried_str(oracle):
            return "tried " + ";".join(sorted({hmap.get(h, "?" + h) for h in oracle._tried_so_far}))
        doc["config"] = dict(max_trials=o.max_trials, max_retries=o.max_retries_per_trial,
                             max_consec=o.max_consecutive_failed_trials, direction=o.objective.direction, nspace=len(specs))
        width = len(str(o.max_trials))
        lines.append(dict(suite="oracle", op="init", max_trials=o.max_trials, max_retries=o.max_retries_per_trial,
                          max_consec=o.max_consecutive_failed_trials, minimize=o.objective.direction == "min", width=width,
                          tune_new=tune_new))
        expect.append("ok")
        mon = Monitors(o)
        hold = {}
        tun = [f"w{i}" for i in range(R.randint(1, 4))]
        twin = None                      # C07: (uninterrupted oracle, requeued by hand)
        L = R.randint(5, maxlen)
        special_at = R.randint(2, max(2, L - 2)) if mode != "plain" else -1
        crash_armed = False
        maxpar = 0
        gate.install()
        if crash_at is not None:
            gate.budget = crash_at
            crash_armed = True
            lines.append(dict(suite="oracle", op="budget", k=crash_at))
            expect.append("ok")
        try:
            popbox = {}

            def wrap_pop(oracle):
                real = oracle.populate_space

                def ps(trial_id):
                    r = real(trial_id)
                    popbox["last"] = r
                    return r
                oracle.populate_space = ps

            wrap_pop(o)

            def pop_doc():
                r = popbox.get("last")
                if r is None:
                    return dict(status="STOPPED")
                if r["status"] == "RUNNING":
                    return dict(status="RUNNING", values=canon_vals(r["values"] or {}), hkey=hkey(o, r["values"] or {}))
                return dict(status=r["status"])

            def do_reload(after_crash):
                nonlocal o, twin, hold
                disk_end = []
                ofile = os.path.join(d, "p", "oracle.json")
                if os.path.exists(ofile):
                    disk_end = json.load(open(ofile))["end_order"]
                before = {tid: (t.status, t.score) for tid, t in o.trials.items()}
                exp_rq = list(o._retry_queue) + [t.trial_id for t in o.ongoing_trials.values()]
                queued_ongoing = {t.trial_id for t in o.ongoing_trials.values()}
                old_rq = list(o._retry_queue)
                queued_before = set(exp_rq)
                n2 = gen.clone_oracle(o, d)
                try:
                    quiet(n2.reload)
                except Exception as e:  # no oracle.json yet, ...
                    lines.append(dict(suite="oracle", op="reload"))
                    expect.append("reload-error")
                    tags["reload-error"] += 1
                    return False
                if not after_crash and kind != "bayes":
                    # C07 twin: the uninterrupted oracle with its running trials queued again
                    shutil.rmtree(d2, ignore_errors=True)
                    shutil.copytree(d, d2)
                    o._set_project_dir(d2, "p")
                    for t in o.ongoing_trials.values():
                        o._retry_queue.append(t.trial_id)
                    o.ongoing_trials = {}
                    twin = o
                old = o
                o = n2
                # the trial table of a reloaded oracle is in creation order, like that of a process that never stopped (until the
                # repair of F25 it was in directory-listing order: ties of get_best_trials and the rows the Bayesian model is
                # fitted on follow the order of this table)
                if list(o.trials) != [tid for tid in o.start_order if tid in o.trials]:
                    what = (f"after reload the oracle holds its trials in the order {list(o.trials)}, a process that never stopped has them in creation order "
                            f"{o.start_order}: whatever iterates over the table (ties among the best trials, the rows the Bayesian model is fitted on) depends on the directory listing")
                    v = Violation("C08" if after_crash else "C07", what, {"tag": "trial-table-order"})
                    v.also = [Violation("C12", what, {"tag": "trial-table-order"})]
                    raise v
                wrap_pop(o)
                lines.append(dict(suite="oracle", op="reload"))
                expect.append("reloaded | " + state_str(o))
                tags["crash-reload" if after_crash else "reload"] += 1
                # monitors C07 / C08
                pid = "C08" if after_crash else "C07"
                for tid in disk_end:
                    t = o.trials.get(tid)
                    if t is None or (t.status, fl_str(t.score)) != (before[tid][0], fl_str(before[tid][1])):
                        what = f"trial {tid} in the saved end_order changed: {before[tid]} -> {(t.status, t.score) if t else None}"
                        v = Violation(pid, what)
                        if not after_crash:
                            # the same fact for the lifecycle (C01: once ended, recorded as COMPLETED or FAILED) and the retry policy (C03: FAILED is final)
                            v.also = [Violation("C01", "after save + reload, " + what + ": an ended trial is no longer recorded as it ended", {"tag": "ended-changed-by-reload"})]
                            if before[tid][0] == "FAILED":
                                v.also.append(Violation("C03", "after save + reload, " + what + ": FAILED is final (the streak of consecutive failures is counted over it)",
                                                        {"tag": "failed-not-final-after-reload"}))
                        raise v
                    if tid in o._retry_queue or tid in [x.trial_id for x in o.ongoing_trials.values()]:
                        raise Violation(pid, f"ended trial {tid} is queued/ongoing after reload")
                for tid, t in o.trials.items():
                    if t.status == "RUNNING" and tid not in o._retry_queue:
                        raise Violation(pid, f"trial {tid} RUNNING after reload but not queued to run again")
                    # a trial that was started but is not in the end order has not finished: it must be waiting to be run
                    # again, whatever its file says (INVALID while waiting for a retry, RUNNING, ...) - otherwise it is
                    # never issued again, never ends, and still uses up one unit of the budget
                    if tid not in o.end_order and tid not in o._retry_queue:
                        what = (f"after reload trial {tid} ({t.status}) is neither ended nor queued to be run again: it is lost "
                                f"(retry queue {o._retry_queue}, end order {o.end_order})")
                        v = Violation(pid, what, {"tag": "unfinished-not-queued"})
                        if not after_crash:
                            # C01: once ended a trial is COMPLETED, FAILED or queued for retry - never lost (a save and a reload do not end a search)
                            v.also = [Violation("C01", what, {"tag": "lost-by-reload"})]
                            if tid in old_rq:
                                v.also.append(Violation("C03", f"trial {tid} had ended INVALID and was waiting for its retry; " + what + ": it is never issued again", {"tag": "retry-lost-by-reload"}))
                        raise v
                if set(o.start_order) != set(o.trials) or len(set(o.start_order)) != len(o.start_order):
                    raise Violation(pid, f"after reload trials {sorted(o.trials)} vs start_order {o.start_order}")
                if o.max_trials and len(o.trials) > o.max_trials:
                    raise Violation("C02", "budget exceeded after reload")
                if not after_crash:
                    for tid, t in old.trials.items():
                        t2 = o.trials.get(tid)
                        if t2 is None:
                            raise Violation("C07", f"trial {tid} lost by save/reload")
                        if canon_vals(t2.hyperparameters.values) != canon_vals(t.hyperparameters.values):
                            raise Violation("C07", f"trial {tid} values changed by save/reload")
                        m1, m2 = metrics_doc(t), metrics_doc(t2)
                        if m1 != m2:
                            raise Violation("C07", f"trial {tid}: metrics (histories / directions) changed by save/reload: {m1} -> {m2}", {"tag": "metrics-reload"})
                        if tid not in queued_before and (t2.status, fl_str(t2.score)) != (t.status, fl_str(t.score)):
                            raise Violation("C07", f"trial {tid} status/score changed by save/reload: {(t.status, t.score)} -> {(t2.status, t2.score)}")
                    if (o.start_order, o.end_order, o._retry_queue, dict(o._run_times)) != (old.start_order, old.end_order, exp_rq, dict(old._run_times)):
                        raise Violation("C07", "start/end order or retry bookkeeping changed by save/reload")
                    if o._seed_state != old._seed_state or o._tried_so_far != old._tried_so_far:
                        raise Violation("C07", "seed state / tried set changed by save/reload")
                hold = {}
                mon.reset_process(o, waiting=() if after_crash else set(old_rq))
                return True

            stopped = set()
            i = 0
            while i < L:
                i += 1
                if len(stopped) == len(tun) and not hold:
                    break
                if i == special_at and mode == "reload":
                    quiet(o.save)
                    lines.append(dict(suite="oracle", op="save"))
                    expect.append("ok")
                    if not do_reload(False):
                        break
                    continue
                if i == special_at and mode == "crash" and not crash_armed:
                    k = R.randint(0, 3)
                    gate.budget = k
                    crash_armed = True
                    lines.append(dict(suite="oracle", op="budget", k=k))
                    expect.append("ok")
                if R.random() < 0.06:
                    n = R.randint(1, len(o.trials) + 2)
                    got = o.get_best_trials(n)
                    mon.check_best(o, n, got)
                    lines.append(dict(suite="oracle", op="best", n=n))
                    expect.append("best " + ",".join(t.trial_id for t in got))
                    tags["best"] += 1
                    if len([t for t in o.trials.values() if t.status == "COMPLETED"]) < n:
                        tags["best-padding"] += 1
                    lines.append(dict(suite="oracle", op="remaining"))
                    expect.append(f"remaining {o.remaining_trials() if o.max_trials else 'none'}")
                    continue
                w = R.choice(tun)
                try:
                    if w in hold and R.random() < 0.2:
                        # an intermediate report: the trial stays in flight with metrics on record (what a save / crash finds)
                        t = hold[w]
                        val = float(R.choice([0, 1, 2, -1, 3, 0.5, 2.5]))
                        step = R.choice([0, 0, 1, 2])
                        lines.append(dict(suite="oracle", op="update", id=int(t.trial_id), step=step, value=fl(val)))
                        quiet(o.update_trial, t.trial_id, {"score": val}, step=step)
                        expect.append("ok")
                        mon.last_run_vals.setdefault(t.trial_id, {}).setdefault(step, []).append(val)
                        if twin is not None:
                            quiet(twin.update_trial, t.trial_id, {"score": val}, step=step)
                        tags["report-in-flight"] += 1
                    elif w in hold and R.random() < 0.7:
                        t = hold.pop(w)
                        oc = R.choice(["C", "C", "C", "NAN", "INV", "FAIL"])
                        if oc in ("C", "NAN"):
                            nrep = 1 if oc == "NAN" else R.choice([1, 1, 2, 3])
                            # several executions may report at the same step, and one of them may have diverged (NaN): that step's
                            # mean is NaN (it is ignored for the best value unless every step is NaN)
                            mixed = oc == "C" and nrep >= 2 and R.random() < 0.3
                            same_step = R.choice([0, 1]) if mixed else None
                            for j_ in range(nrep):
                                val = float("nan") if oc == "NAN" or (mixed and j_ == 0) else float(R.choice([0, 1, 2, -1, 3, 0.5, 2.5, float("inf"), float("-inf")]))
                                step = R.choice([0, 0, 1, 2]) if (same_step is None or (j_ >= 2 and R.random() < 0.5)) else same_step
                                if mixed and j_ == 0:
                                    tags["nan-among-executions-of-a-step"] += 1
                                lines.append(dict(suite="oracle", op="update", id=int(t.trial_id), step=step, value=fl(val)))
                                expect.append("ok")
                                quiet(o.update_trial, t.trial_id, {"score": val}, step=step)
                                mon.last_run_vals.setdefault(t.trial_id, {}).setdefault(step, []).append(val)
                                if twin is not None:
                                    quiet(twin.update_trial, t.trial_id, {"score": val}, step=step)
                            t.status = "COMPLETED"
                        else:
                            t.status = {"INV": "INVALID", "FAIL": "FAILED"}[oc]
                        st_req = t.status
                        tags["end-" + oc] += 1
                        aborted = False
                        t_arg = t
                        declare = None
                        if grows and R.random() < 0.4 and ndecl[0] < 4:
                            ndecl[0] += 1
                            nm = f"n{ndecl[0]}"
                            cond_on = R.choice([None] + [p_ for p_ in t.hyperparameters.space if p_.name in t.hyperparameters.values and not p_.conditions and not p_.name.startswith("tuner/")])

                            def declare(hp_, nm=nm, cond_on=cond_on):
                                if cond_on is None:
                                    hp_.Boolean(nm)
                                else:
                                    hp_.Int(nm, 0, 3, parent_name=cond_on.name, parent_values=[hp_.values[cond_on.name]])
                            tags["reported-new-entry"] += 1
                        if R.random() < 0.5:
                            # what a remote worker (or any caller that rebuilt the trial from its state) hands back: a copy,
                            # not the oracle's own object - every decision must be taken on, and recorded in, the stored trial
                            from keras_tuner.engine import trial as trial_module
                            t_arg = trial_module.Trial(hyperparameters=t.hyperparameters.copy(), trial_id=t.trial_id, status=st_req)
                            t_arg.message = t.message
                            tags["end-with-copy"] += 1
                        if declare:
                            declare(t_arg.hyperparameters)
                            # the retry, if any, carries the values as reported (the started ones plus the declared entry)
                            mon.startvals[t.trial_id] = canon_vals(t_arg.hyperparameters.values)
                        # the values the tuner reports: the stored trial takes them, `_record_values` hashes them again
                        lines.append(dict(suite="oracle", op="end", id=int(t.trial_id), status=st_req,
                                          values=canon_vals(t_arg.hyperparameters.values), hkey=hkey(o, t_arg.hyperparameters.values)))
                        try:
                            quiet(o.end_trial, t_arg)
                            res_s = "ok"
                        except RuntimeError as e:
                            if "consecutive" not in str(e):
                                raise
                            aborted = True
                            res_s = "ABORT"
                        if twin is not None:
                            t2 = twin.trials[t.trial_id]
                            from keras_tuner.engine import trial as trial_module
                            t2c = trial_module.Trial(hyperparameters=t2.hyperparameters.copy(), trial_id=t2.trial_id, status=st_req)
                            if declare:
                                declare(t2c.hyperparameters)
                            try:
                                quiet(twin.end_trial, t2c)
                            except RuntimeError:
                                pass
                        found = []
                        for chk in ((lambda: mon.on_end(o, t.trial_id, st_req, aborted)), (lambda: None if aborted else mon.invariants_after_end(o, t.trial_id))):
                            try:
                                chk()
                            except Violation as v:
                                found.append(v)
                        if found:
                            flat = []
                            for v_ in found:
                                flat.append(v_)
                                flat += list(getattr(v_, "also", []))
                            flat[0].also = flat[1:]
                            raise flat[0]
                        if aborted:
                            expect.append("ABORT")
                            tags["abort"] += 1
                            # the other tuners still hold trials: the finished trials go on containing the streak, so every
                            # further end that records a final outcome must be refused with the same error (monitor only:
                            # the model treats the abort as terminal)
                            for w2 in (sorted(hold) if gate.budget is None else []):     # not while a crash is armed: the model ends here
                                t2 = hold[w2]
                                oc2 = R.choice(["C", "FAIL", "INV"])
                                if oc2 == "C":
                                    quiet(o.update_trial, t2.trial_id, {"score": 1.0}, step=0)
                                t2.status = {"C": "COMPLETED", "FAIL": "FAILED", "INV": "INVALID"}[oc2]
                                n_end = len(o.end_order)
                                try:
                                    quiet(o.end_trial, worker_copy(R, t2))
                                    raised = False
                                except RuntimeError as e:
                                    if "consecutive" not in str(e):
                                        raise
                                    raised = True
                                tags["end-after-abort"] += 1
                                if len(o.end_order) > n_end and not raised:
                                    sts2 = [o.trials[i_].status for i_ in o.end_order]
                                    raise Violation("C03", f"the finished trials {sts2} contain {o.max_consecutive_failed_trials} consecutive FAILED, yet tuner {w2} "
                                                           f"ended trial {t2.trial_id} without the search being aborted", {"tag": "no-abort-after-streak"})
                            hold.clear()
                            break
                        tr = o.trials[t.trial_id]
                        if tr.status == "INVALID":
                            tags["requeued"] += 1
                        if tr.status == "FAILED" and st_req != "FAILED":
                            tags["failed-at-limit"] += 1
                        sc = "-" if st_req != "COMPLETED" else fl_str(tr.score)
                        expect.append(f"ok score={sc} | {state_str(o)}")
                        lines.append(dict(suite="oracle", op="vals", id=int(t.trial_id)))
                        expect.append("vals " + canon_vals(tr.hyperparameters.values))
                        lines.append(dict(suite="oracle", op="tried"))
                        expect.append(tried_str(o))
                        mon.invariants(o)
                    else:
                        held = hold[w].trial_id if w in hold else None
                        rq_before = list(o._retry_queue)
                        n_before = len(o.trials)
                        popbox.pop("last", None)
                        ln = dict(suite="oracle", op="create", tuner=w, pop=None)
                        lines.append(ln)
                        t = quiet(o.create_trial, w)
                        if t.status == "RUNNING" and held is None and not rq_before:
                            ln["pop"] = dict(status="RUNNING", values=canon_vals(t.hyperparameters.values), hkey=hkey(o, t.hyperparameters.values))
                        else:
                            ln["pop"] = pop_doc()
                        if t.status == "RUNNING":
                            expect.append(f"RUNNING {t.trial_id} {canon_vals(t.hyperparameters.values)} | {state_str(o)}")
                            hold[w] = t
                            if held is None and rq_before:
                                tags["retry-served"] += 1
                        else:
                            expect.append(f"{t.status} | {state_str(o)}")
                            tags["answer-" + t.status] += 1
                            if t.status == "STOPPED":
                                stopped.add(w)
                        lines.append(dict(suite="oracle", op="tried"))
                        expect.append(tried_str(o))
                        mon.exit_rule(o, w, t)
                        mon.on_create(o, w, t, held, rq_before, n_before)
                        mon.invariants(o)
                        maxpar = max(maxpar, len(o.ongoing_trials))
                        if twin is not None:
                            t2 = quiet(twin.create_trial, w)
                            a = (t.trial_id, t.status, canon_vals(t.hyperparameters.values)) if t.status == "RUNNING" else (t.status,)
                            b = (t2.trial_id, t2.status, canon_vals(t2.hyperparameters.values)) if t2.status == "RUNNING" else (t2.status,)
                            tags["twin-compared"] += 1
                            if a != b:
                                raise Violation("C07", f"after reload the oracle issues {a}, the uninterrupted oracle {b}", {"kind": kind})
                except Crash:
                    # the process died inside this operation: the line is sent, its answer is not compared
                    if len(expect) < len(lines):
                        ln = lines[-1]
                        if ln.get("op") == "create" and ln.get("pop") is None:
                            ln["pop"] = pop_doc()
                        expect.append(None)
                    gate.budget = None
                    tags["crash"] += 1
                    if not do_reload(True):
                        break
                    if second is not None:
                        gate.budget = second
                        lines.append(dict(suite="oracle", op="budget", k=second))
                        expect.append("ok")
                        second = None
                        tags["second-crash-armed"] += 1
            if maxpar >= 2:
                tags["parallel"] += 1
        except Violation as v:
            # the scenario ends here, but what was exchanged up to this point is still compared with the model: a change
            # that makes one monitor fire usually makes the implementation and the model disagree as well, and that
            # disagreement concerns every property served by this suite, not only the monitor's own
            n_ok = len(expect)
            v.partial = (lines[:n_ok], list(expect), dict(doc))
            raise
        finally:
            gate.remove()
    doc["tags"] = dict(tags)
    doc["writes"] = gate.count
    return lines, expect, doc, tags


def guarded(sseed, kind, mode, res, **kw):
    """an exception escaping an oracle call (other than the documented abort) is itself a failure of the
    property the scenario exercises: the trial in hand is lost / the project is not resumable"""
    import traceback
    try:
        return scenario(sseed, kind, mode, res, **kw)
    except Violation:
        raise
    except Exception as e:
        tb = traceback.extract_tb(e.__traceback__)
        where = next((f"{os.path.basename(f.filename)}:{f.name}" for f in reversed(tb) if "keras_tuner" in f.filename), "?")
        pid = {"plain": "C01", "reload": "C07", "crash": "C08"}[mode] if kw.get("crash_at") is None else "C08"
        raise Violation(pid, f"{type(e).__name__}: {str(e)[:120]} raised in {where} ({mode} scenario, {kind})",
                        {"exception": type(e).__name__, "where": where, "kind": kind})


def run_crash_all(seed, tier, n=None, kinds=KINDS):
    """C08: for each scenario, EVERY crash point k (just before the (k+1)-th file write of the scenario),
    restart, compare the reloaded state with the model, continue the schedule; thorough adds a second crash."""
    res = Result("oracle-crash")
    res.rule = ("short random schedules (5-14 requests, 1-3 tuners) on the four oracle kinds; for each scenario every crash "
                "index k over all its file writes is enumerated (process dies before write k+1, fresh oracle reloads, schedule "
                "continues); thorough: a second crash k2 writes after the restart; each (scenario, k) is a distinct non-trivial case")
    n = n or (36 if tier == "quick" else 400)
    R = random.Random(seed ^ 0xC08)
    all_lines, spans = [], []
    for i in range(n):
        kind = kinds[i % len(kinds)]
        sseed = R.randrange(1 << 30)
        try:
            _, _, doc0, _ = guarded(sseed, kind, "plain", res, maxlen=14)
        except Violation as v:
            res.violations.append({"pid": v.pid, "what": v.what, "sig": v.sig,
                                   "replay": {"suite": "oracle", "kind": kind, "mode": "plain", "seed": sseed, "maxlen": 14}})
            continue
        W = doc0["writes"]
        res.hist["writes-per-scenario"] += W
        for k in range(W + 1):
            # a second crash soon after the restart (thorough: after every first crash; quick: after every third)
            second = R.randint(0, 4) if (tier == "thorough" or k % 3 == 1) else None
            rdoc = {"suite": "oracle", "kind": kind, "mode": "plain", "seed": sseed, "crash_at": k, "second": second, "maxlen": 14}
            try:
                lines, expect, doc, tags = guarded(sseed, kind, "plain", res, crash_at=k, second=second, maxlen=14)
            except Violation as v:
                res.violations.append({"pid": v.pid, "what": v.what, "sig": v.sig, "replay": rdoc})
                res.scenarios += 1
                continue
            res.scenarios += 1
            res.hist.update(tags)
            spans.append((len(all_lines), lines, expect, rdoc))
            all_lines += lines
            if tags.get("crash-reload"):
                res.nontrivial.add((sseed, k, second))
            if len(res.samples) < 2 and tags.get("crash-reload") and k > 2:
                res.samples.append({"scenario": doc, "ops": lines[:10], "impl_answers": expect[:10]})
    try:
        out = run_driver(all_lines)
    except Exception as e:
        res.errors.append(f"model driver unavailable: {e}")
        return res
    for start, lines, expect, doc in spans:
        compare(res, lines, expect, out[start:start + len(lines)], doc)
    res.nontrivial = {hashlib.sha1(repr(x).encode()).hexdigest() for x in res.nontrivial}
    return res


def run(seed, tier, n=None, kinds=KINDS, modes=("plain", "plain", "reload", "crash")):
    res = Result("oracle")
    res.rule = ("random schedules (1-4 tuners, 5-60 requests) over random spaces on the four oracle kinds; outcomes "
                "COMPLETED(score incl. +-inf, several steps/executions) / NaN / INVALID / FAILED; optional save+reload or "
                "crash after k file writes + reload; non-trivial = scenario with a retry, a failure, >=2 trials in parallel, "
                "a reload or a crash; distinct by hash of the operation lines")
    n = n or (200 if tier == "quick" else 3000)
    R = random.Random(seed)
    all_lines, spans = [], []
    for i in range(n):
        kind = kinds[i % len(kinds)]
        mode = modes[(i // len(kinds)) % len(modes)]
        sseed = R.randrange(1 << 30)
        try:
            lines, expect, doc, tags = guarded(sseed, kind, mode, res)
        except Violation as v:
            for vv in [v] + list(getattr(v, "also", [])):
                res.violations.append({"pid": vv.pid, "what": vv.what, "sig": vv.sig,
                                       "replay": {"suite": "oracle", "kind": kind, "mode": mode, "seed": sseed}})
            res.scenarios += 1
            if getattr(v, "partial", None):
                pl, pe, pd = v.partial
                spans.append((len(all_lines), pl, pe, pd))
                all_lines += pl
            continue
        res.scenarios += 1
        res.hist.update(tags)
        res.hist["kind-" + kind] += 1
        spans.append((len(all_lines), lines, expect, doc))
        all_lines += lines
        nontriv = any(tags.get(k) for k in ("requeued", "failed-at-limit", "end-FAIL", "parallel", "reload", "crash-reload"))
        if nontriv:
            res.nontrivial.add(hashlib.sha1(json.dumps(lines, sort_keys=True).encode()).hexdigest())
        if len(res.samples) < 2 and nontriv:
            res.samples.append({"scenario": doc, "first_ops": lines[:6], "impl_answers": expect[:6]})
    try:
        out = run_driver(all_lines)
    except Exception as e:
        res.errors.append(f"model driver unavailable: {e}")
        return res
    for start, lines, expect, doc in spans:
        compare(res, lines, expect, out[start:start + len(lines)], doc)
    return res


def replay(doc):
    res = Result("oracle")
    try:
        lines, expect, d, tags = guarded(doc["seed"], doc["kind"], doc["mode"], res, **{k: doc[k] for k in ("crash_at", "second", "maxlen") if k in doc and doc[k] is not None})
    except Violation as v:
        res.violations.append({"pid": v.pid, "what": v.what, "sig": v.sig, "replay": doc})
        return res
    out = run_driver(lines)
    compare(res, lines, expect, out, d)
    return res
