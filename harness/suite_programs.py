"""Suite `programs` (C13): generated build functions — declaration trees of all five kinds under name scopes
and conditional scopes nested to depth >= 3, children declared eagerly or only when the parent's value matches,
the same name under different conditions, reads by name — interpreted both against the real HyperParameters /
BaseTuner (the tree is turned into a build function) and by the Lean model (Space.run, Space.populateInitial,
Space.updateSpace). Compared: per-declaration return values and errors, final values, space order,
active / inactive scopes; the oracle's space after discovery; the effect of the two new-entry flags. Monitors
evaluate the C13 statement directly (lookup rules, distinct errors, discovery complete, parents first)."""
import collections
import contextlib
import hashlib
import json
import random

from harness.common import Result, Violation, compare, impl, kind_of, quiet, run_driver, tempdir


class Codes:
    """python values <-> integer codes (the model's values are integers; equality must be type-aware)"""

    def __init__(self):
        self.t = {}

    def code(self, v):
        k = (kind_of(v), v)
        if k not in self.t:
            self.t[k] = len(self.t) + 1
        return self.t[k]


def decl_spec(R, name):
    k = R.choice(["int", "float", "choice", "bool", "fixed", "choice", "bool"])
    if k == "int":
        lo = R.randint(0, 3)
        return dict(kind="int", name=name, lo=lo, hi=lo + R.randint(1, 3), default=None)
    if k == "float":
        return dict(kind="float", name=name, lo=0.5, hi=2.0, step=0.5, default=R.choice([None, 1.0]))
    if k == "choice":
        vals = R.choice([["a", "b", "c"], [1, 2, 3], ["x", "y"], [0.5, 1.5]])   # no bool choices: Choice retypes them to ints
        return dict(kind="choice", name=name, values=vals, default=R.choice([None, vals[-1]]))
    if k == "bool":
        return dict(kind="bool", name=name, default=R.choice([True, False]))
    return dict(kind="fixed", name=name, value=R.choice([1, "s", True]))


def spec_values(s):
    if s["kind"] == "int":
        return list(range(s["lo"], s["hi"] + 1))
    if s["kind"] == "float":
        return [0.5, 1.0, 1.5, 2.0]
    if s["kind"] == "choice":
        return list(s["values"])
    if s["kind"] == "bool":
        return [True, False]
    return [s["value"]]


def spec_default(s):
    if s["kind"] == "int":
        return s["lo"] if s["default"] is None else s["default"]
    if s["kind"] == "float":
        return s["lo"] if s["default"] is None else s["default"]
    if s["kind"] == "choice":
        return s["values"][0] if s["default"] is None else s["default"]
    if s["kind"] == "bool":
        return s["default"]
    return s["value"]


def gen_block(R, depth, counter, samename_pool, maxdepth):
    """a list of statements; conditional scopes always refer to the declaration just before them"""
    out = []
    for _ in range(R.randint(1, 3)):
        r = R.random()
        if r < 0.12 and depth < maxdepth:
            out.append(["ns", f"s{counter[0]}", gen_block(R, depth + 1, counter, samename_pool, maxdepth)])
            counter[0] += 1
            continue
        if r < 0.2:
            out.append(["get", R.choice([f"h{R.randint(0, max(0, counter[0]))}", "zz", "units"])])
            continue
        name = f"h{counter[0]}"
        counter[0] += 1
        if samename_pool and R.random() < 0.5:
            name = "units"
        spec = decl_spec(R, name)
        out.append(["decl", spec])
        if name != "units" and depth < maxdepth and R.random() < 0.6:
            vals = spec_values(spec)
            nscopes = R.choice([1, 1, 2])
            parts = [R.sample(vals, R.randint(1, max(1, len(vals) - 1))) for _ in range(nscopes)]
            for sub in parts:
                body = gen_block(R, depth + 1, counter, samename_pool or (nscopes == 2 and R.random() < 0.5), maxdepth)
                out.append(["cond", spec["name"], sub, R.random() < 0.4, body])
    return out


def declare(hp, s):
    if s["kind"] == "int":
        return hp.Int(s["name"], s["lo"], s["hi"], default=s["default"])
    if s["kind"] == "float":
        return hp.Float(s["name"], s["lo"], s["hi"], step=s["step"], default=s["default"])
    if s["kind"] == "choice":
        return hp.Choice(s["name"], s["values"], default=s["default"])
    if s["kind"] == "bool":
        return hp.Boolean(s["name"], default=s["default"])
    return hp.Fixed(s["name"], s["value"])


class Abort(Exception):
    pass


def interp(hp, prog, events, last=None, scopes=(), skip_lazy=False):
    """run the program tree against a real HyperParameters object (`skip_lazy`: leave out every `if`-guarded body)"""
    for st in prog:
        if st[0] == "decl":
            try:
                v = declare(hp, st[1])
            except ValueError as e:
                events.append(("err", "sameAsParent" if "same" in str(e) else "ValueError", hp._get_name(st[1]["name"])))
                raise Abort()
            events.append(("ret", hp._get_name(st[1]["name"]), v))
            # the lookup rule of C13, decided on the implementation's own state: under a scope whose condition does
            # not hold (parent without a value, or with another value) a declaration returns None
            bad = [(pn, vs) for pn, vs in scopes if pn not in hp.values or hp.values[pn] not in vs]
            if bad and v is not None:
                raise Violation("C13", f"declaring {hp._get_name(st[1]['name'])} under conditional scope {bad[0][0]} in {list(bad[0][1])} returned {v!r} although "
                                       f"{bad[0][0]} = {hp.values.get(bad[0][0], '<no value>')!r}", {"tag": "inactive-returns-value"})
            if not bad and v is None:
                raise Violation("C13", f"declaring {hp._get_name(st[1]['name'])} returned None although every enclosing condition holds", {"tag": "active-returns-none"})
            last = v
        elif st[0] == "get":
            qn = hp._get_name(st[1])
            try:
                v = hp.get(st[1])
                events.append(("ret", qn, v))
            except ValueError:
                events.append(("err", "inactive", qn))
            except KeyError:
                events.append(("err", "unknown", qn))
        elif st[0] == "ns":
            with hp.name_scope(st[1]):
                interp(hp, st[2], events, None, scopes, skip_lazy)
        else:
            _, parent, vals, lazy, body = st
            try:
                cm = hp.conditional_scope(parent, list(vals))
                cm.__enter__()
            except ValueError:
                events.append(("err", "notDefined", hp._get_name(parent)))
                raise Abort()
            try:
                if (not lazy) or (last in vals and not skip_lazy):
                    interp(hp, body, events, None, tuple(scopes) + ((hp._get_name(parent), list(vals)),), skip_lazy)
            finally:
                cm.__exit__(None, None, None)
    return last


def to_model_prog(prog, C):
    out = []
    for st in prog:
        if st[0] == "decl":
            out.append(["decl", st[1]["name"], C.code(spec_default(st[1]))])
        elif st[0] == "get":
            out.append(["get", st[1]])
        elif st[0] == "ns":
            out.append(["ns", st[1], to_model_prog(st[2], C)])
        else:
            out.append(["cond", st[1], [C.code(v) for v in st[2]], bool(st[3]), to_model_prog(st[4], C)])
    return out


def hp_wire(p, C):
    return dict(name=p.name, conds=[[c.name, [C.code(v) for v in c.values]] for c in p.conditions], dflt=C.code(p.default))


def conds_str(conds, C):
    return "&".join(f"{c.name}in[{', '.join(str(C.code(v)) for v in c.values)}]" for c in conds)


def state_strs(hp, C):
    vals = ",".join(sorted(f"{k}={C.code(v)}" for k, v in hp.values.items()))
    space = ";".join(f"{p.name}[{conds_str(p.conditions, C)}]" for p in hp.space)
    act = ";".join(conds_str(cs, C) for cs in hp.active_scopes)
    ina = ";".join(conds_str(cs, C) for cs in hp.inactive_scopes)
    return vals, space, act, ina


def all_decls(prog, ns=(), conds=(), lazy_under=False, out=None):
    """every declaration of the tree with its qualified name and whether all enclosing scopes are eager"""
    out = [] if out is None else out
    for st in prog:
        if st[0] == "decl":
            out.append(("/".join(list(ns) + [st[1]["name"]]), tuple(conds), lazy_under))
        elif st[0] == "ns":
            all_decls(st[2], tuple(ns) + (st[1],), conds, lazy_under, out)
        elif st[0] == "cond":
            all_decls(st[4], ns, tuple(conds) + (("/".join(list(ns) + [st[1]]), tuple(map(str, st[2]))),), lazy_under or st[3], out)
    return out


def case_build(R, res, lines, expect, tags):
    kt = impl()
    C = Codes()
    prog = gen_block(R, 0, [0], False, R.choice([2, 3, 4]))
    if R.random() < 0.15:
        # malformed stream: the last top-level statement raises (child named like its parent / scope on an undeclared parent)
        if R.random() < 0.5:
            prog = prog + [["decl", dict(kind="bool", name="par", default=True)], ["cond", "par", [True], False, [["decl", dict(kind="bool", name="par", default=False)]]]]
        else:
            prog = prog + [["cond", "nope", [1], False, [["decl", dict(kind="bool", name="never", default=False)]]]]
        tags["malformed"] += 1
    # a first build on an empty container (discovery of the trial's own space)
    hp0 = kt.HyperParameters()
    ev0 = []
    aborted = False
    try:
        interp(hp0, prog, ev0)
    except Abort:
        aborted = True
        tags["aborted-build"] += 1
    mode = R.choice(["empty", "prepopulated", "known"])
    hp = kt.HyperParameters()
    if mode == "prepopulated":
        # unknown entries with values already populated (what a trial hands to the build function)
        for p in hp0.space:
            if R.random() < 0.6:
                hp.values[p.name] = R.choice(list(p.values)) if not hasattr(p, "value") else p.value
    elif mode == "known" and not aborted:
        hp = hp0.copy()
        for p in hp.space:
            if p.name in hp.values and R.random() < 0.7 and not hasattr(p, "value"):
                hp.values[p.name] = R.choice(list(p.values))
        hp.ensure_active_values()
    init_space = [hp_wire(p, C) for p in hp.space]
    init_vals = [[k, C.code(v)] for k, v in hp.values.items()]
    known_before = {(p.name, conds_str(p.conditions, C)) for p in hp.space}
    values_before = dict(hp.values)
    events = []
    try:
        interp(hp, prog, events)
    except Abort:
        tags["aborted-build"] += 1
    vals, space, act, ina = state_strs(hp, C)
    evs = ";".join((f"{e[1]}={C.code(e[2]) if e[2] is not None else 'None'}" if e[0] == "ret" else f"ERR:{e[1]}({e[2]})") for e in events)
    lines.append(dict(suite="programs", op="build", prog=to_model_prog(prog, C), space=init_space, values=init_vals))
    expect.append(f"events=[{evs}] values=[{vals}] space=[{space}] active=[{act}] inactive=[{ina}]")
    # parents before children in the resulting space
    seen = set()
    for p in hp.space:
        for c in p.conditions:
            if c.name not in seen:
                raise Violation("C13", f"entry {p.name} is registered before its parent {c.name}", {"tag": "parents-first"})
        seen.add(p.name)
    tags["build-" + mode] += 1
    return prog, any(st[0] == "cond" for st in prog)


def case_discover(R, res, lines, expect, tags):
    """BaseTuner construction: discovery of every declaration under nested conditional scopes, with the flags"""
    kt = impl()
    from keras_tuner.engine import base_tuner
    from harness.suite_sampling import install_shim
    C = Codes()
    prog = gen_block(R, 0, [0], False, R.choice([2, 3]))
    allow = R.random() < 0.8
    tune = R.random() < 0.8
    pre = kt.HyperParameters()
    predeclared = []
    if (not allow or not tune) or R.random() < 0.3:
        # the constructor requires a user-provided space when a flag is off: predeclare the first top-level entries
        for st in prog:
            if st[0] == "decl" and R.random() < 0.7:
                declare(pre, st[1])
                predeclared.append(st[1]["name"])
        if not pre.space:
            pre.Boolean("given")
    aborted = [False]

    def build(hp):
        try:
            interp(hp, prog, [])
        except Abort:
            aborted[0] = True
        return None

    class T(base_tuner.BaseTuner):
        def run_trial(self, trial, *a, **k):
            return 0.0
    from keras_tuner.tuners import randomsearch
    shim, undo = install_shim()
    err = None
    try:
        with tempdir("ktp") as d:
            o = randomsearch.RandomSearchOracle(objective=kt.Objective("score", "min"), max_trials=3, seed=1,
                                                hyperparameters=pre if pre.space else None, allow_new_entries=allow, tune_new_entries=tune)
            init_space = [hp_wire(p, C) for p in o.hyperparameters.space]
            init_vals = [[k, C.code(v)] for k, v in o.hyperparameters.values.items()]
            try:
                t = quiet(T, oracle=o, hypermodel=build, directory=d, project_name="p")
            except RuntimeError as e:
                if "allow_new_entries" not in str(e):
                    raise
                err = "notAllowed"
            fills = [C.code_of_fill(x) for x in []]
    finally:
        undo()
    if aborted[0]:
        tags["aborted-discovery"] += 1
        return None
    # the values ensure_active_values invented (unseeded draws), in order: the model consumes them as inputs
    # (they are values of entries, so recover them from the draws through the entries' prob_to_value is not
    # possible here; instead the harness records them by wrapping random_sample)
    return prog, o, init_space, init_vals, allow, tune, err, C


def run_discover(R, res, lines, expect, tags):
    kt = impl()
    from keras_tuner.engine import base_tuner
    from keras_tuner.engine.hyperparameters import hyperparameter as hpm
    from keras_tuner.tuners import randomsearch
    C = Codes()
    prog = gen_block(R, 0, [0], False, R.choice([2, 3]))
    allow = R.random() < 0.8
    tune = R.random() < 0.8
    pre = kt.HyperParameters()
    focus_lazy = R.random() < 0.2 and any(lz for _, _, lz in all_decls(prog))
    if focus_lazy:
        # a given space that holds everything the build function declares outside `if` guards, new entries neither allowed
        # nor tuned: what is declared only under an `if` on the parent's value must still be found (and rejected) before
        # the first trial - by the builds of the activation loop, not by the first one
        allow, tune = False, R.random() < 0.3
        try:
            interp(pre, prog, [], skip_lazy=True)
            tags["focus-lazy-given-space"] += 1
        except (Abort, Violation):
            pre = kt.HyperParameters()
            focus_lazy = False
    if focus_lazy:
        pass
    elif (not allow or not tune) or R.random() < 0.3:
        for st in prog:
            if st[0] == "decl" and R.random() < 0.7:
                declare(pre, st[1])
        if not pre.space:
            pre.Boolean("given")
    aborted = [False]

    def build(hp):
        try:
            interp(hp, prog, [])
        except Abort:
            aborted[0] = True
        return None

    class T(base_tuner.BaseTuner):
        def run_trial(self, trial, *a, **k):
            return 0.0
    fills = []
    real_rs = hpm.HyperParameter.random_sample

    def rs(self, seed=None):
        v = real_rs(self, seed)
        if seed is None:
            fills.append(v)
        return v
    hpm.HyperParameter.random_sample = rs
    err = None
    try:
        with tempdir("ktp") as d:
            o = randomsearch.RandomSearchOracle(objective=kt.Objective("score", "min"), max_trials=3, seed=1,
                                                hyperparameters=pre if pre.space else None, allow_new_entries=allow, tune_new_entries=tune)
            init_space = [hp_wire(p, C) for p in o.hyperparameters.space]
            init_vals = [[k, C.code(v)] for k, v in o.hyperparameters.values.items()]
            try:
                quiet(T, oracle=o, hypermodel=build, directory=d, project_name="p")
            except RuntimeError as e:
                if "allow_new_entries" not in str(e):
                    raise
                err = "notAllowed"
    finally:
        hpm.HyperParameter.random_sample = real_rs
    if aborted[0]:
        tags["aborted-discovery"] += 1
        return False
    vals, space, _, _ = state_strs(o.hyperparameters, C)
    lines.append(dict(suite="programs", op="discover", prog=to_model_prog(prog, C), space=init_space, values=init_vals,
                      allow=allow, tune=tune, fills=[]))      # ensure_active_values fills in defaults (F14 repaired): nothing random to hand to the model
    if fills:
        tags["unseeded-fill-in-discovery"] += 1
    if err:
        expect.append(None)       # which entries are named in the error message is not compared; the rejection itself is checked below
        tags["rejected"] += 1
    else:
        expect.append(("PREFIX", f"space=[{space}] values=[{vals}] builds="))
    # monitors
    decls = all_decls(prog)
    have = {(p.name, tuple((c.name, tuple(map(str, c.values))) for c in p.conditions)) for p in o.hyperparameters.space}
    have_names = {p.name for p in o.hyperparameters.space}
    if allow and tune and not err:
        for qn, conds, lazy_under in decls:
            if qn not in have_names:
                raise Violation("C13", f"declaration {qn} under scopes {conds} was not discovered before the first trial (lazy={lazy_under})",
                                {"tag": "discovery", "lazy": lazy_under})
        seen = set()
        for p in o.hyperparameters.space:
            for c in p.conditions:
                if c.name not in seen:
                    raise Violation("C13", f"discovered entry {p.name} precedes its parent {c.name}", {"tag": "parents-first"})
            seen.add(p.name)
    if not tune and not err:
        if [hp_wire(p, C) for p in o.hyperparameters.space] != init_space:
            raise Violation("C13", "tune_new_entries=False but the search space changed", {"tag": "flags"})
    if not allow:
        new = [qn for qn, _, _ in decls if qn not in {h["name"] for h in init_space}]
        top_new = [st[1]["name"] for st in prog if st[0] == "decl" and st[1]["name"] not in {h["name"] for h in init_space}]
        if top_new and not err:
            raise Violation("C13", f"allow_new_entries=False but new entries {top_new} were accepted", {"tag": "flags"})
        # entries declared only under a Python `if` on the parent's value: the discovery loop activates every scope before
        # the first trial, so they are found - and must be rejected - at construction as well
        lazy_new = [qn for qn, conds, lazy_under in decls if qn in new and qn not in top_new]
        if lazy_new and not err:
            tags["lazy-new-not-rejected-candidate"] += 1
            lines[-1]["expect_reject_if_model_rejects"] = lazy_new
    tags[f"discover-allow{int(allow)}-tune{int(tune)}"] += 1
    return any(st[0] == "cond" for st in prog)


def compare_prefix(res, lines, expect, got, scen):
    for i, (e, g) in enumerate(zip(expect, got)):
        if e is None:
            continue
        res.evaluations += 1
        ok = g.startswith(e[1]) if isinstance(e, tuple) else (e == g)
        if isinstance(e, tuple) and lines[i].get("op") == "discover" and "ERR:" in g:
            ok = False        # the implementation accepted the build function, the model's discovery loop rejects an entry
            lazy_new = lines[i].get("expect_reject_if_model_rejects")
            if lazy_new:
                res.violations.append({"pid": "C13", "what": f"allow_new_entries=False: the build function declares {lazy_new} (not in the given space) under an `if` "
                                       f"on the parent's value; the discovery loop reaches such declarations before the first trial and must reject them "
                                       f"({g[g.index('ERR:'):][:80]}), but the tuner was constructed without an error", "sig": {"tag": "flags-lazy"}, "replay": scen})
        if not ok:
            res.mismatches.append({"suite": res.suite, "scenario": scen, "op_index": i, "op": {k: v for k, v in lines[i].items() if k != "prog"},
                                   "impl": e[1] if isinstance(e, tuple) else e, "model": g, "ops": [lines[i]]})
            return False
    return True


def run(seed, tier, n=None):
    res = Result("programs")
    res.rule = ("generated build programs (declarations of all five kinds, name scopes, conditional scopes nested to depth 2-4, eager and lazy "
                "children, the same name under different conditions, reads by name incl. inactive and unknown names) run on an empty container, "
                "on pre-populated values and on a known space; and whole BaseTuner constructions (discovery loop) under the four settings of "
                "allow_new_entries / tune_new_entries; non-trivial = program with a conditional scope; distinct by hash of the program")
    n = n or (400 if tier == "quick" else 8000)
    R = random.Random(seed ^ 0xC13)
    all_lines, spans = [], []
    for i in range(n):
        sseed = R.randrange(1 << 30)
        RR = random.Random(sseed)
        lines, expect = [], []
        tags = collections.Counter()
        res.scenarios += 1
        kind = "discover" if i % 3 == 2 else "build"
        try:
            if kind == "build":
                prog, nt = case_build(RR, res, lines, expect, tags)
            else:
                nt = run_discover(RR, res, lines, expect, tags)
        except Violation as v:
            res.violations.append({"pid": v.pid, "what": v.what, "sig": v.sig, "replay": {"suite": "programs", "seed": sseed, "kind": kind}})
            continue
        res.hist.update(tags)
        doc = {"suite": "programs", "seed": sseed, "kind": kind}
        spans.append((len(all_lines), lines, expect, doc))
        all_lines += lines
        if nt and lines:
            res.nontrivial.add(hashlib.sha1(json.dumps(lines[0]["prog"]).encode()).hexdigest())
        if len(res.samples) < 2 and nt and lines and kind == "build":
            res.samples.append({"case": doc, "program": lines[0]["prog"][:4], "impl_answer": (expect[0] or "")[:300]})
    try:
        out = run_driver(all_lines) if all_lines else []
    except Exception as e:
        res.errors.append(f"model driver unavailable: {e}")
        return res
    for start, lines, expect, doc in spans:
        compare_prefix(res, lines, expect, out[start:start + len(lines)], doc)
    return res


def replay(doc):
    res = Result("programs")
    RR = random.Random(doc["seed"])
    lines, expect, tags = [], [], collections.Counter()
    try:
        if doc["kind"] == "build":
            case_build(RR, res, lines, expect, tags)
        else:
            run_discover(RR, res, lines, expect, tags)
    except Violation as v:
        res.violations.append({"pid": v.pid, "what": v.what, "sig": v.sig, "replay": doc})
        return res
    out = run_driver(lines) if lines else []
    compare_prefix(res, lines, expect, out, doc)
    return res
