"""Suite `rpc` (C16): the chief/worker layer with an in-process transport that really serialises every request
and response to bytes (SerializeToString / FromString) around the real OracleServicer and OracleClient. The
same request sequence is run twice — directly on an oracle and through the RPC layer on an identically built
one — and everything observable is compared: answers (ids, statuses, values with their Python types), scores
(single precision), metric histories, best trials, the chief's own state, the chief's exit condition. The
space decoder's order is compared with the Lean model (Rpc.decodeSpace)."""
import collections
import hashlib
import json
import os
import random
import struct

from harness import gen
from harness.common import Result, Violation, canon_vals, compare, fl_str, impl, kind_of, quiet, run_driver, tempdir


def f32(x):
    if x is None:
        return None
    return struct.unpack("f", struct.pack("f", float(x)))[0]


class Stub:
    """calls the servicer in process, through protobuf bytes both ways"""

    def __init__(self, servicer):
        self.s = servicer

    def __getattr__(self, name):
        method = getattr(self.s, name)

        def call(request, **kw):
            req = type(request).FromString(request.SerializeToString())
            resp = method(req, None)
            return type(resp).FromString(resp.SerializeToString())
        return call


def make_client(oracle):
    from keras_tuner.distribute import oracle_chief, oracle_client
    os.environ.setdefault("KERASTUNER_ORACLE_IP", "127.0.0.1")
    os.environ.setdefault("KERASTUNER_ORACLE_PORT", "1")
    os.environ.setdefault("KERASTUNER_TUNER_ID", "w0")
    servicer = oracle_chief.OracleServicer(oracle)
    client = oracle_client.OracleClient(oracle)
    client.stub = Stub(servicer)
    return client, servicer


def space_sig(hps):
    """every configured field of every entry, as a multiset-comparable signature"""
    out = []
    for p in hps.space:
        d = {"cls": type(p).__name__, "name": p.name, "conds": [(c.name, [(kind_of(v), v) for v in c.values]) for c in p.conditions],
             "default": (kind_of(p.default), p.default)}
        for a in ("min_value", "max_value", "step", "sampling", "ordered", "value"):
            if hasattr(p, a):
                v = getattr(p, a)
                if type(p).__name__ == "Float" and a in ("min_value", "max_value", "step") and v is not None:
                    v = float(v)        # Float keeps an int step as given; 2 and 2.0 are the same step
                d[a] = (kind_of(v), v)
        if type(p).__name__ == "Choice":
            d["values"] = [(kind_of(v), v) for v in p.values]
        out.append(json.dumps(d, sort_keys=True, default=str))
    return out


def scenario(sseed, kind, res, lines, expect, soft=None):
    kt = impl()
    from keras_tuner.distribute import oracle_chief
    from keras_tuner.engine import trial as tm
    R = random.Random(sseed)
    tags = collections.Counter()
    with tempdir("ktx") as d1, tempdir("ktx2") as d2:
        specs = gen.rand_specs(R, finite=(kind == "grid"), nonfixed=(kind == "bayes"), maxdepth=3)
        RA, RB = random.Random(sseed + 1), random.Random(sseed + 1)
        over = dict(max_epochs=R.randint(2, 6), factor=2, iterations=1) if kind == "hyperband" else {}
        direct = gen.make_oracle(RA, kind, specs, d1, **over)
        chief = gen.make_oracle(RB, kind, specs, d2, **over)
        client, servicer = make_client(chief)
        # the space itself through the codec: nothing lost or retyped, parents first
        sp = client.get_space()
        if sorted(space_sig(sp)) != sorted(space_sig(direct.get_space())):
            a, b = sorted(space_sig(sp)), sorted(space_sig(direct.get_space()))
            diff = next((x, y) for x, y in zip(a, b) if x != y) if len(a) == len(b) else (len(a), len(b))
            raise Violation("C16", f"the search space changes through the protocol buffer: {diff}", {"tag": "space-field"})
        seen = set()
        for p in sp.space:
            for c in p.conditions:
                if c.name not in seen:
                    raise Violation("C16", f"decoded space lists {p.name} ahead of its parent {c.name}", {"tag": "parents-first"})
            seen.add(p.name)
        # model: the decoder's order
        names = {}
        for p in direct.get_space().space:
            names.setdefault(p.name, len(names))
        proto = direct.get_space().to_proto()
        grouped = list(proto.space.fixed_space) + list(proto.space.float_space) + list(proto.space.int_space) + list(proto.space.choice_space) + list(proto.space.boolean_space)
        lines.append(dict(suite="programs", op="decode", order=[[names[e.name], [names[c.parent.name] for c in e.conditions]] for e in grouped]))
        expect.append(",".join(str(names[p.name]) for p in sp.space))
        tun = [f"w{i}" for i in range(R.randint(1, 3))]
        # every worker is a process of its own with its own OracleClient on the same chief; each reads the space once at start
        from keras_tuner.distribute import oracle_client
        clients = {}
        for w in tun:
            c = oracle_client.OracleClient(chief)
            c.stub = client.stub
            c.get_space()
            clients[w] = c
        clients[tun[0]] = client
        hold_d, hold_r = {}, {}
        stopped = set()
        disc = [0]
        for step in range(R.randint(5, 40)):
            w = R.choice(tun)
            client = clients[w]
            if w in hold_d and R.random() < 0.7:
                td, tr = hold_d.pop(w), hold_r.pop(w)
                oc = R.choice(["C", "C", "C", "NAN", "INV", "FAIL"])
                if oc in ("C", "NAN"):
                    val = float("nan") if oc == "NAN" else R.choice([0.1, 1.0, 2.5, -1.0, 1e-3, 3.0, 0.0, 0.0, -0.0])
                    st = R.choice([0, 1, 2])
                    quiet(direct.update_trial, td.trial_id, {"score": val}, step=st)
                    back = quiet(client.update_trial, tr.trial_id, {"score": val}, step=st)
                    if back.status != "RUNNING":
                        raise Violation("C16", f"update_trial through RPC returns status {back.status}", {"tag": "update"})
                    td.status = tr.status = "COMPLETED"
                else:
                    td.status = tr.status = {"INV": "INVALID", "FAIL": "FAILED"}[oc]
                    td.message = tr.message = "Traceback: scripted failure"
                if R.random() < 0.3 and disc[0] < 3 and kind != "grid":
                    disc[0] += 1
                    pn = specs[0]["name"]
                    for t in (td, tr):
                        t.hyperparameters.Boolean(f"flag{disc[0]}")
                        if pn in t.hyperparameters.values:
                            t.hyperparameters.Int(f"disc{disc[0]}", 0, 3, parent_name=pn, parent_values=[t.hyperparameters.values[pn]])
                    tags["discovered-on-worker"] += 1
                ab = [False, False]
                for i, (o_, t_) in enumerate(((direct, td), (client, tr))):
                    try:
                        quiet(o_.end_trial, t_)
                    except RuntimeError as e:
                        if "consecutive" not in str(e):
                            raise
                        ab[i] = True
                if ab[0] != ab[1]:
                    raise Violation("C16", f"abort on consecutive failures differs: direct {ab[0]}, remote {ab[1]}", {"tag": "abort"})
                if ab[0]:
                    break
                a, b = direct.trials[td.trial_id], chief.trials[tr.trial_id]
                if a.status != b.status:
                    raise Violation("C16", f"trial {td.trial_id} ends {a.status} directly, {b.status} through RPC", {"tag": "status"})
                if (a.score is None) != (b.score is None) or (a.score is not None and a.score == a.score and abs(f32(a.score) - f32(b.score)) > 1e-6 * max(1, abs(a.score))):
                    raise Violation("C16", f"score of trial {td.trial_id}: {a.score} directly, {b.score} through RPC", {"tag": "score"})
                if a.message != b.message:
                    v = Violation("C16", f"trial {td.trial_id}: message {a.message!r} directly, {b.message!r} on the chief after RPC", {"tag": "message-lost"})
                    if soft is None:
                        raise v
                    soft.append(v)
                # what a worker reads back: the trial and the space as the client decodes them
                back = client.get_trial(tr.trial_id)
                if back.status != b.status or canon_vals(back.hyperparameters.values) != canon_vals(b.hyperparameters.values):
                    raise Violation("C16", f"get_trial({tr.trial_id}) through RPC: status / values differ from the chief's record", {"tag": "trial-codec"})
                if (back.score is None) != (b.score is None) or (b.score is not None and b.score == b.score and fl_str(f32(back.score)) != fl_str(f32(b.score))):
                    raise Violation("C16", f"get_trial({tr.trial_id}) through RPC: score {back.score!r}, the chief holds {b.score!r}", {"tag": "score-codec"})
                if b.score is not None and b.score == b.score and back.best_step != b.best_step:     # a NaN score has no best step (None travels as 0)
                    raise Violation("C16", f"get_trial({tr.trial_id}) through RPC: best_step {back.best_step!r}, the chief holds {b.best_step!r}", {"tag": "score-codec"})
                want_space = sorted(space_sig(direct.get_space()))
                for w2 in tun:
                    if sorted(space_sig(clients[w2].get_space())) != want_space:
                        raise Violation("C16", f"after {w} ended trial {tr.trial_id}, get_space() of worker {w2}'s client differs from the search space of the oracle driven "
                                               "directly (entries reported by a worker are missing)", {"tag": "space-stale"})
                tags["end-" + oc] += 1
            elif w not in hold_d and w not in stopped:
                td = quiet(direct.create_trial, w)
                tr = quiet(client.create_trial, w)
                if td.status != tr.status or td.trial_id != tr.trial_id:
                    raise Violation("C16", f"create_trial({w}): direct {(td.trial_id, td.status)}, remote {(tr.trial_id, tr.status)}", {"tag": "lifecycle"})
                if td.status == "RUNNING":
                    if canon_vals(td.hyperparameters.values) != canon_vals(tr.hyperparameters.values) and kind != "bayes":
                        raise Violation("C16", f"trial {td.trial_id}: values {canon_vals(td.hyperparameters.values)} directly, {canon_vals(tr.hyperparameters.values)} through RPC",
                                        {"tag": "values", "discovered": disc[0] > 0, "kind": kind,
                                         "promotion": "tuner/trial_id" in td.hyperparameters.values})
                    hold_d[w], hold_r[w] = td, tr
                    tags["issued"] += 1
                elif td.status == "STOPPED":
                    stopped.add(w)
                # the chief's exit condition
                told = {x for x in tun if x in stopped}
                want = (not chief.ongoing_trials) and all((x in told) or (x not in chief.tuner_ids) for x in tun) and not (chief.tuner_ids - told)
                got = oracle_chief.exit_chief(chief)
                if got != ((len(chief.ongoing_trials) == 0) and len(chief.tuner_ids) == 0):
                    raise Violation("C16", "exit_chief disagrees with its definition", {"tag": "exit"})
                if got and (hold_r or any(x not in stopped for x in chief.tuner_ids)):
                    raise Violation("C16", f"chief would exit while trials {list(hold_r)} run / workers not told to stop", {"tag": "exit"})
                if servicer.stop_triggered != bool(stopped):
                    raise Violation("C16", "stop_triggered does not reflect a STOPPED answer", {"tag": "exit"})
            if R.random() < 0.1:
                n = R.randint(1, 3)
                a = [t.trial_id for t in direct.get_best_trials(n)]
                b = [t.trial_id for t in client.get_best_trials(n)]
                if a != b:
                    raise Violation("C16", f"get_best_trials({n}): {a} directly, {b} through RPC", {"tag": "best"})
                for t in client.get_best_trials(n):
                    o = chief.trials[t.trial_id]
                    if t.status != o.status or canon_vals(t.hyperparameters.values) != canon_vals(o.hyperparameters.values):
                        raise Violation("C16", f"trial {t.trial_id} retyped / changed by the protocol buffer", {"tag": "trial-codec"})
                    if (t.score is None) != (o.score is None) or (o.score is not None and o.score == o.score and fl_str(f32(t.score)) != fl_str(f32(o.score))) or \
                            (o.score is not None and o.score == o.score and t.best_step != o.best_step):
                        raise Violation("C16", f"best trial {t.trial_id} through RPC: score / best step {t.score!r} / {t.best_step!r}, the chief holds {o.score!r} / {o.best_step!r}",
                                        {"tag": "score-codec"})
                    for nme in o.metrics.metrics:
                        h1 = [(ob.step, [fl_str(f32(v)) for v in ob.value]) for ob in o.metrics.get_history(nme)]
                        h2 = [(ob.step, [fl_str(f32(v)) for v in ob.value]) for ob in t.metrics.get_history(nme)]
                        if h1 != h2 or o.metrics.get_direction(nme) != t.metrics.get_direction(nme):
                            raise Violation("C16", f"metric history of {nme} changed by the protocol buffer", {"tag": "metrics-codec"})
                tags["best"] += 1
        # the chief's bookkeeping equals the direct oracle's
        if (direct.start_order, direct.end_order, direct._retry_queue) != (chief.start_order, chief.end_order, chief._retry_queue):
            raise Violation("C16", "start / end order or retry queue differ between the direct and the remote run", {"tag": "lifecycle"})
        if sorted(space_sig(direct.get_space())) != sorted(space_sig(chief.get_space())) and kind != "bayes":
            raise Violation("C16", "the chief's search space differs from the direct oracle's after discovery on the worker", {"tag": "space-field"})
    return tags


def _pval(v):
    """canonical tree of a `Value` message (oneof)"""
    k = v.WhichOneof("kind")
    return {{"int_value": "int", "float_value": "float", "string_value": "str", "boolean_value": "bool"}[k]: getattr(v, k)}


def proto_tree(p):
    """canonical tree of a hyperparameter message, field by field (Ktm/Proto.lean `hpP`)"""
    from keras_tuner import protos
    pb = protos.get_proto()
    conds = [{"name": c.parent.name, "values": [_pval(v) for v in c.parent.values]} for c in p.conditions]
    base = {"name": p.name, "conditions": conds}
    samp = lambda e: pb.Sampling.Name(e)
    if isinstance(p, pb.Int):
        return dict(base, kind="Int", min_value=int(p.min_value), max_value=int(p.max_value), step=int(p.step), sampling=samp(p.sampling), default=int(p.default))
    if isinstance(p, pb.Float):
        return dict(base, kind="Float", min_value=float(p.min_value), max_value=float(p.max_value), step=float(p.step), sampling=samp(p.sampling), default=float(p.default))
    if isinstance(p, pb.Choice):
        return dict(base, kind="Choice", values=[_pval(v) for v in p.values], ordered=bool(p.ordered), default=_pval(p.default))
    if isinstance(p, pb.Boolean):
        return dict(base, kind="Boolean", default=bool(p.default))
    return dict(base, kind="Fixed", value=_pval(p.value))


def proto_cases(R, lines, expect, tags):
    """every entry of a random space: config -> model `to_proto` vs the real message; real message -> model `from_proto` vs the
    config of the decoded entry (floats as exact tokens; Float fields are doubles on the wire: an integer step or default of a
    Float is compared as the double it becomes; Boolean-valued choices travel as integers and are left out)"""
    from harness.suite_codec import canon, through_json, wire
    import contextlib, io
    specs = gen.rand_specs(R, finite=R.random() < 0.5, samename=R.random() < 0.3, maxdepth=3)
    for s_ in specs:
        if s_["kind"] in ("int", "float") and R.random() < 0.3:
            s_["default"] = R.choice([s_["lo"], s_["hi"], 0 if s_["lo"] <= 0 <= s_["hi"] else s_["lo"]])
    for s_ in specs:
        hp = gen.build_hp(s_)
        if s_["kind"] == "choice" and isinstance(s_["values"][0], bool):
            tags["proto-bool-choice-skipped"] += 1
            continue
        with contextlib.redirect_stdout(io.StringIO()):
            msg = hp.to_proto()
            back = type(hp).from_proto(type(msg).FromString(msg.SerializeToString()))     # through real protobuf bytes
        cfg = through_json({"class_name": type(hp).__name__, "config": hp.get_config()})
        cfg2 = through_json({"class_name": type(back).__name__, "config": back.get_config()})
        if s_["kind"] == "float":
            for c_ in (cfg, cfg2):
                for f in ("step", "default", "min_value", "max_value"):
                    if isinstance(c_["config"].get(f), int) and not isinstance(c_["config"].get(f), bool):
                        c_["config"][f] = float(c_["config"][f])
        tree = proto_tree(msg)
        lines.append(dict(suite="codec", op="p_hp", tree=wire(cfg)))
        expect.append(canon(tree))
        lines.append(dict(suite="codec", op="p_hp_from", tree=wire(tree)))
        expect.append(canon(cfg2))
        tags["proto-entries"] += 1
    # a values message
    kt = impl()
    vals = {f"v{i}": R.choice([True, False, 3, -2, 0, 0.5, 2.0, "a", ""]) for i in range(R.randint(0, 5))}
    h = kt.HyperParameters()
    h.values = dict(vals)
    with contextlib.redirect_stdout(io.StringIO()):
        m = h.to_proto()
        m = type(m).FromString(m.SerializeToString())
    tree = {k: _pval(v) for k, v in m.values.values.items()}
    lines.append(dict(suite="codec", op="p_values", tree=wire(tree)))
    expect.append(canon({k: ({"bool": v} if isinstance(v, bool) else {"int": v} if isinstance(v, int) else {"float": v} if isinstance(v, float) else {"str": v}) for k, v in vals.items()}))
    tags["proto-values"] += 1


def run(seed, tier, n=None, kinds=("random", "grid", "hyperband", "random", "bayes")):
    res = Result("rpc")
    res.rule = ("random conditional spaces (all kinds, bool / int / float / str values) and request sequences of 1-3 workers with hyperparameters "
                "discovered on the worker and sent back at end_trial, run directly and through OracleClient -> protobuf bytes -> OracleServicer; "
                "non-trivial = scenario with >= 3 issued trials; distinct by seed")
    n = n or (150 if tier == "quick" else 3000)
    R = random.Random(seed ^ 0xC16)
    all_lines, spans = [], []
    for i in range(n):
        kind = kinds[i % len(kinds)]
        if kind == "bayes" and tier == "quick" and i % 15 != 4:
            kind = "random"
        sseed = R.randrange(1 << 30)
        res.scenarios += 1
        lines, expect = [], []
        soft = []
        try:
            import contextlib, io
            with contextlib.redirect_stdout(io.StringIO()):      # Parent.to_proto prints its values
                tags = scenario(sseed, kind, res, lines, expect, soft)
        except Violation as v:
            res.violations.append({"pid": v.pid, "what": v.what, "sig": v.sig, "replay": {"suite": "rpc", "seed": sseed, "kind": kind}})
            continue
        finally:
            for v in soft[:1]:
                res.violations.append({"pid": v.pid, "what": v.what, "sig": v.sig, "replay": {"suite": "rpc", "seed": sseed, "kind": kind}})
        res.hist.update(tags)
        res.hist["kind-" + kind] += 1
        spans.append((len(all_lines), lines, expect, {"suite": "rpc", "seed": sseed, "kind": kind}))
        all_lines += lines
        if tags.get("issued", 0) >= 3:
            res.nontrivial.add(hashlib.sha1(str(sseed).encode()).hexdigest())
        if len(res.samples) < 2 and lines:
            res.samples.append({"scenario": {"seed": sseed, "kind": kind}, "decoder_input": lines[0]["order"][:8], "decoded_order": expect[0]})
    # message-level codec: to_proto / from_proto of entries and values against Ktm/Proto.lean
    for i in range(max(4, n // 2)):
        pseed = R.randrange(1 << 30)
        lines, expect, ptags = [], [], collections.Counter()
        try:
            proto_cases(random.Random(pseed), lines, expect, ptags)
        except Violation as v:
            res.violations.append({"pid": v.pid, "what": v.what, "sig": v.sig, "replay": {"suite": "rpc", "seed": pseed, "kind": "proto"}})
            continue
        res.hist.update(ptags)
        spans.append((len(all_lines), lines, expect, {"suite": "rpc", "seed": pseed, "kind": "proto"}))
        all_lines += lines
    try:
        out = run_driver(all_lines) if all_lines else []
    except Exception as e:
        res.errors.append(f"model driver unavailable: {e}")
        return res
    for start, lines, expect, doc in spans:
        compare(res, lines, expect, out[start:start + len(lines)], doc)
    return res


def replay(doc):
    res = Result("rpc")
    lines, expect = [], []
    if doc.get("kind") == "proto":
        proto_cases(random.Random(doc["seed"]), lines, expect, collections.Counter())
        out = run_driver(lines) if lines else []
        compare(res, lines, expect, out, doc)
        return res
    try:
        scenario(doc["seed"], doc["kind"], res, lines, expect)
    except Violation as v:
        res.violations.append({"pid": v.pid, "what": v.what, "sig": v.sig, "replay": doc})
        return res
    out = run_driver(lines) if lines else []
    compare(res, lines, expect, out, doc)
    return res
