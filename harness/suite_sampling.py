"""Suite `sampling` (C05, C06, C12): the seeded sampling path shared by random search, Hyperband's first
rounds and the Bayesian warm-up. A shim in place of the `random` module of hyperparameter.py logs every
`random.Random(seed).random()`; the Lean model (RandomSeeded: one draw per active entry, seed + 1 each time,
resample on collision, give up after max_collisions + 1) receives the draws by seed, predicts which seeds are
consumed, and must reproduce the issued values, the seed state and STOPPED. Monitors: values exactly active
and in domain (C05), no configuration started twice incl. after the space grows, bounded effort (C06), no
unseeded draw reaches a trial, same run twice / in a fresh interpreter with another PYTHONHASHSEED (C12)."""
import collections
import hashlib
import json
import os
import random
import subprocess
import sys
from fractions import Fraction

from harness import gen
from harness.common import REPO, VERIF, Result, Violation, canon_vals, compare, impl, kind_of, quiet, run_driver, tempdir, worker_copy
from harness.sched import run_schedule
from harness.suite_grid import check_values, encode_space, encode_values, same


class RandomShim:
    """stands in for the `random` module inside keras_tuner.engine.hyperparameters.hyperparameter"""

    def __init__(self):
        self.log = []
        self._real = random

    def Random(self, seed=None):
        real = self._real.Random(seed)
        shim = self

        class RS:
            def random(self_):
                p = real.random()
                shim.log.append((seed, p))
                return p
        return RS()

    def __getattr__(self, k):
        return getattr(self._real, k)


def install_shim():
    impl()
    from keras_tuner.engine.hyperparameters import hyperparameter as hm
    shim = RandomShim()
    old = hm.random
    hm.random = shim
    return shim, (lambda: setattr(hm, "random", old))


def perms_of(specs, names, vlists):
    out = []
    seen = set()
    for s, vl in zip(specs, vlists):
        if s["name"] in seen:
            continue
        seen.add(s["name"])
        hp = gen.build_hp(s, with_conds=False)
        order = [False, True] if s["kind"] == "bool" else list(hp.values)
        perm = [next(i for i, w in enumerate(vl) if same(v, w)) for v in order]
        out.append([names[s["name"]], perm])
    return out


def discrete_specs(R):
    """finite space whose every entry is sampled through an index (Choice / Boolean / Fixed / stepped numeric)"""
    for _ in range(50):
        specs = gen.rand_specs(R, finite=True, maxdepth=R.choice([1, 2, 3]), top=(1, 3))
        if all(not (s["kind"] in ("int", "float") and s.get("step") is None and s.get("sampling") != "linear") for s in specs):
            return specs
    return specs


def draws_wire(log):
    out = []
    for seed, p in log:
        if seed is None:
            continue
        n, d = Fraction(p).as_integer_ratio()
        out.append([seed, n, d])
    return out


def scenario_random(sseed):
    """random search on a discrete space: whole oracle re-executed by the model from the logged draws"""
    R = random.Random(sseed)
    lines, expect = [], []
    tags = collections.Counter()
    specs = discrete_specs(R)
    enc, names, vlists = encode_space(specs)
    shim, undo = install_shim()
    try:
        with tempdir("ktr") as d:
            seed0 = R.choice([0, 0, 1, 7, R.randint(0, 999)])
            o = gen.make_oracle(R, "random", specs, d, seed=seed0, max_trials=R.randint(1, 12))
            if o.seed != seed0:
                raise Violation("C12", f"oracle constructed with seed={seed0} uses seed {o.seed}", {"tag": "seed-ignored"})
            lines.append(dict(suite="sampling", op="init", space=enc, perms=perms_of(specs, names, vlists), seed=seed0,
                              max_collisions=o._max_collisions, max_trials=o.max_trials, max_retries=o.max_retries_per_trial,
                              max_consec=o.max_consecutive_failed_trials))
            expect.append("ok")
            hold, stopped = {}, set()
            tun = [f"w{i}" for i in range(R.randint(1, 3))]
            starts = {}
            steps, aborted = 0, False

            def st(o):
                sts = ",".join(f"{int(tid)}:{t.status}" for tid, t in sorted(o.trials.items()))
                return f"trials[{sts}] retry[{','.join(str(int(x)) for x in o._retry_queue)}] seed={o._seed_state} tried={len(o._tried_so_far)}"
            while steps < 400 and not aborted and (hold or len(stopped) < len(tun)):
                steps += 1
                w = R.choice(tun)
                if w in hold and R.random() < 0.7:
                    t = hold.pop(w)
                    oc = R.choice(["C"] * 6 + ["NAN", "INV", "FAIL"])
                    if oc in ("C", "NAN"):
                        val = None if oc == "NAN" else R.choice([0, 1, 2, 3])
                        lines.append(dict(suite="sampling", op="update", id=int(t.trial_id), value=val))
                        expect.append("ok")
                        quiet(o.update_trial, t.trial_id, {"score": float("nan") if val is None else float(val)}, step=0)
                        t.status = "COMPLETED"
                    else:
                        t.status = {"INV": "INVALID", "FAIL": "FAILED"}[oc]
                    lines.append(dict(suite="sampling", op="end", id=int(t.trial_id), status=t.status))
                    shim.log.clear()
                    try:
                        quiet(o.end_trial, worker_copy(R, t))
                        expect.append("ok | " + st(o))
                    except RuntimeError as e:
                        if "consecutive" not in str(e):
                            raise
                        expect.append(None)
                        aborted = True
                    if any(s is None for s, _ in shim.log):
                        raise Violation("C12", f"end_trial of {t.trial_id} drew unseeded random values", {"tag": "unseeded"})
                elif w not in hold and w not in stopped:
                    shim.log.clear()
                    n_before = len(o.trials)
                    t = quiet(o.create_trial, w)
                    if any(s is None for s, _ in shim.log):
                        raise Violation("C12", f"create_trial drew an unseeded random value (trial {t.trial_id})", {"tag": "unseeded"})
                    if len(shim.log) > (o._max_collisions + 1) * max(1, len(specs)):
                        raise Violation("C06", f"{len(shim.log)} draws for one create_trial: effort not bounded", {"tag": "effort"})
                    lines.append(dict(suite="sampling", op="create", tuner=w, draws=draws_wire(shim.log)))
                    if t.status == "RUNNING":
                        hold[w] = t
                        if len(o.trials) > n_before:
                            check_values(t)
                            cv = canon_vals(t.hyperparameters.values)
                            if cv in starts:
                                raise Violation("C06", f"trial {t.trial_id} starts the configuration of trial {starts[cv]} again: {cv}", {"tag": "duplicate"})
                            starts[cv] = t.trial_id
                            tags["new"] += 1
                        expect.append(f"RUNNING {int(t.trial_id)} {encode_values(t.hyperparameters.values, specs, names, vlists)} | {st(o)}")
                        if len(shim.log) > sum(1 for _ in t.hyperparameters.values):
                            tags["collision-resampled"] += 1
                    else:
                        if t.status == "STOPPED":
                            stopped.add(w)
                            if not (o.max_trials and len(o.trials) >= o.max_trials):
                                tags["exhausted"] += 1
                        expect.append(f"{t.status} | {st(o)}")
            doc = {"suite": "sampling", "mode": "random", "seed": sseed, "oracle_seed": seed0, "nspace": len(specs), "tags": dict(tags)}
    finally:
        undo()
    return lines, expect, doc, tags


def scenario_rvalues(sseed, kind):
    """Hyperband round 0 / Bayesian warm-up: every `_random_values` call replayed stand-alone in the model"""
    R = random.Random(sseed)
    lines, expect = [], []
    tags = collections.Counter()
    specs = discrete_specs(R)
    enc, names, vlists = encode_space(specs)
    perms = perms_of(specs, names, vlists)
    shim, undo = install_shim()
    try:
        with tempdir("ktr") as d:
            over = dict(max_epochs=R.randint(2, 8), factor=2, iterations=1) if kind == "hyperband" else dict(max_trials=R.randint(2, 6), num_initial_points=8)
            o = gen.make_oracle(R, kind, specs, d, seed=R.choice([0, 3, R.randint(0, 999)]), **over)
            real = o._random_values
            starts = {}

            def rv():
                seed_before = o._seed_state
                tried = []
                for tid, t in o.trials.items():
                    vals = {k: v for k, v in t.hyperparameters.values.items() if not k.startswith("tuner/")}
                    code = encode_values(vals, specs, names, vlists)
                    tried.append([[int(a), int(b)] for a, b in (p.split("=") for p in code.split(",") if p and "?" not in p)])
                shim.log.clear()
                v = real()
                if any(s is None for s, _ in shim.log):
                    raise Violation("C12", "_random_values drew an unseeded value", {"tag": "unseeded"})
                lines.append(dict(suite="sampling", op="rvalues", space=enc, perms=perms, seed=seed_before, tried=tried,
                                  max_collisions=o._max_collisions, draws=draws_wire(shim.log)))
                expect.append((f"values={encode_values(v, specs, names, vlists)}" if v is not None else "exhausted") + f" seed={o._seed_state}")
                tags["rvalues"] += 1
                return v
            o._random_values = rv

            def on_create(o_, w, t):
                if t.status == "RUNNING" and t.hyperparameters.values.get("tuner/round", 0) == 0 and t.trial_id not in seen_ids:
                    seen_ids.add(t.trial_id)
                    check_values(t)
                    vals = {k: v for k, v in t.hyperparameters.values.items() if not k.startswith("tuner/")}
                    cv = canon_vals(vals)
                    if cv in starts and kind == "hyperband":
                        raise Violation("C06", f"trial {t.trial_id} starts the configuration of trial {starts[cv]} again", {"tag": "duplicate", "kind": kind})
                    starts.setdefault(cv, t.trial_id)
            seen_ids = set()
            run_schedule(o, R, steps=R.randint(10, 60), on_create=on_create)
            doc = {"suite": "sampling", "mode": kind, "seed": sseed, "nspace": len(specs), "tags": dict(tags)}
    finally:
        undo()
    return lines, expect, doc, tags


def scenario_grow(sseed, kind):
    """the space grows while the search runs (entries reported at end_trial): monitors only"""
    R = random.Random(sseed)
    tags = collections.Counter()
    # focus: small finite space, retries allowed, INVALID-heavy outcomes, several tuners - a trial waiting for its retry
    # while the space grows and the others keep sampling (the tried set must follow the retried trial's new values)
    focus = R.random() < 0.5
    if focus:
        specs = gen.rand_specs(R, finite=True, maxdepth=1, top=(1, 2), nonfixed=(kind == "bayes"))
    else:
        specs = gen.rand_specs(R, finite=R.random() < 0.7, maxdepth=2, nonfixed=(kind == "bayes"))
    shim, undo = install_shim()
    try:
        with tempdir("ktr") as d:
            over = dict(max_epochs=R.randint(2, 6), factor=2, iterations=1) if kind == "hyperband" else dict(max_trials=R.randint(2, 10))
            if focus:
                over.update(max_retries_per_trial=R.randint(1, 2), max_consecutive_failed_trials=50)
                if kind != "hyperband":
                    over["max_trials"] = R.randint(8, 20)
                tags["focus-retry-growth"] += 1
            if R.random() < 0.3:
                # "tune a subset": entries the build function declares are reported but not tuned - the search space
                # stays as it is, so no configuration may ever be started twice
                over.update(tune_new_entries=False, allow_new_entries=True)
                tags["grow-not-tuned"] += 1
            not_tuned = over.get("tune_new_entries") is False
            reported = []
            o = gen.make_oracle(R, kind, specs, d, **over)
            starts = {}
            disc = [0]
            unseeded_in_create = []

            # every build function declares the same two late entries, but not in the same order (different code paths):
            # the order in which a trial's values were inserted must not matter for what counts as tried
            late_pair = R.random() < 0.4

            def discover(R_, t):
                if late_pair:
                    for nm_ in R_.sample(["la", "lb"], 2):
                        try:
                            t.hyperparameters.Boolean(nm_)
                        except Exception:
                            pass
                    tags["late-pair-any-order"] += 1
                    return
                if R_.random() < (0.7 if focus else 0.4) and disc[0] < (2 if focus else 4):
                    disc[0] += 1
                    nm = f"n{disc[0]}"
                    try:
                        if R_.random() < 0.5:
                            t.hyperparameters.Boolean(nm)
                        else:
                            par = R_.choice(t.hyperparameters.space)
                            if par.name in t.hyperparameters.values and not par.name.startswith("tuner/"):
                                t.hyperparameters.Int(nm + "c", 0, 3, parent_name=par.name, parent_values=[t.hyperparameters.values[par.name]])
                        tags["discovered"] += 1
                    except Exception:
                        pass

            seen_ids = set()
            soft = []

            def on_end(o_, t, oc):
                shim.log.clear()
                if not_tuned:
                    reported.extend(p for p in t.hyperparameters.space if not o_.hyperparameters._exists(p.name, p.conditions))

            def on_create(o_, w, t):
                unseeded = [p for s_, p in shim.log if s_ is None]
                shim.log.clear()
                if unseeded and t.status == "RUNNING" and not any(v.pid == "C12" for v in soft):
                    # collected, not raised: the other monitors of this scenario still run
                    soft.append(Violation("C12", f"{kind}: create_trial drew {len(unseeded)} unseeded random value(s) for trial {t.trial_id} "
                                                 f"(round {t.hyperparameters.values.get('tuner/round')})", {"tag": "unseeded-create", "kind": kind}))
                if t.status != "RUNNING" or t.trial_id in seen_ids:
                    return
                # a promoted trial inherits what its parent reported; in a not-tuned search those entries are not in the oracle's space
                check_values(t, extra=reported if t.hyperparameters.values.get("tuner/round", 0) else ())
                nontuner = lambda vs: {k: v for k, v in vs.items() if not k.startswith("tuner/")}
                if t.hyperparameters.values.get("tuner/round", 0) == 0 and not (
                        kind == "bayes" and len([x for x in o_.trials.values() if x.status == "COMPLETED"]) >= (o_.num_initial_points or 3)):
                    # the configuration as the oracle records it now (entries reported since the start included)
                    cv_now = canon_vals(nontuner(t.hyperparameters.values))
                    for oid in seen_ids:
                        # promoted trials deliberately repeat their parent's configuration: only sampled ones are compared
                        if oid in o_.trials and o_.trials[oid].hyperparameters.values.get("tuner/round", 0) == 0 and canon_vals(nontuner(o_.trials[oid].hyperparameters.values)) == cv_now:
                            raise Violation("C06", f"{kind}: trial {t.trial_id} starts {cv_now}, the configuration trial {oid} holds now that the space has grown",
                                            {"tag": "duplicate-grow-current", "kind": kind})
                seen_ids.add(t.trial_id)
                if t.hyperparameters.values.get("tuner/round", 0) != 0:
                    return
                if kind == "bayes" and len([x for x in o_.trials.values() if x.status == "COMPLETED"]) >= (o_.num_initial_points or 3):
                    return
                vals = {k: v for k, v in t.hyperparameters.values.items() if not k.startswith("tuner/")}
                cv = canon_vals(vals)
                if cv in starts:
                    raise Violation("C06", f"{kind}: trial {t.trial_id} starts the configuration of trial {starts[cv]} again after the space grew: {cv}", {"tag": "duplicate-grow", "kind": kind})
                starts[cv] = t.trial_id
            try:
                if focus:
                    run_schedule(o, R, steps=R.randint(20, 80), ntuners=R.randint(2, 3), outcomes=["C", "C", "NAN", "INV", "INV", "NAN"],
                                 on_create=on_create, on_end=on_end, discover=discover, fair_finish=False)
                else:
                    run_schedule(o, R, steps=R.randint(10, 70), on_create=on_create, on_end=on_end, discover=discover, fair_finish=False)
                if R.random() < 0.4:
                    # the process stops and a new one resumes the search (what was running is queued again): what has been tried
                    # stays tried, whatever the space looked like when it was tried
                    quiet(o.save)
                    o2 = gen.clone_oracle(o, d)
                    quiet(o2.reload)
                    tags["grow-resumed"] += 1
                    run_schedule(o2, R, steps=R.randint(10, 50), ntuners=R.randint(1, 3), outcomes=["C", "C", "C", "NAN", "INV"],
                                 on_create=on_create, on_end=on_end, discover=discover, fair_finish=False)
            except Violation as v:
                v.also = soft
                raise
    finally:
        undo()
    if soft:
        v = soft[0]
        v.also = soft[1:]
        raise v
    return tags


def scenario_samename(sseed, kind):
    """the documented pattern `units` under model=mlp / `units` under model=cnn, each with a domain of its own: every
    issued trial must carry, for each name, a value from the domain of the entry that is ACTIVE under the trial's own
    values (monitors only: the Lean space model has distinct names)"""
    R = random.Random(sseed)
    tags = collections.Counter()
    for _ in range(30):
        specs = gen.rand_specs(R, finite=R.random() < 0.6, samename=True, maxdepth=R.choice([1, 2]), top=(1, 2), nonfixed=(kind == "bayes"))
        if len({s["name"] for s in specs}) < len(specs):
            break
    else:
        return tags
    tags["samename-space"] += 1
    with tempdir("ktr") as d:
        over = dict(max_epochs=R.randint(2, 6), factor=2, iterations=1) if kind == "hyperband" else dict(max_trials=R.randint(4, 14))
        o = gen.make_oracle(R, kind, specs, d, **over)
        starts = {}

        def on_create(o_, w, t):
            if t.status != "RUNNING":
                return
            check_values(t)
            tags["trial-checked"] += 1
            if t.hyperparameters.values.get("tuner/round", 0) != 0 or kind == "bayes":
                return
            cv = canon_vals({k: v for k, v in t.hyperparameters.values.items() if not k.startswith("tuner/")})
            if cv in starts and starts[cv] != t.trial_id:
                raise Violation("C06", f"{kind}: trial {t.trial_id} starts the configuration of trial {starts[cv]} again: {cv}", {"tag": "duplicate-samename", "kind": kind})
            starts[cv] = t.trial_id
        run_schedule(o, R, steps=R.randint(10, 60), on_create=on_create, fair_finish=False)
    return tags


def trace_of(sseed, kind, perturb=False):
    """the issued (id, values) sequence of a scripted schedule: used for the two-run / two-process comparison.
    `perturb`: the rest of the program uses the process-wide generators between the requests (training code that
    shuffles, a sibling oracle created later) - nothing an oracle hands out may depend on them"""
    R = random.Random(sseed)
    P = random.Random(sseed ^ 0x5eed)

    def noise(*_a):
        import numpy as np
        for _ in range(P.randint(1, 3)):
            random.random()
            np.random.rand(P.randint(1, 4))
        if P.random() < 0.3:
            np.random.seed(P.randint(0, 99))
        if P.random() < 0.3:
            random.seed(P.randint(0, 99))
    with tempdir("ktt") as d:
        specs = gen.rand_specs(R, finite=(kind == "grid"), nonfixed=(kind == "bayes"))
        if kind == "bayes":
            # the acquisition step only matters on a continuous dimension with informative scores
            specs.append({"name": "lr", "kind": "float", "conds": [], "lo": 0.001, "hi": 1.0, "step": None, "sampling": R.choice(["linear", "log"]), "default": None})
            specs.append({"name": "mom", "kind": "float", "conds": [], "lo": 0.0, "hi": 1.0, "step": None, "sampling": "linear", "default": None})
        over = dict(max_epochs=R.randint(1, 6), factor=2, iterations=1) if kind == "hyperband" else {}
        if kind == "bayes":
            over = dict(max_trials=R.randint(8, 12), num_initial_points=2)
        o = gen.make_oracle(R, kind, specs, d, seed=R.choice([0, 5, R.randint(0, 999)]), **over)
        # tie-heavy scores: the winner among equal scores must not depend on hash ordering
        palette = R.choice([[1], [1, 1, 1, 2, 0.5], [1, 2]]) if kind != "bayes" else [round(R.random() * 10, 3) for _ in range(12)]
        hooks = dict(on_create=noise, on_end=noise) if perturb else {}
        import time as _time
        saved_clock = (_time.time, _time.monotonic, _time.perf_counter)
        if perturb:
            noise()
            # ... and the wall clock races ahead: every reading is minutes later than the one before
            jump = [0.0]

            def fast(real):
                def f():
                    jump[0] += 97.0
                    return real() + jump[0]
                return f
            _time.time, _time.monotonic, _time.perf_counter = fast(saved_clock[0]), fast(saved_clock[1]), fast(saved_clock[2])
        try:
            tr = run_schedule(o, R, steps=R.randint(8, 40) if kind != "hyperband" else R.randint(30, 90),
                              score_of=lambda R_, t: float(R_.choice(palette)), outcomes=["C"] * 6 + ["INV", "FAIL"], **hooks)
        finally:
            _time.time, _time.monotonic, _time.perf_counter = saved_clock
    return [e for e in tr if e[0] == "create"]


def trace_resumed(sseed, kind, handoff, phase):
    """C12 'in the same process or in a fresh one', for a search that is stopped and resumed: the schedule runs k1 requests,
    the project is saved, a fresh oracle reloads it and serves k2 more requests. phase "whole": everything in this process
    (the project directory and the generator state at the hand-over are left in `handoff`); phase "second": a new process
    builds the oracle again, reloads `handoff` and serves the k2 requests. Returns the trials issued after the hand-over."""
    import shutil
    R = random.Random(sseed)
    with tempdir("ktt") as d:
        specs = gen.rand_specs(R, finite=(kind == "grid" or (kind != "bayes" and R.random() < 0.7)), nonfixed=(kind == "bayes"), maxdepth=2, top=(1, 2))
        over = dict(max_epochs=R.randint(2, 6), factor=2, iterations=1) if kind == "hyperband" else (dict(max_trials=R.randint(6, 14)) if kind == "random" else {})
        if kind == "bayes":
            # the model-based phase must be reached after the hand-over: continuous dimensions, few initial points
            specs.append({"name": "lr", "kind": "float", "conds": [], "lo": 0.001, "hi": 1.0, "step": None, "sampling": "log", "default": None})
            specs.append({"name": "mom", "kind": "float", "conds": [], "lo": 0.0, "hi": 1.0, "step": None, "sampling": "linear", "default": None})
            over = dict(max_trials=R.randint(7, 9), num_initial_points=2)
        o = gen.make_oracle(R, kind, specs, d, seed=R.choice([0, 5, R.randint(0, 999)]), max_consecutive_failed_trials=6, **over)
        palette = R.choice([[1], [1, 1, 1, 2, 0.5], [1, 2]])
        ntun = R.randint(1, 3)
        k1, k2 = R.randint(3, 25), R.randint(6, 40)
        if kind == "bayes":
            k1, k2 = R.randint(8, 14), R.randint(10, 16)
        kw = dict(score_of=lambda R_, t: float(R_.choice(palette)), outcomes=["C"] * 6 + ["INV", "FAIL"], ntuners=ntun)
        if phase == "whole":
            run_schedule(o, R, steps=k1, **kw)
            quiet(o.save)
            shutil.rmtree(handoff, ignore_errors=True)
            shutil.copytree(os.path.join(d, "p"), os.path.join(handoff, "p"))
            st = R.getstate()
            json.dump([st[0], list(st[1]), st[2]], open(os.path.join(handoff, "rstate.json"), "w"))
            o2 = gen.clone_oracle(o, d)
            quiet(o2.reload)
        else:
            st = json.load(open(os.path.join(handoff, "rstate.json")))
            R.setstate((st[0], tuple(st[1]), st[2]))
            o2 = o
            o2._set_project_dir(handoff, "p")
            quiet(o2.reload)
        tr = run_schedule(o2, R, steps=k2, **kw)
    return [e for e in tr if e[0] == "create"]


def run(seed, tier, n=None, subprocs=None, modes=("random", "random", "hyperband", "grow-random", "grow-hyperband", "determinism", "bayes", "random")):
    res = Result("sampling")
    res.rule = ("random search over discrete conditional spaces re-executed by the seeded-sampling model from the logged PRNG draws; every "
                "_random_values call of Hyperband / Bayesian warm-up replayed stand-alone; growing spaces (entries reported at end_trial) and "
                "two-run / fresh-interpreter reproducibility as monitors; seeds include 0; non-trivial = scenario with a collision, an "
                "exhaustion, a discovery or >= 3 new trials; distinct by hash of the lines / seed")
    n = n or (160 if tier == "quick" else 3000)
    subprocs = subprocs if subprocs is not None else (3 if tier == "quick" else 15)
    R = random.Random(seed ^ 0xC06)
    all_lines, spans = [], []
    kinds4 = ("random", "grid", "hyperband", "bayes")
    for i in range(n):
        sseed = R.randrange(1 << 30)
        mode = modes[i % len(modes)]
        if tier == "quick" and mode == "bayes" and i % 16 != 6 and len(modes) == 8:
            mode = "random"
        res.scenarios += 1
        try:
            if mode in ("random",):
                lines, expect, doc, tags = scenario_random(sseed)
            elif mode in ("hyperband", "bayes"):
                lines, expect, doc, tags = scenario_rvalues(sseed, mode)
            elif mode.startswith("grow"):
                tags = scenario_grow(sseed, mode.split("-")[1])
                lines, expect, doc = [], [], {"suite": "sampling", "mode": mode, "seed": sseed}
            elif mode.startswith("samename"):
                tags = scenario_samename(sseed, mode.split("-")[1])
                lines, expect, doc = [], [], {"suite": "sampling", "mode": mode, "seed": sseed}
            else:
                kind = kinds4[(sseed >> 3) % 4]
                a, b = trace_of(sseed, kind), trace_of(sseed, kind)
                c = trace_of(sseed, kind, perturb=True)
                if a == b and a != c:
                    j = next((j for j, (x, y) in enumerate(zip(a, c)) if x != y), -1)
                    raise Violation("C12", f"{kind}: the trials issued depend on the process-wide random generators or on the wall clock (other code drew from / "
                                           f"re-seeded `random` and `numpy.random` between the requests, and the clock ran fast): request {j}: {a[j] if j >= 0 else len(a)} vs {c[j] if j >= 0 else len(c)}",
                                    {"tag": "global-rng", "kind": kind})
                if a != b:
                    j = next((j for j, (x, y) in enumerate(zip(a, b)) if x != y), -1)
                    raise Violation("C12", f"{kind}: two runs with the same seed and schedule diverge at request {j}: {a[j] if j >= 0 else len(a)} vs {b[j] if j >= 0 else len(b)}", {"tag": "two-runs", "kind": kind})
                tags = collections.Counter({"determinism": 1})
                lines, expect, doc = [], [], {"suite": "sampling", "mode": mode, "seed": sseed, "kind": kind}
                res.evaluations += len(a)
        except Violation as v:
            for x in [v] + list(getattr(v, "also", [])):
                res.violations.append({"pid": x.pid, "what": x.what, "sig": x.sig, "replay": {"suite": "sampling", "seed": sseed, "mode": mode, "i": i, "kind": kinds4[(sseed >> 3) % 4]}})
            continue
        res.hist.update(tags)
        res.hist["mode-" + mode] += 1
        spans.append((len(all_lines), lines, expect, doc))
        all_lines += lines
        if tags.get("collision-resampled") or tags.get("exhausted") or tags.get("discovered") or tags.get("trial-checked", 0) >= 3 or tags.get("new", 0) >= 3 or tags.get("rvalues", 0) >= 3 or tags.get("determinism"):
            res.nontrivial.add(hashlib.sha1((json.dumps(lines, sort_keys=True) + str(sseed)).encode()).hexdigest())
        if len(res.samples) < 2 and lines and tags.get("collision-resampled"):
            res.samples.append({"scenario": doc, "ops": lines[1:3], "impl_answers": expect[1:3]})
    # fresh interpreters with a different PYTHONHASHSEED, a batch of scenarios each
    batch_n = 6 if tier == "quick" else 12
    for k in range(subprocs):
        batch = [(R.randrange(1 << 30), ("hyperband", "hyperband", "random", "hyperband", "grid", "bayes")[j % 6]) for j in range(batch_n)]
        here = [json.dumps(trace_of(ss, kd), default=str) for ss, kd in batch]
        env = dict(os.environ, PYTHONHASHSEED=str(1 + (batch[0][0] % 1000)), KT_REPO=REPO)
        p = subprocess.run([sys.executable, "-c",
                            f"import sys, json; sys.path.insert(0, {VERIF!r}); from harness import suite_sampling as s\n"
                            f"for ss, kd in {batch!r}: print('TRACE' + json.dumps(s.trace_of(ss, kd), default=str))"],
                           capture_output=True, text=True, env=env, timeout=1200)
        out = [l for l in p.stdout.splitlines() if l.startswith("TRACE")]
        if len(out) != len(batch):
            res.errors.append(f"fresh-interpreter run failed: {p.stderr[-200:]}")
            continue
        for (ss, kd), a, b in zip(batch, here, out):
            res.scenarios += 1
            if b[5:] != a:
                res.violations.append({"pid": "C12", "what": f"{kd}: a fresh interpreter with another PYTHONHASHSEED issues different trials for seed scenario {ss}",
                                       "sig": {"tag": "two-processes", "kind": kd}, "replay": {"suite": "sampling", "seed": ss, "mode": "subprocess", "kind": kd}})
            else:
                res.hist["fresh-interpreter-equal"] += 1
                res.evaluations += a.count('"create"')
                res.nontrivial.add(hashlib.sha1(a.encode()).hexdigest())
    # ... and searches that are stopped and RESUMED in a fresh interpreter (what is written to oracle.json must mean the same there)
    for k in range(subprocs):
        with tempdir("kth") as hd:
            batch = [(R.randrange(1 << 30), ("random", "hyperband", "bayes", "grid", "random", "hyperband")[j % 6], os.path.join(hd, f"h{j}")) for j in range(batch_n)]
            here = [json.dumps(trace_resumed(ss, kd, h, "whole"), default=str) for ss, kd, h in batch]
            env = dict(os.environ, PYTHONHASHSEED=str(2 + (batch[0][0] % 1000)), KT_REPO=REPO)
            p = subprocess.run([sys.executable, "-c",
                                f"import sys, json; sys.path.insert(0, {VERIF!r}); from harness import suite_sampling as s\n"
                                f"for ss, kd, h in {batch!r}: print('TRACE' + json.dumps(s.trace_resumed(ss, kd, h, 'second'), default=str))"],
                               capture_output=True, text=True, env=env, timeout=1200)
        out = [l for l in p.stdout.splitlines() if l.startswith("TRACE")]
        if len(out) != len(batch):
            res.errors.append(f"fresh-interpreter resume failed: {p.stderr[-300:]}")
            continue
        for (ss, kd, _h), a, b in zip(batch, here, out):
            res.scenarios += 1
            if b[5:] != a:
                res.violations.append({"pid": "C12", "what": f"{kd}: a search stopped and resumed in a fresh interpreter (another PYTHONHASHSEED) issues other trials than the same "
                                                             f"search resumed in the same process (scenario {ss}): {b[5:][:160]} vs {a[:160]}",
                                       "sig": {"tag": "resumed-in-new-process", "kind": kd}, "replay": {"suite": "sampling", "seed": ss, "mode": "subprocess-resume", "kind": kd}})
            else:
                res.hist["fresh-interpreter-resume-equal"] += 1
                res.evaluations += a.count('"create"')
                res.nontrivial.add(hashlib.sha1(("r" + a).encode()).hexdigest())
    try:
        out = run_driver(all_lines) if all_lines else []
    except Exception as e:
        res.errors.append(f"model driver unavailable: {e}")
        return res
    for start, lines, expect, doc in spans:
        compare(res, lines, expect, out[start:start + len(lines)], doc)
    return res


def replay(doc):
    res = Result("sampling")
    try:
        mode = doc["mode"]
        if mode == "random":
            lines, expect, d, tags = scenario_random(doc["seed"])
        elif mode in ("hyperband", "bayes"):
            lines, expect, d, tags = scenario_rvalues(doc["seed"], mode)
        elif mode.startswith("grow"):
            scenario_grow(doc["seed"], mode.split("-")[1])
        elif mode.startswith("samename"):
            scenario_samename(doc["seed"], mode.split("-")[1])
            return res
        elif mode == "determinism":
            a, b = trace_of(doc["seed"], doc["kind"]), trace_of(doc["seed"], doc["kind"])
            res.evaluations += len(a)
            if a != b:
                raise Violation("C12", f"{doc['kind']}: two runs with the same seed and schedule diverge", {"tag": "two-runs", "kind": doc["kind"]})
            if a != trace_of(doc["seed"], doc["kind"], perturb=True):
                raise Violation("C12", f"{doc['kind']}: the trials issued depend on the process-wide random generators", {"tag": "global-rng", "kind": doc["kind"]})
            return res
        elif mode == "subprocess":
            a = json.dumps(trace_of(doc["seed"], doc["kind"]), default=str)
            env = dict(os.environ, PYTHONHASHSEED=str(1 + (doc["seed"] % 1000)), KT_REPO=REPO)
            p = subprocess.run([sys.executable, "-c",
                                f"import sys, json; sys.path.insert(0, {VERIF!r}); from harness import suite_sampling as s; print('TRACE' + json.dumps(s.trace_of({doc['seed']}, {doc['kind']!r}), default=str))"],
                               capture_output=True, text=True, env=env, timeout=600)
            out = [l for l in p.stdout.splitlines() if l.startswith("TRACE")]
            res.evaluations += a.count('"create"')
            if out and out[0][5:] != a:
                raise Violation("C12", f"{doc['kind']}: a fresh interpreter with another PYTHONHASHSEED issues different trials for seed scenario {doc['seed']}", {"tag": "two-processes", "kind": doc["kind"]})
            return res
        elif mode == "subprocess-resume":
            with tempdir("kth") as hd:
                h = os.path.join(hd, "h")
                a = json.dumps(trace_resumed(doc["seed"], doc["kind"], h, "whole"), default=str)
                env = dict(os.environ, PYTHONHASHSEED=str(2 + (doc["seed"] % 1000)), KT_REPO=REPO)
                p = subprocess.run([sys.executable, "-c",
                                    f"import sys, json; sys.path.insert(0, {VERIF!r}); from harness import suite_sampling as s; "
                                    f"print('TRACE' + json.dumps(s.trace_resumed({doc['seed']}, {doc['kind']!r}, {h!r}, 'second'), default=str))"],
                                   capture_output=True, text=True, env=env, timeout=600)
            out = [l for l in p.stdout.splitlines() if l.startswith("TRACE")]
            res.evaluations += a.count('"create"')
            if out and out[0][5:] != a:
                raise Violation("C12", f"{doc['kind']}: a search stopped and resumed in a fresh interpreter (another PYTHONHASHSEED) issues other trials than the same search "
                                       f"resumed in the same process (scenario {doc['seed']})", {"tag": "resumed-in-new-process", "kind": doc["kind"]})
            return res
        else:
            return res
    except Violation as v:
        for x in [v] + list(getattr(v, "also", [])):
            res.violations.append({"pid": x.pid, "what": x.what, "sig": x.sig, "replay": doc})
        return res
    out = run_driver(lines) if lines else []
    compare(res, lines, expect, out, d)
    return res
