"""Suite `search` (C19, tuner-level part of C08): the real BaseTuner.search loop over every oracle kind with a
scripted run_trial (float / dict / list / NaN / ValueError / FailedTrialError / FatalError subclass /
interrupt). The event trace is compared with the Lean model of the loop (Search.search over the generic
oracle); monitors evaluate the C19 statement, the interrupt/resume clause and, with a crash before every
file write of the whole search, the C08 clauses at tuner level."""
import collections
import hashlib
import json
import os
import random

from harness import gen
from harness.common import Result, Violation, canon_vals, compare, fl_str, impl, quiet, run_driver, tempdir
from harness.suite_oracle import Crash, WriteGate

KINDS = ("random", "grid", "hyperband", "bayes")


class Interrupt(BaseException):
    pass


def make_script(R, n):
    out = []
    for _ in range(n):
        k = R.choice(["float", "float", "dict", "list", "nan", "raise", "failed", "float", "float"])
        v = R.choice([0, 1, 2, 3, -1, 5])
        out.append((k, v))
    return out


def build_tuner(kind, specs, d, cfg, script, log, overwrite=False):
    kt = impl()
    from keras_tuner import errors
    from keras_tuner.engine import base_tuner
    o = gen.make_oracle(random.Random(cfg["oseed"]), kind, specs, d, **cfg["over"])

    class Fatal(errors.FatalRuntimeError):
        pass

    class T(base_tuner.BaseTuner):
        def run_trial(self, trial, *a, **k):
            log.append(("start", trial.trial_id, canon_vals(trial.hyperparameters.values)))
            if not script:
                raise Interrupt()
            kind_, v = script.pop(0)
            if kind_ == "float":
                return float(v)
            if kind_ == "dict":
                return {"score": float(v), "other": 1.0}
            if kind_ == "list":
                # one result per execution, in any of the documented forms - also mixed, and with metric sets that differ
                # between the executions (the first one the richer): all of them are results, the trial is COMPLETED
                form = int(v) % 4
                if form == 0:
                    return [float(v), float(v)]
                if form == 1:
                    return [{"score": float(v), "aux": 1.0}, {"score": float(v)}]
                if form == 2:
                    return [{"score": float(v), "aux": 1.0}, float(v), {"score": float(v), "other": 2.0}]
                return [{"score": float(v)}, {"score": float(v), "aux": 3.0}]
            if kind_ == "nan":
                return float("nan")
            if kind_ == "raise":
                raise ValueError("scripted")
            if kind_ == "failed":
                raise errors.FailedTrialError("scripted")
            if kind_ == "fatal":
                raise Fatal("scripted")
            raise Interrupt()

        def on_trial_end(self, trial):
            log.append(("end", trial.trial_id, trial.status))
            super().on_trial_end(trial)

    t = quiet(T, oracle=o, directory=d, project_name="p", overwrite=overwrite)
    t.oracle.verbose = 0
    return t


def run_search(t, log):
    try:
        quiet(t.search)
        log.append(("stopped",))
        return "stopped"
    except Interrupt:
        log.append(("interrupt",))
        return "interrupt"
    except RuntimeError as e:
        if "consecutive" in str(e):
            log.append(("abort",))
            return "abort"
        if type(e).__name__ == "Fatal":
            log.append(("fatal",))
            return "fatal"
        raise


def trace_str(log):
    out = []
    for e in log:
        if e[0] == "start":
            out.append(f"start {int(e[1])}")
        elif e[0] == "end":
            out.append(f"end {int(e[1])} {e[2]}")
        else:
            out.append(e[0])
    return ";".join(out)


def monitor_c19(log, o, how):
    """every started trial is ended exactly once (unless fatal/interrupt leaves the loop), statuses mapped"""
    i = 0
    while i < len(log):
        e = log[i]
        if e[0] == "start":
            nxt = log[i + 1] if i + 1 < len(log) else None
            if nxt is None:
                raise Violation("C19", f"trial {e[1]} started but the trace ends: {log[-3:]}")
            if nxt[0] == "end":
                if nxt[1] != e[1]:
                    raise Violation("C19", f"trial {e[1]} started, {nxt[1]} ended")
                i += 2
                continue
            if nxt[0] in ("interrupt", "fatal"):
                i += 2
                continue
            raise Violation("C19", f"trial {e[1]} started and never ended: next event {nxt}")
        elif e[0] == "end":
            raise Violation("C19", f"trial {e[1]} ended without being started (or ended twice)")
        else:
            i += 1


def scenario(sseed, kind, mode):
    kt = impl()
    R = random.Random(sseed)
    lines, expect = [], []
    tags = collections.Counter()
    specs = gen.rand_specs(R, finite=(kind == "grid"), nonfixed=(kind == "bayes"), maxdepth=2)
    over = {}
    if kind == "hyperband":
        over = dict(max_epochs=R.randint(1, 6), factor=R.randint(2, 3), iterations=1)
    elif kind in ("random", "bayes"):
        over = dict(max_trials=R.randint(1, 6))
    cfg = dict(oseed=R.randrange(1 << 30), over=over)
    script0 = make_script(R, R.randint(2, 14))
    special = R.random()
    if special < 0.15:
        script0[R.randrange(len(script0))] = ("fatal", 0)
    elif special < 0.5:
        script0 = script0[: R.randint(0, len(script0))] + [("interrupt", 0)]
        if R.random() < 0.4:
            # the interrupt hits a RETRY attempt: the run before it failed (raised / NaN) and retries are allowed, so the
            # interrupted trial's file still says INVALID while the oracle file lists it as ongoing
            script0 = script0[:-1] + [R.choice([("raise", 0), ("nan", 0)]), ("interrupt", 0)]
            over["max_retries_per_trial"] = R.randint(1, 2)
            tags["interrupt-during-retry"] += 1
    doc = {"suite": "search", "seed": sseed, "kind": kind, "mode": mode}
    with tempdir("ktq") as d:
        log, pops = [], []
        script = list(script0)
        t = build_tuner(kind, specs, d, cfg, script, log)
        o = t.oracle
        real = o.populate_space

        def ps(trial_id):
            r = real(trial_id)
            pops.append(r)
            return r
        o.populate_space = ps
        created = []
        real_create = o.create_trial

        def ct(tuner_id):
            tr = real_create(tuner_id)
            created.append((tr.trial_id, tr.status, canon_vals(tr.hyperparameters.values) if tr.status == "RUNNING" else ""))
            return tr
        o.create_trial = ct
        how = run_search(t, log)
        tags["end-" + how] += 1
        monitor_c19(log, o, how)
        # status mapping: what the loop reported vs what run_trial did
        sc = list(script0)
        for e in log:
            if e[0] == "start":
                cur = sc.pop(0) if sc else ("interrupt", 0)
            elif e[0] == "end":
                want = {"float": "COMPLETED", "dict": "COMPLETED", "list": "COMPLETED", "nan": "COMPLETED", "raise": "INVALID", "failed": "FAILED"}.get(cur[0])
                if e[2] != want:
                    raise Violation("C19", f"run_trial behaviour {cur[0]} reported to the oracle as {e[2]}, expected {want}", {"tag": "status-mapping"})
        # model: the same loop over the generic oracle, fed with the implementation's populate answers
        mscript = []
        for k, v in script0:
            mscript.append({"float": ["ret", v], "dict": ["ret", v], "list": ["ret", v], "nan": ["ret"], "raise": ["raise"], "failed": ["failed"],
                            "fatal": ["fatal"], "interrupt": ["interrupt"]}[k])
        n_new = 0
        mpops = []
        for r in pops:
            if r["status"] == "RUNNING":
                vals = next((c[2] for c in created if c[1] == "RUNNING" and int(c[0]) == n_new), "?")
                mpops.append(dict(status="RUNNING", values=vals))
                n_new += 1
            else:
                mpops.append(dict(status=r["status"]))
        lines.append(dict(suite="oracle", op="search", max_trials=o.max_trials, max_retries=o.max_retries_per_trial,
                          max_consec=o.max_consecutive_failed_trials, script=mscript, pops=mpops, fuel=2000))
        sts = ",".join(tr.status for _, tr in sorted(o.trials.items()))
        if how in ("abort",):
            expect.append(None)     # the state after the aborting end_trial is not compared (DESIGN: abort is terminal)
        else:
            expect.append(trace_str(log) + " | " + sts)
        ntr = len(o.trials)
        if mode == "resume" and how == "interrupt":
            # C19: restart on the same directory with overwrite off
            tags["resumed"] += 1
            interrupted = next((e for e in reversed(log) if e[0] == "start"), None)
            tuner_file = os.path.exists(os.path.join(d, "p", "tuner0.json"))
            before = {tid: (tr.status, fl_str(tr.score)) for tid, tr in o.trials.items() if tid in o.end_order}
            log2 = []
            script2 = make_script(R, 20)
            # the restarted script may ask for another budget (extend a search, or cut it short): the budget is the one configured NOW
            cfg2 = cfg
            if o.max_trials and R.random() < 0.4:
                cfg2 = dict(cfg, over=dict(cfg["over"], max_trials=max(1, o.max_trials + R.choice([-2, -1, 1, 2, 3]))))
                tags["resumed-with-another-budget"] += 1
            t2 = build_tuner(kind, specs, d, cfg2, script2, log2)
            n_before = len(o.trials)
            N2 = cfg2["over"].get("max_trials", o.max_trials)
            if o.max_trials and tuner_file and (t2.oracle.max_trials != N2 or t2.remaining_trials != N2 - len(t2.oracle.trials)):
                raise Violation("C02", f"{kind}: search restarted with max_trials={N2} (it was {o.max_trials}; {len(t2.oracle.trials)} trials exist): the oracle's budget is "
                                       f"{t2.oracle.max_trials} and remaining_trials is {t2.remaining_trials}, not {N2} - {len(t2.oracle.trials)}", {"tag": "restart-budget", "kind": kind})
            # C02 (restart) / C19: trials that ended in the interrupted process went through on_trial_end, which saves the tuner;
            # the restarted tuner must know them and count them against the budget
            lost = [tid for tid in o.end_order if tid not in t2.oracle.trials]
            want_left = (N2 - len(o.trials)) if o.max_trials else None
            if o.end_order and (lost or (want_left is not None and t2.remaining_trials != want_left)):
                what = (f"{kind}: {len(o.end_order)} trial(s) had ended when the search was interrupted (max_trials={o.max_trials}, {len(o.trials)} trials exist); "
                        f"the restarted tuner (overwrite off) knows {sorted(t2.oracle.trials)} and reports remaining_trials={t2.remaining_trials}: "
                        f"a further full budget of distinct trials is started")
                v = Violation("C02", what, {"tag": "restart-forgets", "kind": kind})
                v.also = [Violation("C19", what, {"tag": "restart-forgets", "kind": kind})]
                raise v
            if tuner_file:
                first = None
                how2 = run_search(t2, log2)
                first = next((e for e in log2 if e[0] == "start"), None)
                # position of the LAST start (a retry attempt's start entry equals the first attempt's: same id and values)
                last_start = max((i_ for i_, e in enumerate(log) if e[0] == "start"), default=0)
                ended_int = interrupted and any(e[0] == "end" and e[1] == interrupted[1] for e in log[last_start:])
                if interrupted and not ended_int:
                    if first is None or (first[1], first[2]) != (interrupted[1], interrupted[2]):
                        raise Violation("C19", f"after the interrupt of trial {interrupted[1]} the resumed search starts with {first and first[:2]}", {"tag": "resume"})
                for tid, b in before.items():
                    tr = t2.oracle.trials.get(tid)
                    if tr is None or (tr.status, fl_str(tr.score)) != b:
                        raise Violation("C19", f"finished trial {tid} changed across the restart: {b} -> {tr and (tr.status, tr.score)}", {"tag": "resume"})
                if o.max_trials and len(t2.oracle.trials) > max(N2, n_before):
                    raise Violation("C02", f"{kind}: restarted with max_trials={N2} when {n_before} trials existed, the search ends with {len(t2.oracle.trials)} trials: budget exceeded after resume",
                                    {"tag": "restart-budget", "kind": kind})
                monitor_c19(log2, t2.oracle, how2)
            else:
                tags["resume-without-tuner-file"] += 1
            # overwrite on starts from nothing
            t3 = build_tuner(kind, specs, d, cfg, [], [], overwrite=True)
            if t3.oracle.trials or t3.oracle.start_order or t3.oracle.end_order:
                raise Violation("C19", "overwrite=True does not start from nothing", {"tag": "overwrite"})
        doc.update(config=dict(max_trials=o.max_trials, retries=o.max_retries_per_trial), script=[s[0] for s in script0], how=how, trials=ntr)
    return lines, expect, doc, tags


def crash_scenario(sseed, kind, res, its=None):
    """C08 at tuner level: crash before every file write (oracle.json, trial.json, tuner0.json) of a whole search"""
    kt = impl()
    R0 = random.Random(sseed)
    specs = gen.rand_specs(R0, finite=(kind == "grid"), nonfixed=(kind == "bayes"), maxdepth=2)
    its = its or R0.randint(1, 2)      # more than one sweep: the sweep counter is part of what a restart has to find again
    over = dict(max_epochs=R0.randint(1, 4 if its == 1 else 3), factor=2, iterations=its) if kind == "hyperband" else (dict(max_trials=R0.randint(1, 4)) if kind in ("random", "bayes") else dict(max_trials=R0.randint(2, 5)))
    if kind == "hyperband" and its == 2:
        over["max_consecutive_failed_trials"] = 6       # let most of these searches reach their second sweep
        specs.append({"name": "hf", "kind": "float", "conds": [], "lo": 0.0, "hi": 1.0, "step": None, "sampling": "linear", "default": None})   # ... and not run out of configurations
    cfg = dict(oseed=R0.randrange(1 << 30), over=over)
    script0 = make_script(R0, 90)
    gate = WriteGate()
    gate.install()
    try:
        with tempdir("ktw") as d:
            t = build_tuner(kind, specs, d, cfg, list(script0), [])
            how = run_search(t, [])
            W = gate.count
        found = []

        def one_crash(k):
            with tempdir("ktw") as d:
                gate.count = 0
                gate.budget = k
                log = []
                script = list(script0)
                crashed = False
                try:
                    t = build_tuner(kind, specs, d, cfg, script, log)
                    how = run_search(t, log)
                except Crash:
                    crashed = True
                gate.budget = None
                if not crashed:
                    return
                pdir = os.path.join(d, "p")
                disk_end, disk_state = [], {}
                if os.path.exists(os.path.join(pdir, "oracle.json")):
                    disk_end = json.load(open(os.path.join(pdir, "oracle.json")))["end_order"]
                    for tid in disk_end:
                        f = os.path.join(pdir, f"trial_{tid}", "trial.json")
                        st = json.load(open(f))
                        disk_state[tid] = (st["status"], fl_str(st["score"]) if st["score"] is not None else "-")
                tuner_file = os.path.exists(os.path.join(pdir, "tuner0.json"))
                # known finding F18 is the window before the FIRST write of the tuner file (one trial durably ended); a missing
                # tuner file later in the search is something else
                sig = {"window": "oracle-file-without-tuner-file"} if (len(disk_end) == 1 and not tuner_file) else {}
                log2 = []
                try:
                    t2 = build_tuner(kind, specs, d, cfg, script + make_script(R0, 40), log2)
                    how2 = run_search(t2, log2)
                except Exception as e:
                    raise Violation("C08", f"{kind}: restart after a crash before write {k + 1} fails: {type(e).__name__}: {str(e)[:100]}", {**sig, "tag": "restart-fails", "kind": kind})
                o2 = t2.oracle
                for tid, b in disk_state.items():
                    tr = o2.trials.get(tid)
                    now = (tr.status, fl_str(tr.score) if tr.score is not None else "-") if tr else None
                    if now != b:
                        raise Violation("C08", f"{kind}: trial {tid} durably ended as {b} is {now} after restart (crash before write {k + 1} of {W})", {**sig, "tag": "durable-changed", "kind": kind})
                if how2 == "stopped":
                    left = [tid for tid, tr in o2.trials.items() if tr.status == "RUNNING"]
                    if left:
                        v = Violation("C08", f"{kind}: trials {left} left RUNNING after the resumed search finished", {**sig, "tag": "left-running", "kind": kind})
                        # the same fact in the words of C19: a trial the loop started is, after the restart, neither recorded as ended nor run again
                        v.also = [Violation("C19", f"{kind}: the search loop started trial(s) {left}; the process died before write {k + 1} of {W}; the restarted search (overwrite off) "
                                                   "finishes without running them again and without an end on record: they stay RUNNING for good",
                                            {**sig, "tag": "left-running", "kind": kind})]
                        raise v
                if o2.max_trials and len(o2.trials) > o2.max_trials:
                    raise Violation("C08", f"{kind}: budget exceeded after restart", {**sig, "tag": "budget", "kind": kind})
                if kind == "grid" and how2 == "stopped" and not sig:
                    # "honoured in full": a grid search runs min(max_trials, number of combinations) trials, whatever their outcomes
                    from harness.enum_ref import enumerate_space
                    want = len(enumerate_space(specs))
                    want = min(want, o2.max_trials) if o2.max_trials else want
                    if len(o2.trials) < want:
                        raise Violation("C08", f"grid: after a crash before write {k + 1} of {W} and a restart the search is over (every request answered STOPPED) with "
                                               f"{len(o2.trials)} of {want} trials: the budget is not honoured in full", {**sig, "tag": "stopped-early", "kind": kind})
                if kind == "hyperband" and how2 == "stopped" and not sig:
                    from harness.suite_hyperband import round0_account
                    msg = round0_account(o2, gave_up=True)       # upper bound only: the budget of a Hyperband search is its schedule
                    if msg:
                        raise Violation("C08", f"hyperband: after a crash before write {k + 1} of {W} and a restart, {msg}", {**sig, "tag": "budget", "kind": kind})
                if len(set(o2.start_order)) != len(o2.start_order) or len(set(o2.end_order)) != len(o2.end_order):
                    raise Violation("C08", f"{kind}: duplicate ids after restart: start {o2.start_order} end {o2.end_order}", {**sig, "tag": "dup", "kind": kind})
                monitor_c19(log2, o2, how2)
                res.nontrivial.add(hashlib.sha1(f"{sseed}-{k}".encode()).hexdigest())
                res.evaluations += 1
        for k in range(W + 1):
            res.scenarios += 1
            try:
                one_crash(k)
            except Violation as v:
                # one crash point failing (e.g. the window of a known finding) must not hide the others
                for x in [v] + list(getattr(v, "also", [])):
                    if not any((y.pid, y.sig) == (x.pid, x.sig) for y in found):
                        found.append(x)
        if found:
            found[0].also = found[1:]
            raise found[0]
    finally:
        gate.remove()


def writes_scenario(sseed, res, lines, expect):
    """The file-level model of a tuner's search (Ktm/TunerFile.lean) against the real write sequence: a single tuner, every
    attempt succeeds; the writes to oracle.json (with the number of ended trials in it) and to the tuner file are those of the
    model, and after a crash before any write the restarted tuner knows what the model says it knows."""
    R0 = random.Random(sseed)
    kind = R0.choice(["random", "random", "grid", "bayes"])
    specs = gen.rand_specs(R0, finite=True, nonfixed=(kind == "bayes"), maxdepth=1, top=(2, 3))
    n = R0.randint(1, 4)
    cfg = dict(oseed=R0.randrange(1 << 30), over=dict(max_trials=n))
    script0 = [("float", R0.choice([0, 1, 2, 3]))] * 12
    gate = WriteGate()
    gate.install()

    def proj(tr):
        return [f"o{e}" if f == "oracle.json" else "t" for f, e in tr if f in ("oracle.json", "tuner0.json")]
    try:
        with tempdir("ktw") as d:
            gate.trace = []
            t = build_tuner(kind, specs, d, cfg, list(script0), [])
            how = run_search(t, [])
            full = list(gate.trace)
            ran = len(t.oracle.trials)
        if how != "stopped" or ran != len(t.oracle.end_order):
            return False
        P = proj(full)
        lines.append(dict(suite="tunerfile", op="writes", n=ran))
        want_tail = [x for x in P[4 * ran:] if x not in (f"o{ran}", "t")]
        expect.append(",".join(P[:4 * ran]) if not want_tail else "unexpected writes after the last trial: " + ",".join(P[4 * ran:]))
        for k in range(len(full) + 1):
            with tempdir("ktw") as d:
                gate.count, gate.budget, gate.trace = 0, k, []
                try:
                    t = build_tuner(kind, specs, d, cfg, list(script0), [])
                    run_search(t, [])
                except Crash:
                    pass
                gate.budget = None
                kp = len(proj(gate.trace))
                gate.trace = None
                pdir = os.path.join(d, "p")
                ended = len(json.load(open(os.path.join(pdir, "oracle.json")))["end_order"]) if os.path.exists(os.path.join(pdir, "oracle.json")) else 0
                tf = os.path.exists(os.path.join(pdir, "tuner0.json"))
                t2 = build_tuner(kind, specs, d, cfg, [], [])
                knows = len(t2.oracle.end_order)
            if kp > 4 * ran:
                continue
            lines.append(dict(suite="tunerfile", op="restart", n=ran, k=kp))
            expect.append(f"ended={ended} tunerfile={'true' if tf else 'false'} knows={knows}")
            res.evaluations += 1
    finally:
        gate.remove()
    return True


def run(seed, tier, n=None, kinds=KINDS, crash_n=None):
    res = Result("search")
    res.rule = ("scripted BaseTuner.search runs over the four oracle kinds (2-14 attempts: float / dict / list / NaN / ValueError / "
                "FailedTrialError / FatalError / interrupt, random retry and streak limits); half of the interrupted ones are resumed with "
                "overwrite off and then on; plus whole-search crash enumeration (crash before every file write, restart, finish); "
                "non-trivial = search with an error outcome, or a crash-restart; distinct by scenario hash")
    n = n or (160 if tier == "quick" else 3000)
    crash_n = crash_n if crash_n is not None else (6 if tier == "quick" else 80)
    R = random.Random(seed ^ 0xC19)
    all_lines, spans = [], []
    for i in range(n):
        kind = kinds[i % len(kinds)]
        if kind == "bayes" and tier == "quick" and i % 8 != 3:
            kind = "random"
        mode = "resume" if i % 2 else "plain"
        sseed = R.randrange(1 << 30)
        res.scenarios += 1
        try:
            lines, expect, doc, tags = scenario(sseed, kind, mode)
        except Violation as v:
            for x in [v] + list(getattr(v, "also", [])):
                res.violations.append({"pid": x.pid, "what": x.what, "sig": x.sig, "replay": {"suite": "search", "seed": sseed, "kind": kind, "mode": mode}})
            continue
        res.hist.update(tags)
        res.hist["kind-" + kind] += 1
        spans.append((len(all_lines), lines, expect, doc))
        all_lines += lines
        if any(s in ("raise", "failed", "nan", "fatal", "interrupt") for s in doc["script"]):
            res.nontrivial.add(hashlib.sha1(json.dumps(doc, sort_keys=True, default=str).encode()).hexdigest())
        if len(res.samples) < 2 and doc["trials"] >= 2:
            res.samples.append({"scenario": doc, "impl_trace": expect[0]})
    for i in range(crash_n):
        # the suite runs in pieces (piece number = seed % 1000) of one or two crash-enumerated searches each: the kind rotates with the piece
        piece = seed % 1000
        kind = kinds[(piece + i) % len(kinds)]
        if kind == "bayes":
            kind = "random"
        sseed = R.randrange(1 << 30)
        its = 1 + (piece + i // len(kinds)) % 2
        try:
            crash_scenario(sseed, kind, res, its=its)
            res.hist["crash-enumerated-searches"] += 1
        except Violation as v:
            for x in [v] + list(getattr(v, "also", [])):
                res.violations.append({"pid": x.pid, "what": x.what, "sig": x.sig, "replay": {"suite": "search", "seed": sseed, "kind": kind, "mode": "crash", "its": its}})
    for i in range(2 if tier == "quick" else 20):
        sseed = R.randrange(1 << 30)
        lines, expect = [], []
        res.scenarios += 1
        if writes_scenario(sseed, res, lines, expect):
            res.hist["write-sequences-compared"] += 1
            spans.append((len(all_lines), lines, expect, {"suite": "search", "seed": sseed, "mode": "writes"}))
            all_lines += lines
    try:
        out = run_driver(all_lines) if all_lines else []
    except Exception as e:
        res.errors.append(f"model driver unavailable: {e}")
        return res
    for start, lines, expect, doc in spans:
        compare(res, lines, expect, out[start:start + len(lines)], doc)
    return res


def replay(doc):
    res = Result("search")
    try:
        if doc.get("mode") == "writes":
            lines, expect = [], []
            writes_scenario(doc["seed"], res, lines, expect)
            out = run_driver(lines) if lines else []
            compare(res, lines, expect, out, doc)
            return res
        if doc.get("mode") == "crash":
            crash_scenario(doc["seed"], doc["kind"], res, its=doc.get("its"))
            return res
        lines, expect, d, tags = scenario(doc["seed"], doc["kind"], doc["mode"])
    except Violation as v:
        for x in [v] + list(getattr(v, "also", [])):
            res.violations.append({"pid": x.pid, "what": x.what, "sig": x.sig, "replay": doc})
        return res
    out = run_driver(lines)
    compare(res, lines, expect, out, d)
    return res
