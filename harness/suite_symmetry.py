"""Suite `symmetry` (C04, second clause): every oracle kind is run twice on the same space, seed and
schedule — once maximising the reported scores s, once minimising -s. The issued trials (ids, values,
Hyperband labels), the statuses and every get_best_trials answer must coincide."""
import hashlib
import json
import random

from harness import gen
from harness.common import Result, Violation, impl, tempdir
from harness.sched import run_schedule

KINDS = ("random", "grid", "hyperband", "bayes")


def one(sseed, kind, direction):
    kt = impl()
    R = random.Random(sseed)
    with tempdir("kts") as d:
        specs = gen.rand_specs(R, finite=(kind == "grid"), nonfixed=(kind == "bayes"))
        over = {}
        focus = kind == "bayes" and R.random() < 0.7
        if focus:
            # the Gaussian-process phase with trials in flight: several tuners, a budget well past the warm-up, mostly
            # successful runs - the model is then fitted on completed scores AND on pessimistic guesses for running trials
            over = dict(max_trials=R.randint(5, 9), num_initial_points=R.randint(1, 2), max_retries_per_trial=0, max_consecutive_failed_trials=9)
        o = gen.make_oracle(R, kind, specs, d, objective=kt.Objective("score", direction), **over)
        # tie-heavy scores so that the tie-breaking of sorted(..., reverse=True) matters
        sc = lambda R_, t: float(R_.choice([0, 1, 1, 2, 2, 3, -1, 0.5]))
        if focus:
            return run_schedule(o, R, steps=R.randint(30, 70), ntuners=R.randint(2, 3), score_of=sc, outcomes=["C", "C", "C", "C", "INV"],
                                sign=(1.0 if direction == "max" else -1.0), best_every=0.1, fair_finish=True)
        return run_schedule(o, R, steps=R.randint(10, 70), score_of=sc, sign=(1.0 if direction == "max" else -1.0),
                            best_every=0.15, fair_finish=(kind != "random"))


def scenario(sseed, kind):
    a = one(sseed, kind, "max")
    b = one(sseed, kind, "min")
    if a != b:
        i = next((i for i, (x, y) in enumerate(zip(a, b)) if x != y), min(len(a), len(b)))
        raise Violation("C04", f"{kind}: maximising s and minimising -s diverge at step {i}: {a[i] if i < len(a) else None} vs {b[i] if i < len(b) else None}",
                        {"kind": kind, "clause": "symmetry"})
    return a


def run(seed, tier, n=None, kinds=KINDS):
    res = Result("symmetry")
    res.rule = ("each scenario = one space + seed + schedule (1-4 tuners, tie-heavy scores, failures, get_best_trials queries) run twice "
                "on the real oracle: (max, s) and (min, -s); traces must be identical; non-trivial = trace with >= 3 completed trials "
                "and a best query (for Hyperband: a promotion); distinct by trace hash")
    n = n or (80 if tier == "quick" else 1200)
    R = random.Random(seed ^ 0xC04)
    for i in range(n):
        kind = kinds[i % len(kinds)]
        sseed = R.randrange(1 << 30)
        res.scenarios += 1
        try:
            tr = scenario(sseed, kind)
        except Violation as v:
            res.violations.append({"pid": v.pid, "what": v.what, "sig": v.sig, "replay": {"suite": "symmetry", "kind": kind, "seed": sseed}})
            continue
        res.evaluations += len(tr)
        res.hist["kind-" + kind] += 1
        ncomp = sum(1 for e in tr if e[0] == "end" and e[4] == "COMPLETED")
        promo = any(e[0] == "create" and '"tuner/trial_id"' in (e[4] or "") for e in tr)
        if promo:
            res.hist["hyperband-promotion"] += 1
        if ncomp >= 3 and any(e[0] == "best" for e in tr) and (kind != "hyperband" or promo):
            res.nontrivial.add(hashlib.sha1(json.dumps(tr, default=str).encode()).hexdigest())
        if len(res.samples) < 2 and ncomp >= 3:
            res.samples.append({"kind": kind, "seed": sseed, "trace_head": tr[:8]})
    return res


def replay(doc):
    res = Result("symmetry")
    try:
        scenario(doc["seed"], doc["kind"])
    except Violation as v:
        res.violations.append({"pid": v.pid, "what": v.what, "sig": v.sig, "replay": doc})
    return res
