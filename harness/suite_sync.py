"""Suite `sync` (C17): the real `synchronized` wrapper under a deterministic cooperative scheduler. The
harness replaces, in the namespace of keras_tuner.engine.oracle, the `threading` module (so that the lock
factory and currentThread() go through the scheduler), the THREADS table and the creation guard; real Python
threads run one at a time, a schedule (list of thread ids) decides who performs the next shared operation.
The executed schedule is replayed on the Lean model (Ktm/Sync.lean) and every intermediate state compared;
monitors: overlap of critical sections, lost updates (state = sequential order of the writes), liveness of
the others after a call raised, no deadlock, re-entrant calls, independence of different oracles. A second
part drives real oracles (create_trial / end_trial) from several scheduled threads."""
import collections
import hashlib
import json
import random
import threading

from harness.common import Result, Violation, compare, impl, quiet, run_driver, tempdir


class Sched:
    """one thread runs at a time; `point` hands control back to the controller"""

    def __init__(self):
        self.cv = threading.Condition()
        self.turn = None
        self.waiting = {}        # tid -> (label, lock)
        self.finished = set()
        self.tids = {}           # thread ident -> tid
        self.errors = {}
        self.nested_depth = collections.Counter()

    def me(self):
        return self.tids.get(threading.get_ident())

    def point(self, label, lock=None):
        tid = self.me()
        if tid is None:
            return
        with self.cv:
            self.waiting[tid] = (label, lock)
            self.turn = None
            self.cv.notify_all()
            while self.turn != tid:
                self.cv.wait()
            del self.waiting[tid]

    def grant(self, tid):
        """let thread `tid` perform the operation it waits for; returns when it waits again or has finished"""
        with self.cv:
            self.turn = tid
            self.cv.notify_all()
            while not ((tid in self.waiting and self.turn is None) or tid in self.finished):
                if not self.cv.wait(timeout=20):
                    raise RuntimeError(f"scheduler: thread {tid} neither reached a scheduling point nor finished")

    def spawn(self, tid, fn):
        def run():
            self.tids[threading.get_ident()] = tid
            self.point("start")
            try:
                fn()
            except BaseException as e:  # noqa
                self.errors[tid] = e
            with self.cv:
                self.finished.add(tid)
                self.turn = None
                self.cv.notify_all()
        th = threading.Thread(target=run, name=f"T{tid}", daemon=True)
        th.start()
        with self.cv:
            while tid not in self.waiting:
                self.cv.wait()
        return th


class SLock:
    """a non-reentrant lock whose acquire / release are scheduling points"""

    def __init__(self, sched, label):
        self.sched, self.label, self.owner = sched, label, None
        self.stat = {"acquires": 0}

    def acquire(self, *a, **k):
        self.sched.point(self.label + "-acquire", self)
        if self.owner is not None:
            raise RuntimeError("scheduler granted a held lock")
        self.owner = self.sched.me() if self.sched.me() is not None else -1
        self.stat["acquires"] += 1
        return True

    def release(self):
        self.sched.point(self.label + "-release", self)
        if self.owner is None:
            raise RuntimeError("release unlocked lock")
        self.owner = None

    def locked(self):
        return self.owner is not None

    __enter__ = acquire

    def __exit__(self, *a):
        self.release()


class Shim:
    """stands in for the `threading` module inside keras_tuner.engine.oracle"""

    def __init__(self, sched):
        self.sched = sched
        self.locks = []

    def Lock(self):
        self.sched.point("factory")
        l = SLock(self.sched, "lock")
        self.locks.append(l)
        return l

    def currentThread(self):
        return threading.current_thread()

    current_thread = currentThread

    def __getattr__(self, k):
        return getattr(threading, k)


class Table(collections.defaultdict):
    """THREADS with scheduling points on read and write"""

    def __init__(self, sched):
        super().__init__(lambda: None)
        self.sched = sched

    def __getitem__(self, k):
        self.sched.point("owner-read")
        return super().__getitem__(k)

    def __missing__(self, k):
        dict.__setitem__(self, k, None)      # the default is part of the read, not a separate shared operation
        return None

    def __setitem__(self, k, v):
        self.sched.point("owner-write" if v is not None else "owner-clear")
        super().__setitem__(k, v)


class Patch:
    def __init__(self):
        impl()
        from keras_tuner.engine import oracle as om
        self.om = om
        self.sched = Sched()
        self.shim = Shim(self.sched)
        self.saved = {k: getattr(om, k) for k in ("threading", "LOCKS", "THREADS") if hasattr(om, k)}
        if hasattr(om, "LOCKS_GUARD"):
            self.saved["LOCKS_GUARD"] = om.LOCKS_GUARD
            om.LOCKS_GUARD = SLock(self.sched, "guard")
        om.threading = self.shim
        om.LOCKS = collections.defaultdict(lambda: om.threading.Lock())
        om.THREADS = Table(self.sched)
        om.print = lambda *a, **k: None      # "Trial failed n times" lines of _retry

    def undo(self):
        for k, v in self.saved.items():
            setattr(self.om, k, v)
        if "print" in self.om.__dict__:
            del self.om.print


LABELLED = {"owner-read": "read-owner", "lock-acquire": "acquire", "owner-write": "set-owner", "body-read": "read",
            "body-write": "write", "owner-clear": "clear-owner", "lock-release": "release"}


def f(t, s):
    return 3 * s + t + 1


def scenario(sseed, nested=False):
    """n threads call a synchronized read-modify-write method of one object; random schedule"""
    R = random.Random(sseed)
    p = Patch()
    sched, om = p.sched, p.om
    n = R.randint(2, 4)
    calls = {t: [R.random() < 0.2 for _ in range(R.randint(1, 3))] for t in range(n)}    # True = this call raises
    try:
        class Box:
            def __init__(self):
                self.x = 0

            @om.synchronized
            def bump(self, t, raise_):
                sched.point("body-read")
                if raise_:
                    raise ValueError("scripted")
                v = self.x
                if nested:
                    sched.nested_depth[t] = 1
                    self.peek()            # re-entrant synchronized call from the same thread
                    sched.nested_depth[t] = 0
                sched.point("body-write")
                self.x = f(t, v)

            @om.synchronized
            def peek(self):
                return self.x

        box = Box()
        other = Box()
        raised = collections.Counter()

        def worker(t):
            def run():
                for r in calls[t]:
                    try:
                        box.bump(t, r)
                    except ValueError:
                        raised[t] += 1
            return run
        for t in range(n):
            sched.spawn(t, worker(t))
        executed, trace = [], []
        in_cs = {}
        writes = []
        steps = 0
        progress_guard = 0
        while len(sched.finished) < n and steps < 4000:
            steps += 1
            alive = [t for t in range(n) if t not in sched.finished]
            t = R.choice(alive)
            # run thread t up to and including its next labelled operation
            did = None
            for _ in range(12):
                if t in sched.finished:
                    break
                label, lock = sched.waiting[t]
                if label.endswith("-acquire") and lock.owner is not None:
                    did = "blocked"
                    break
                if label in LABELLED and not sched.nested_depth[t]:
                    if did is not None:
                        break
                    did = label
                    if label == "lock-acquire":
                        in_cs[t] = True
                        if sum(in_cs.values()) > 1:
                            raise Violation("C17", f"threads {sorted(k for k, v in in_cs.items() if v)} are inside the critical section together (schedule seed {sseed})", {"tag": "overlap"})
                    if label == "lock-release":
                        in_cs[t] = False
                    if label == "body-write":
                        writes.append(t)
                    will_raise = False
                    if label == "body-read":
                        idx = len(calls[t]) - sum(1 for _ in [0])  # placeholder
                    sched.grant(t)
                    # did the body raise at this read? (then the next labelled op of t is the clear / idle)
                    executed.append([t, label])
                else:
                    sched.grant(t)      # start / guard / factory: silent for the model
            if did == "blocked" or did is None:
                progress_guard += 1
                if progress_guard > 400:
                    blocked = {u: sched.waiting.get(u) for u in alive}
                    raise Violation("C17", f"no thread can make progress: {[(u, w[0]) for u, w in blocked.items() if w]} (a call that raised left the lock held, or deadlock)", {"tag": "wedge"})
            else:
                progress_guard = 0
        if steps >= 4000:
            raise Violation("C17", "schedule does not terminate", {"tag": "wedge"})
        for t, e in sched.errors.items():
            raise Violation("C17", f"thread {t} died with {type(e).__name__}: {e}", {"tag": "thread-error"})
        # monitors on the final state
        exp = 0
        for t in writes:
            exp = f(t, exp)
        if box.x != exp:
            raise Violation("C17", f"final state {box.x} is not the result of the writes in order {writes} ({exp}): lost update", {"tag": "lost-update"})
        locks = [l for l in p.shim.locks]
        if any(l.locked() for l in locks) or any(v is not None for v in dict.values(om.THREADS)):
            raise Violation("C17", "after all calls ended (some raised) the oracle is still locked / owned", {"tag": "wedge"})
        if len(locks) > 1:
            raise Violation("C17", f"{len(locks)} locks were created for one object", {"tag": "two-locks"})
        # model replay: convert the executed labelled operations into (thread, raise) steps
        msteps = []
        callidx = collections.Counter()
        for t, label in executed:
            if label == "body-read":
                r = calls[t][callidx[t]]
                callidx[t] += 1
                msteps.append([t, bool(r)])
            else:
                msteps.append([t, False])
        doc = {"suite": "sync", "seed": sseed, "threads": n, "calls": {str(k): v for k, v in calls.items()}, "nested": nested, "steps": len(msteps)}
        line = dict(suite="sync", op="run", threads=n, s0=0, sched=msteps)
        expect_tail = f" final={box.x} seq={exp} log={writes}"
    finally:
        p.undo()
    return line, expect_tail, doc


def independence_scenario():
    """different objects do not block each other: while thread 0 sits inside a call on `a`, thread 1 runs a
    whole call on `b`"""
    p = Patch()
    sched, om = p.sched, p.om
    try:
        class Box:
            def __init__(self):
                self.x = 0

            @om.synchronized
            def bump(self, t):
                sched.point("body-read")
                v = self.x
                sched.point("body-write")
                self.x = f(t, v)
        a, b = Box(), Box()
        sched.spawn(0, lambda: a.bump(0))
        sched.spawn(1, lambda: b.bump(1))
        for _ in range(30):                      # thread 0 up to the middle of its body
            if sched.waiting.get(0, ("",))[0] == "body-write":
                break
            sched.grant(0)
        for _ in range(60):
            if 1 in sched.finished:
                break
            label, lock = sched.waiting[1]
            if label.endswith("-acquire") and lock.owner is not None and label.startswith("lock"):
                raise Violation("C17", "a call on one object is blocked by a call running on a different object", {"tag": "cross-blocking"})
            sched.grant(1)
        if 1 not in sched.finished or b.x != f(1, 0):
            raise Violation("C17", "a call on a second object did not complete while the first object was locked", {"tag": "cross-blocking"})
        while 0 not in sched.finished:
            sched.grant(0)
    finally:
        p.undo()


def independence_scenario3():
    """... also while a third thread is queued on the busy object: thread 0 sits inside a call on `a`, thread 2 waits
    for `a`'s lock, and thread 1 must still run a whole call on `b` (no global lock may be held while waiting)"""
    p = Patch()
    sched, om = p.sched, p.om
    try:
        class Box:
            def __init__(self):
                self.x = 0

            @om.synchronized
            def bump(self, t):
                sched.point("body-read")
                v = self.x
                sched.point("body-write")
                self.x = f(t, v)
        a, b = Box(), Box()
        sched.spawn(0, lambda: a.bump(0))
        sched.spawn(2, lambda: a.bump(2))
        sched.spawn(1, lambda: b.bump(1))
        for _ in range(30):                      # thread 0 up to the middle of its body
            if sched.waiting.get(0, ("",))[0] == "body-write":
                break
            sched.grant(0)
        for _ in range(30):                      # thread 2 up to the point where it waits for a held lock
            label, lock = sched.waiting[2]
            if label.endswith("-acquire") and lock is not None and lock.owner is not None:
                break
            sched.grant(2)
        else:
            raise Violation("C17", "a second call on a busy object was not made to wait", {"tag": "overlap"})
        for _ in range(60):
            if 1 in sched.finished:
                break
            label, lock = sched.waiting[1]
            if label.endswith("-acquire") and lock is not None and lock.owner is not None:
                raise Violation("C17", f"a call on one object is blocked ({label} held by thread {lock.owner}) while another thread is merely "
                                       "waiting for a different, busy object", {"tag": "cross-blocking"})
            sched.grant(1)
        if 1 not in sched.finished or b.x != f(1, 0):
            raise Violation("C17", "a call on a second object did not complete while a thread was queued on the first, busy object", {"tag": "cross-blocking"})
        while 0 not in sched.finished:
            sched.grant(0)
        while 2 not in sched.finished:
            sched.grant(2)
        if a.x != f(2, f(0, 0)):
            raise Violation("C17", "queued call lost or applied out of order", {"tag": "lost-update"})
    finally:
        p.undo()


def oracle_scenario(sseed):
    """real oracles driven from several scheduled threads: the result must equal some sequential order"""
    from harness import gen
    R = random.Random(sseed)
    p = Patch()
    sched = p.sched
    try:
        with tempdir("kty") as d:
            specs = gen.rand_specs(R, finite=False, maxdepth=1)
            o = gen.make_oracle(R, "random", specs, d, max_trials=R.randint(3, 8), max_retries_per_trial=0, max_consecutive_failed_trials=2)
            n = R.randint(2, 3)
            results = collections.defaultdict(list)
            plans = {t: [R.choice(["C", "C", "FAIL"]) for _ in range(R.randint(1, 3))] for t in range(n)}

            def worker(t):
                def run():
                    for oc in plans[t]:
                        tr = o.create_trial(f"w{t}")
                        results[t].append(("create", tr.trial_id, tr.status))
                        if tr.status != "RUNNING":
                            continue
                        if oc == "C":
                            o.update_trial(tr.trial_id, {"score": float(t)}, step=0)
                            tr.status = "COMPLETED"
                        else:
                            tr.status = "FAILED"
                        try:
                            o.end_trial(tr)
                            results[t].append(("end", tr.trial_id, o.trials[tr.trial_id].status))
                        except RuntimeError as e:
                            results[t].append(("abort", tr.trial_id, "ABORT"))
                            return
                return run
            for t in range(n):
                sched.spawn(t, worker(t))
            steps, stuck = 0, 0
            while len(sched.finished) < n and steps < 20000:
                steps += 1
                alive = [t for t in range(n) if t not in sched.finished]
                t = R.choice(alive)
                label, lock = sched.waiting[t]
                if label.endswith("-acquire") and lock.owner is not None:
                    stuck += 1
                    if stuck > 2000:
                        raise Violation("C17", f"oracle calls from {n} threads: no thread can make progress (lock left held after an exception?)", {"tag": "wedge"})
                    continue
                stuck = 0
                sched.grant(t)
            for t, e in sched.errors.items():
                raise Violation("C17", f"oracle thread {t} died with {type(e).__name__}: {str(e)[:100]}", {"tag": "thread-error"})
            ids = [r[1] for t in results for r in results[t] if r[0] == "create" and r[2] == "RUNNING"]
            if len(ids) != len(set(ids)):
                raise Violation("C17", f"the same trial id was handed to two threads: {sorted(ids)}", {"tag": "duplicate-id"})
            if sorted(o.start_order) != sorted(set(ids)) or len(o.trials) != len(set(ids)):
                raise Violation("C17", f"oracle state {o.start_order} does not match the trials handed out {sorted(ids)}", {"tag": "state"})
    finally:
        p.undo()
    return len(ids)


def _touching(cls, names):
    base = cls.__mro__[1]
    for nm in names:
        def mk(nm):
            orig = getattr(base, nm)

            def m(self, *a, **k):
                h = self.__dict__.get("_hook")
                if h is not None:
                    h(nm)
                return orig(self, *a, **k)
            return m
        setattr(cls, nm, mk(nm))


class TList(list):
    """a list whose every access may be a scheduling point (see lin_scenario)"""


class TDict(dict):
    """a dict whose every access may be a scheduling point"""


_touching(TList, ["append", "pop", "insert", "remove", "extend", "index", "__getitem__", "__setitem__", "__iter__", "__len__", "__contains__"])
_touching(TDict, ["__getitem__", "__setitem__", "__contains__", "__iter__", "__len__", "items", "values", "keys", "get", "pop"])

LIN_KINDS = ("grid", "hyperband", "random", "grid", "hyperband")


def _lin_oracle(kind, d, oseed):
    from harness import gen
    specs = gen.rand_specs(random.Random(oseed), finite=(kind == "grid"), maxdepth=1, top=(1, 2))
    over = dict(max_retries_per_trial=1, max_consecutive_failed_trials=3, seed=oseed % 1000)
    if kind == "hyperband":
        # small brackets, so that promotions (which read the status and score of other threads' trials) come early
        over.update(max_epochs=3 if oseed % 2 else 4, factor=3 if oseed % 2 else 2, iterations=1)
    else:
        over.update(max_trials=8)
    return gen.make_oracle(random.Random(oseed), kind, specs, d, **over)


class LinProg:
    """thread t's calls, one per step(): create / report / end (with a worker's copy, with a copy that declares a new entry,
    or in the legacy form end_trial(trial_id, status))"""

    def __init__(self, o, t, plan, results):
        self.o, self.t, self.plan, self.results = o, t, plan, results
        self.i, self.phase, self.tr = 0, "create", None

    @property
    def done(self):
        return self.i >= len(self.plan)

    def step(self):
        from keras_tuner.engine import trial as trial_module
        from harness.common import canon_vals
        o, oc = self.o, self.plan[self.i]
        if self.phase == "create":
            tr = o.create_trial(f"w{self.t}")
            self.results.append(["create", tr.trial_id, tr.status, canon_vals(tr.hyperparameters.values) if tr.status == "RUNNING" else ""])
            if tr.status != "RUNNING":
                self.i += 1
                return
            self.tr = tr
            self.phase = "update" if oc["status"] == "COMPLETED" else "end"
            return
        tid = self.tr.trial_id
        if self.phase == "update":
            o.update_trial(tid, {"score": oc["score"]}, step=0)
            self.results.append(["update", tid])
            self.phase = "end"
            return
        try:
            if oc["form"] == "legacy":
                o.end_trial(tid, oc["status"])
            elif oc["form"] == "legacy-kw":
                o.end_trial(trial_id=tid, status=oc["status"])
            elif oc["form"] == "legacy-bad":
                o.end_trial(trial_id=tid)        # an old-style call that forgets the status: a TypeError for the caller, nothing else
            else:
                c = trial_module.Trial(hyperparameters=self.tr.hyperparameters.copy(), trial_id=tid, status=oc["status"])
                if oc["form"] == "declare":
                    c.hyperparameters.Int("late", 0, 1, default=0)
                o.end_trial(c)
            st = dict.get(o.trials, tid)
            self.results.append(["end", tid, st.status, "-" if st.score is None else repr(float(st.score))])
            self.i += 1
            self.phase = "create"
        except RuntimeError:
            self.results.append(["abort", tid])
            self.i = len(self.plan)
        except Exception as e:      # e.g. a comparison with a score that is not there yet
            self.results.append(["error", tid, type(e).__name__])
            self.i = len(self.plan)


def _lin_state(o):
    from harness.common import canon_vals
    trials = []
    for tid in sorted(dict.keys(o.trials)):
        tr = dict.get(o.trials, tid)
        trials.append([tid, tr.status, "-" if tr.score is None else repr(float(tr.score)), canon_vals(tr.hyperparameters.values)])
    st = {"trials": trials, "start": [x for x in list.__iter__(o.start_order)], "end": [x for x in list.__iter__(o.end_order)],
          "ongoing": sorted((k, v.trial_id) for k, v in dict.items(o.ongoing_trials)),
          "space": sorted(hp.name for hp in o.hyperparameters.space)}
    if hasattr(o, "_populate_next"):
        st["grid_queue"] = [x for x in list.__iter__(o._populate_next)]
        st["grid_order"] = o._ordered_ids.to_list()
    if hasattr(o, "_brackets"):
        st["brackets"] = json.dumps([x for x in list.__iter__(o._brackets)], sort_keys=True)
    return st


def _lin_invariant(o):
    """what every state BETWEEN calls of a sequential execution satisfies (C01's lifecycle facts); evaluated whenever no thread
    holds the oracle's lock: a call that has not taken the lock yet must not have left a trace"""
    ongoing = {v.trial_id for v in dict.values(o.ongoing_trials)}
    ended = [x for x in list.__iter__(o.end_order)]
    for tid in dict.keys(o.trials):
        tr = dict.get(o.trials, tid)
        if tid in ongoing and tr.status != "RUNNING":
            return f"trial {tid} is held by a worker (ongoing) but its status is {tr.status}"
        if tr.status == "COMPLETED" and tr.score is None:
            return f"trial {tid} is COMPLETED without a score"
        if tr.status in ("COMPLETED", "FAILED") and tid not in ended:
            return f"trial {tid} is {tr.status} but not in the end order"
    return None


def _lin_sequential(kind, oseed, plans, order):
    """the same programs, one whole call at a time in the given order of threads: (threads not yet done, results, state);
    None when the order asks a thread for a call it does not make"""
    with tempdir("ktz") as d:
        o = _lin_oracle(kind, d, oseed)
        results = {t: [] for t in plans}
        progs = {t: LinProg(o, t, plans[t], results[t]) for t in plans}
        for t in order:
            if progs[t].done:
                return None
            progs[t].step()
        return [t for t in sorted(plans) if not progs[t].done], results, _lin_state(o)


def lin_scenario(sseed):
    """C17 on the real oracles, statement evaluated literally: the calls of 2-3 threads on one grid / Hyperband / random
    oracle, under a schedule that may preempt a thread at every lock operation AND at every access to the oracle's shared
    containers made outside the critical section; the results of all calls and the final state must be those of SOME
    sequential order of the calls (first candidate: the order in which the calls took the lock; then all orders)."""
    R = random.Random(sseed)
    kind = LIN_KINDS[sseed % len(LIN_KINDS)]
    oseed = R.randrange(1 << 20)
    n = 2 if R.random() < 0.7 else 3
    plans = {}
    for t in range(n):
        plans[t] = []
        for _ in range((R.randint(2, 3) if kind == "hyperband" else R.randint(1, 2)) if n == 2 else 1):
            status = R.choice(["COMPLETED"] * 6 + ["INVALID", "FAILED"])
            plans[t].append(dict(status=status, score=float(R.randint(0, 5)), form=R.choice(["copy", "declare", "declare", "legacy", "legacy-kw", "copy", "legacy-bad"])))
    p = Patch()
    sched, om = p.sched, p.om
    hist = collections.Counter()
    try:
        with tempdir("kty") as d:
            o = _lin_oracle(kind, d, oseed)
            armed = [True]
            unprotected = []

            def hook_for(label):
                def hook(nm):
                    tid = sched.me()
                    if tid is None or not armed[0]:
                        return
                    if dict.get(om.THREADS, o) == f"T{tid}":
                        return              # inside the critical section: nobody else can be
                    unprotected.append((tid, label, nm))
                    sched.point("touch")
                return hook
            for attr, cls in (("trials", TDict), ("ongoing_trials", TDict), ("start_order", TList), ("end_order", TList), ("_populate_next", TList),
                              ("_retry_queue", TList), ("_brackets", TList)):
                if hasattr(o, attr):
                    v = cls(getattr(o, attr))
                    v._hook = hook_for(attr)
                    setattr(o, attr, v)
            results = {t: [] for t in plans}
            progs = {}
            acq = []
            real_acquire = SLock.acquire

            def acquire(self, *a, **k):
                r = real_acquire(self, *a, **k)
                if self.label == "lock" and sched.me() is not None:
                    acq.append(sched.me())
                return r
            SLock.acquire = acquire

            def worker(t):
                def run():
                    prog = progs[t] = LinProg(o, t, plans[t], results[t])
                    while not prog.done:
                        sched.point("call")
                        prog.step()
                return run
            try:
                for t in range(n):
                    sched.spawn(t, worker(t))

                def run_call(u):
                    first = True
                    for _ in range(5000):
                        if u in sched.finished:
                            return
                        label, lock = sched.waiting[u]
                        if label == "call" and not first:
                            return
                        if label.endswith("-acquire") and lock.owner is not None:
                            return
                        first = False
                        sched.grant(u)
                steps = stuck = 0
                touched = set()
                while len(sched.finished) < n and steps < 20000:
                    steps += 1
                    alive = [t for t in range(n) if t not in sched.finished]
                    t = R.choice(alive)
                    label, lock = sched.waiting[t]
                    if label.endswith("-acquire") and lock.owner is not None:
                        stuck += 1
                        if stuck > 2000:
                            raise Violation("C17", f"{kind} oracle, calls from {n} threads: no thread can make progress", {"tag": "wedge"})
                        continue
                    stuck = 0
                    if all(l.owner is None for l in p.shim.locks):
                        bad = _lin_invariant(o)
                        if bad:
                            raise Violation("C17", f"{kind} oracle, {n} threads: while no thread holds the oracle's lock, {bad} - a state no sequential order of the calls "
                                                   f"passes through (a call has changed shared state before taking the lock)", {"tag": "state-between-calls", "kind": kind})
                    if label == "call":
                        touched.discard(t)
                    if label == "touch":
                        touched.add(t)          # this call has reached into shared state without the lock: watch it until it is over
                    if label == "touch" or (label in ("lock-acquire", "owner-read") and (t in touched or R.random() < 0.3)):
                        # the adversary: before this thread goes on, another one runs a whole call - a request for a trial if there is one
                        others = [u for u in alive if u != t]
                        asking = [u for u in others if u in progs and progs[u].phase == "create" and sched.waiting[u][0] == "call"]
                        if others and R.random() < 0.85:
                            run_call(R.choice(asking if asking and R.random() < 0.7 else others))
                            hist["preempted-" + ("outside-lock" if label == "touch" else "before-lock")] += 1
                    sched.grant(t)
            finally:
                SLock.acquire = real_acquire
                armed[0] = False
            for t, e in sched.errors.items():
                raise Violation("C17", f"{kind} oracle thread {t} died with {type(e).__name__}: {str(e)[:100]}", {"tag": "thread-error"})
            got = (results, _lin_state(o))
        # the calls in the order in which they took the lock
        ncalls = sum(len(results[t]) for t in plans)
        seq = _lin_sequential(kind, oseed, plans, list(acq))
        if seq is not None and not seq[0] and (seq[1], seq[2]) == got:
            hist["linearized-in-lock-order"] += 1
            return ncalls, hist
        # every sequential order of the calls (a thread's later calls depend on the answers to its earlier ones)
        tried = 0
        stack = [[]]
        while stack and tried < 4000:
            prefix = stack.pop()
            seq = _lin_sequential(kind, oseed, plans, prefix)
            if seq is None:
                continue
            if not seq[0]:
                tried += 1
                if (seq[1], seq[2]) == got:
                    hist["linearized-in-another-order"] += 1
                    return ncalls, hist
                continue
            # prune: a thread's answers so far must be a prefix of what it really got
            if any(seq[1][t] != results[t][:len(seq[1][t])] for t in plans):
                continue
            for t in seq[0]:
                stack.append(prefix + [t])
        where = sorted(set(f"{lab}.{nm}" for _, lab, nm in unprotected))
        raise Violation("C17", f"{kind} oracle, {n} threads, plans {plans}: results {results} and final state are not those of any of the {tried} sequential orders of "
                        f"the calls" + (f"; shared state touched outside the critical section: {where}" if where else ""), {"tag": "not-linearizable", "kind": kind})
    finally:
        p.undo()


def run(seed, tier, n=None):
    res = Result("sync")
    res.rule = ("2-4 real threads, 1-3 synchronized read-modify-write calls each (20% raise), optional re-entrant nested call, random "
                "schedules at shared-operation granularity (owner read / lock acquire / owner write / body read / body write / owner clear / "
                "lock release; lock creation and its guard as extra scheduling points); plus scheduled threads on a real oracle; "
                "non-trivial = schedule in which a thread was blocked or a call raised; distinct by hash of the executed schedule")
    n = n or (200 if tier == "quick" else 4000)
    R = random.Random(seed ^ 0xC17)
    lines, tails, docs = [], [], []
    lin_failed = 0          # a failing linearizability scenario enumerates every sequential order (seconds): three reports are enough
    for fn in (independence_scenario, independence_scenario3):
        try:
            fn()
            res.hist["independence"] += 1
        except Violation as v:
            res.violations.append({"pid": v.pid, "what": v.what, "sig": v.sig, "replay": {"suite": "sync", "seed": 0, "independence": True}})
    for i in range(n):
        sseed = R.randrange(1 << 30)
        res.scenarios += 1
        try:
            if i % 5 in (1, 2):
                if lin_failed < 3:
                    k, h = lin_scenario(sseed)
                    res.hist.update(h)
                    res.hist["oracle-linearizability"] += 1
                    res.evaluations += k
                    res.nontrivial.add(hashlib.sha1(f"l{sseed}".encode()).hexdigest())
                continue
            if i % 5 == 4:
                k = oracle_scenario(sseed)
                res.hist["oracle-threads"] += 1
                res.evaluations += k
                res.nontrivial.add(hashlib.sha1(f"o{sseed}".encode()).hexdigest())
                continue
            line, tail, doc = scenario(sseed, nested=(i % 3 == 0))
        except Violation as v:
            lin_failed += (i % 5 in (1, 2))
            res.violations.append({"pid": v.pid, "what": v.what, "sig": v.sig, "replay": {"suite": "sync", "seed": sseed, "nested": (i % 3 == 0), "oracle": (i % 5 == 4), "lin": (i % 5 in (1, 2))}})
            continue
        lines.append(line)
        tails.append(tail)
        docs.append(doc)
        res.hist["nested" if doc["nested"] else "plain"] += 1
        if any(any(v) for v in doc["calls"].values()):
            res.hist["with-raise"] += 1
        res.nontrivial.add(hashlib.sha1(json.dumps(line["sched"]).encode()).hexdigest())
        if len(res.samples) < 2:
            res.samples.append({"scenario": doc, "executed_schedule_head": line["sched"][:12]})
    try:
        out = run_driver(lines) if lines else []
    except Exception as e:
        res.errors.append(f"model driver unavailable: {e}")
        return res
    for line, tail, doc, got in zip(lines, tails, docs, out):
        res.evaluations += len(line["sched"])
        if "BLOCKED" in got or not got.endswith(tail):
            res.mismatches.append({"suite": "sync", "scenario": doc, "op_index": 0, "op": {"sched_len": len(line["sched"])},
                                   "impl": tail, "model": got[-200:], "ops": [line]})
    return res


def replay(doc):
    res = Result("sync")
    try:
        if doc.get("independence"):
            independence_scenario()
            independence_scenario3()
            return res
        if doc.get("lin"):
            lin_scenario(doc["seed"])
            return res
        if doc.get("oracle"):
            oracle_scenario(doc["seed"])
            return res
        line, tail, d = scenario(doc["seed"], doc.get("nested", False))
    except Violation as v:
        res.violations.append({"pid": v.pid, "what": v.what, "sig": v.sig, "replay": doc})
        return res
    got = run_driver([line])[0]
    if "BLOCKED" in got or not got.endswith(tail):
        res.mismatches.append({"suite": "sync", "scenario": d, "op_index": 0, "op": {}, "impl": tail, "model": got[-200:], "ops": [line]})
    return res
