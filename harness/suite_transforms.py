"""Suite `transforms` (C14): hyperparameter kinds over decimal bounds/steps; the implementation works on
doubles, the Lean model (Ktm/Transforms.lean) on the exact decimals scaled to integers. Compared: number
and members of the enumerated lattice, probability -> index -> value, value -> probability, round trips.
Monitors evaluate the C14 statement (domain membership, inverse property, lattice shape, type)."""
import hashlib
import json
import math
import random
from fractions import Fraction

from harness.common import Result, Violation, compare, impl, run_driver

TOL = 1e-9


def lcm(a, b):
    return a * b // math.gcd(a, b)


def close(x, q, tol=TOL):
    """is the double x the rounding of the exact rational q (up to tol)?"""
    return abs(Fraction(x) - q) <= tol * max(1, abs(q))


def gen_numeric(R):
    kind = R.choice(["int", "float"])
    samp = R.choice(["linear", "linear", "log", "reverse_log"])
    if kind == "int":
        if samp == "linear":
            lo = R.choice([-7, -3, -1, 0, 1, 2, 5, 10])
            hi = lo + R.choice([0, 1, 2, 3, 5, 8, 13, 40])
            step = R.choice([None, 1, 2, 3, 5])
        else:
            lo = R.choice([1, 2, 3, 4, 8])
            hi = lo * R.choice([1, 2, 3, 4, 8, 16, 27]) + R.choice([0, 0, 1, 5])
            step = R.choice([None, 2, 3, 4])
        return dict(kind="int", lo=str(lo), hi=str(hi), step=None if step is None else str(step), sampling=samp)
    if samp == "linear":
        lo = R.choice(["-2.5", "-1", "-0.3", "0", "0.1", "0.5", "1", "2"])
        span = R.choice(["0", "0.3", "0.5", "1", "1.2", "2", "2.7", "10"])
        step = R.choice([None, "0.1", "0.2", "0.25", "0.3", "0.5", "1", "0.05", "0.7"])
    else:
        lo = R.choice(["0.001", "0.01", "0.1", "0.5", "1", "2", "1e-4"])
        span = None
        step = R.choice([None, "2", "3", "10", "1.5", "2.5"])
    if span is not None:
        hi = str(Fraction(lo) + Fraction(span))
        hi = str(float(Fraction(hi))) if "/" in hi else hi
    else:
        hi = str(float(Fraction(lo) * Fraction(R.choice(["1", "2", "8", "10", "100", "1000", "81", "12.5"]))))
    return dict(kind="float", lo=lo, hi=hi, step=step, sampling=samp)


def build(spec):
    kt = impl()
    from keras_tuner.engine.hyperparameters import hp_types
    if spec["kind"] == "int":
        return hp_types.Int("x", int(spec["lo"]), int(spec["hi"]), step=None if spec["step"] is None else int(spec["step"]), sampling=spec["sampling"])
    if spec["kind"] == "float":
        return hp_types.Float("x", float(spec["lo"]), float(spec["hi"]), step=None if spec["step"] is None else float(spec["step"]), sampling=spec["sampling"])
    if spec["kind"] == "choice":
        return hp_types.Choice("x", spec["values"])
    if spec["kind"] == "bool":
        return hp_types.Boolean("x", default=spec["default"])
    return hp_types.Fixed("x", spec["value"])


def probes(R, n):
    ps = [0.0, math.nextafter(1.0, 0.0), 0.5, R.random(), R.random(), R.random()]
    if n:
        for i in R.sample(range(1, n + 1), min(n, 4)) if n >= 1 else []:
            b = i / n
            if b < 1.0:
                ps += [b, math.nextafter(b, 0.0), math.nextafter(b, 1.0)]
            else:
                ps.append(math.nextafter(1.0, 0.0))
    return [p for p in ps if 0.0 <= p < 1.0]


def case(R, res):
    """one hyperparameter: returns (lines, expect) for the model and runs the monitors"""
    lines, expect = [], []
    r = R.random()
    if r < 0.7:
        spec = gen_numeric(R)
    elif r < 0.85:
        spec = dict(kind="choice", values=R.choice([["a", "b", "c"], [1, 2, 3, 5, 8], [0.5, 1.5], ["x"], [True, False], [3], [0.1, 0.2, 0.3, 0.4, 0.5, 0.6, 0.7],
                                                         # members that differ only far behind the point, or lie next to zero: still different members
                                                         [1e-10, 1e-9, 1e-8], [0.0, 1e-9, 1.0], [0.99999, 0.999999, 1.0], [1e-3, 1.00001e-3], [-1e-9, 0.0, 1e-9],
                                                         [1, 100000, 100001], ["a", "A", "a "]]))
    elif r < 0.93:
        spec = dict(kind="bool", default=R.choice([True, False]))
    else:
        spec = dict(kind="fixed", value=R.choice([1, 2.5, "s", True]))
    hp = build(spec)
    tag = spec["kind"] + ("-" + spec["sampling"] + ("-step" if spec["step"] else "-nostep") if spec["kind"] in ("int", "float") else "")
    res.hist[tag] += 1

    def bad(what, t):
        raise Violation("C14", f"{spec}: {what}", {"tag": t, "kind": spec["kind"], "sampling": spec.get("sampling"), "step": spec.get("step") is not None})

    import random as _random
    for sd in (7, 0, R.randint(0, 10 ** 6)):
        a1, a2 = hp.random_sample(sd), hp.random_sample(sd)
        if a1 != a2:
            bad(f"random_sample({sd}) is not deterministic: {a1!r} then {a2!r}", "determinism")
        want = hp.prob_to_value(float(_random.Random(sd).random()))
        if a1 != want:
            bad(f"random_sample({sd}) = {a1!r} is not the value of the seeded draw ({want!r})", "determinism")

    if spec["kind"] in ("int", "float"):
        lo, hi = Fraction(spec["lo"]), Fraction(spec["hi"])
        isint = spec["kind"] == "int"
        if spec["step"] is not None:
            st = Fraction(spec["step"])
            vals = list(hp.values)
            for v in vals:
                if isint and type(v) is not int:
                    bad(f"enumerated value {v!r} of an Int is not an int", "type")
                if not isint and not isinstance(v, float):
                    bad(f"enumerated value {v!r} of a Float is not a float", "type")
            if spec["sampling"] == "linear":
                D = lcm(lcm(lo.denominator, hi.denominator), st.denominator)
                a, b, s = int(lo * D), int(hi * D), int(st * D)
                exact = []
                i = 0
                while lo + i * st <= hi:
                    exact.append(lo + i * st)
                    i += 1
                if len(vals) != len(exact) or not all(close(v, q) for v, q in zip(vals, exact)):
                    bad(f"values {vals[:8]}.. (n={len(vals)}) are not the lattice min+i*step <= max (n={len(exact)}, last {float(exact[-1])})", "lattice")
                lines.append(dict(suite="transforms", op="lin", a=a, b=b, s=s))
                expect.append(f"n={len(vals)} values=" + ",".join(str(round(Fraction(v) * D)) for v in vals))
                n = len(vals)
                for p in probes(R, n):
                    v = hp.prob_to_value(p)
                    if not any(v == w for w in vals):
                        bad(f"prob_to_value({p!r}) = {v!r} is not a lattice value", "domain")
                    num, den = Fraction(p).as_integer_ratio()
                    idx = vals.index(v)
                    pn = Fraction(p) * n
                    near = abs(pn - round(pn)) <= Fraction(1, 10 ** 9)
                    if near:
                        # bucket boundary: floor(p / (1/n)) and floor(p*n) may differ by one; both are legal
                        res.hist["boundary-adopted"] += 1
                        continue
                    lines.append(dict(suite="transforms", op="linp", a=a, b=b, s=s, num=num, den=den))
                    expect.append(f"index={idx} value={round(Fraction(v) * D)}")
                for i, v in enumerate(vals):
                    pr = hp.value_to_prob(v)
                    back = hp.prob_to_value(pr)
                    if back != v:
                        bad(f"value {v!r} -> prob {pr!r} -> value {back!r}", "inverse")
                    if not close(pr, Fraction(2 * i + 1, 2 * n)):
                        bad(f"value_to_prob({v!r}) = {pr!r}, bucket centre is {(2 * i + 1) / (2 * n)}", "inverse")
                    lines.append(dict(suite="transforms", op="linv", a=a, b=b, s=s, v=round(Fraction(v) * D)))
                    expect.append(f"index={i} prob={2 * i + 1}/{2 * n}")
            else:
                exact = []
                i = 0
                while lo * st ** i <= hi and i < 2000:
                    exact.append(lo * st ** i if spec["sampling"] == "log" else hi + lo - lo * st ** i)
                    i += 1
                if len(vals) != len(exact) or not all(close(v, q) for v, q in zip(vals, exact)):
                    bad(f"values {vals[:8]}.. (n={len(vals)}) are not the {spec['sampling']} lattice (n={len(exact)})", "lattice")
                D = lcm(lo.denominator, hi.denominator)
                lines.append(dict(suite="transforms", op="log", a=int(lo * D), b=int(hi * D), s=st.numerator, t=st.denominator, fuel=4000))
                expect.append(f"n={len(vals)}")
                n = len(vals)
                for p in probes(R, n):
                    v = hp.prob_to_value(p)
                    if not any(v == w for w in vals):
                        bad(f"prob_to_value({p!r}) = {v!r} is not a lattice value", "domain")
                    pn = Fraction(p) * n
                    if abs(pn - round(pn)) <= Fraction(1, 10 ** 9):
                        res.hist["boundary-adopted"] += 1
                        continue
                    num, den = Fraction(p).as_integer_ratio()
                    lines.append(dict(suite="transforms", op="idx", num=num, den=den, n=n))
                    expect.append(f"index={vals.index(v)}")
                for i, v in enumerate(vals):
                    back = hp.prob_to_value(hp.value_to_prob(v))
                    if back != v:
                        bad(f"value {v!r} -> prob {hp.value_to_prob(v)!r} -> value {back!r}", "inverse")
        else:
            # no step: continuous Float, or Int with log / reverse_log sampling
            for p in probes(R, 0) + [R.random() for _ in range(6)]:
                v = hp.prob_to_value(p)
                if isint and type(v) is not int:
                    bad(f"prob_to_value({p!r}) = {v!r} is not an int", "type")
                if not isint and not isinstance(v, float):
                    bad(f"prob_to_value({p!r}) = {v!r} is not a float", "type")
                if not (lo - abs(lo) * Fraction(1, 10 ** 9) <= Fraction(v) <= hi + abs(hi) * Fraction(1, 10 ** 9)):
                    bad(f"prob_to_value({p!r}) = {v!r} outside [{spec['lo']}, {spec['hi']}]", "domain")
                if not isint and spec["sampling"] == "linear" and not close(v, Fraction(p) * (hi - lo) + lo, 1e-12):
                    bad(f"prob_to_value({p!r}) = {v!r} != p*(max-min)+min", "domain")
                if not isint and spec["sampling"] in ("log", "reverse_log"):
                    # the formulas of Ktm/Continuous.lean, evaluated with 50 digits: min*(max/min)^p, max+min-min*(max/min)^(1-p)
                    import decimal
                    with decimal.localcontext() as ctx:
                        ctx.prec = 50
                        dlo, dhi = decimal.Decimal(spec["lo"]), decimal.Decimal(spec["hi"])
                        dp = decimal.Decimal(Fraction(p).numerator) / decimal.Decimal(Fraction(p).denominator)
                        if dlo == dhi:
                            want = dlo
                        elif spec["sampling"] == "log":
                            want = dlo * ((dhi / dlo).ln() * dp).exp()
                        else:
                            want = dhi + dlo - dlo * ((dhi / dlo).ln() * (1 - dp)).exp()
                        if abs(decimal.Decimal(v) - want) > decimal.Decimal("1e-9") * max(abs(want), decimal.Decimal(1)):
                            bad(f"prob_to_value({p!r}) = {v!r} is not {spec['sampling']} sampling of [{spec['lo']}, {spec['hi']}] ({want:.12g})", "domain")
                if not isint:
                    back = hp.prob_to_value(hp.value_to_prob(v))
                    if abs(back - v) > 1e-9 * max(1.0, abs(v)):
                        bad(f"value {v!r} -> prob {hp.value_to_prob(v)!r} -> value {back!r}", "inverse")
                if isint:
                    back = hp.prob_to_value(hp.value_to_prob(v))
                    if back != v:
                        bad(f"value {v!r} -> prob -> value {back!r}", "inverse")
            if isint:
                for v in range(int(lo), min(int(hi), int(lo) + 60) + 1):
                    back = hp.prob_to_value(hp.value_to_prob(v))
                    if back != v:
                        bad(f"value {v!r} -> prob {hp.value_to_prob(v)!r} -> value {back!r}", "inverse")
    elif spec["kind"] == "choice":
        vals = list(hp.values)
        n = len(vals)
        for p in probes(R, n):
            v = hp.prob_to_value(p)
            if not any(v == w and type(v) == type(w) for w in vals):
                bad(f"prob_to_value({p!r}) = {v!r} is not a choice", "domain")
            pn = Fraction(p) * n
            if abs(pn - round(pn)) <= Fraction(1, 10 ** 9):
                continue
            num, den = Fraction(p).as_integer_ratio()
            lines.append(dict(suite="transforms", op="idx", num=num, den=den, n=n))
            expect.append(f"index={vals.index(v)}")
        for i, v in enumerate(vals):
            pr = hp.value_to_prob(v)
            if hp.prob_to_value(pr) != v:
                bad(f"choice {v!r} -> prob {pr!r} -> {hp.prob_to_value(pr)!r}", "inverse")
            lines.append(dict(suite="transforms", op="idxp", i=i, n=n))
            num, den = Fraction(2 * i + 1, 2 * n).as_integer_ratio()
            expect.append(f"prob={2 * i + 1}/{2 * n}" if close(pr, Fraction(2 * i + 1, 2 * n)) else f"prob={pr!r}")
    elif spec["kind"] == "bool":
        for p in probes(R, 2):
            v = hp.prob_to_value(p)
            if type(v) is not bool:
                bad(f"prob_to_value({p!r}) = {v!r} is not a bool", "type")
            num, den = Fraction(p).as_integer_ratio()
            lines.append(dict(suite="transforms", op="bool", num=num, den=den))
            expect.append(f"value={'true' if v else 'false'}")
        for v in (True, False):
            if hp.prob_to_value(hp.value_to_prob(v)) is not v:
                bad(f"boolean {v} does not survive value->prob->value", "inverse")
    else:
        for p in probes(R, 0):
            if hp.prob_to_value(p) != spec["value"] or type(hp.prob_to_value(p)) != type(spec["value"]):
                bad(f"Fixed.prob_to_value({p!r}) = {hp.prob_to_value(p)!r}", "domain")
        if hp.prob_to_value(hp.value_to_prob(spec["value"])) != spec["value"]:
            bad("Fixed value does not survive the round trip", "inverse")
    return spec, lines, expect


def run(seed, tier, n=None):
    res = Result("transforms")
    res.rule = ("random Int/Float (all three sampling modes, with/without step, negative/zero/fractional decimal bounds, min == max), "
                "Choice, Boolean, Fixed; probes 0, largest double below 1, bucket boundaries +-1 ulp, random; every lattice value; "
                "non-trivial = stepped numeric or multi-valued choice; distinct by spec")
    n = n or (400 if tier == "quick" else 8000)
    R = random.Random(seed ^ 0xC14)
    all_lines, spans = [], []
    for i in range(n):
        sseed = R.randrange(1 << 30)
        res.scenarios += 1
        try:
            spec, lines, expect = case(random.Random(sseed), res)
        except Violation as v:
            res.violations.append({"pid": v.pid, "what": v.what, "sig": v.sig, "replay": {"suite": "transforms", "seed": sseed}})
            continue
        spans.append((len(all_lines), lines, expect, {"suite": "transforms", "seed": sseed, "spec": spec}))
        all_lines += lines
        if (spec.get("step") is not None) or (spec["kind"] == "choice" and len(spec["values"]) > 1):
            res.nontrivial.add(json.dumps(spec, sort_keys=True))
        if len(res.samples) < 3 and spec.get("step") is not None and lines:
            res.samples.append({"spec": spec, "first_ops": lines[:3], "impl_answers": expect[:3]})
    try:
        out = run_driver(all_lines) if all_lines else []
    except Exception as e:
        res.errors.append(f"model driver unavailable: {e}")
        return res
    for start, lines, expect, doc in spans:
        compare(res, lines, expect, out[start:start + len(lines)], doc)
    res.nontrivial = {hashlib.sha1(x.encode()).hexdigest() for x in res.nontrivial}
    return res


def replay(doc):
    res = Result("transforms")
    try:
        spec, lines, expect = case(random.Random(doc["seed"]), res)
    except Violation as v:
        res.violations.append({"pid": v.pid, "what": v.what, "sig": v.sig, "replay": doc})
        return res
    out = run_driver(lines) if lines else []
    compare(res, lines, expect, out, doc)
    return res
