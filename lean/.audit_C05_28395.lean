import Ktm.Props.C05
#print axioms Props.C05.enumerated_is_exact
#print axioms Props.C05.sampled_is_exact
#print axioms Props.C05.grid_is_exact
#print axioms Props.C05.hyperband_promotion_keeps_values
#print axioms Props.C05.value_list_in_domain
#print axioms Props.C05.bayes_vector_partial
