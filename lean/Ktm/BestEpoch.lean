/-! C20/C18 prototype: `SaveBestEpoch` (strict `better_than` from ±inf) and the History post-processing
    (`_get_best_value_and_best_epoch_from_history`) select the same epoch: the first one attaining the
    minimum. Values are `Int` in the "minimise" frame (maximising = minimising the negation). -/
namespace BestEpoch

/-- epochs at which the callback writes the weights; `best = none` encodes the initial ±inf -/
def saves : List Int → Option Int → Nat → List Nat
  | [], _, _ => []
  | v :: vs, none, e => e :: saves vs (some v) (e + 1)
  | v :: vs, some b, e => if v < b then e :: saves vs (some v) (e + 1) else saves vs (some b) (e + 1)

/-- History post-processing: start with epoch 0, move only on strictly better -/
def histBest : List Int → Nat → Int → Nat → Nat
  | [], bi, _, _ => bi
  | v :: vs, bi, bv, e => if v < bv then histBest vs e v (e + 1) else histBest vs bi bv (e + 1)

def histBestEpoch : List Int → Option Nat
  | [] => none
  | v :: vs => some (histBest vs 0 v 1)

theorem saves_last (vs : List Int) (b : Int) (bi e : Nat) :
    ((saves vs (some b) e).getLast?).getD bi = histBest vs bi b e := by
  induction vs generalizing b bi e with
  | nil => simp [saves, histBest]
  | cons v vs ih =>
    simp only [saves, histBest]
    split
    · rw [List.getLast?_cons]
      have := ih v e (e + 1)
      cases hl : (saves vs (some v) (e + 1)).getLast? with
      | none => simp [hl] at this ⊢; exact this
      | some x => simp [hl] at this ⊢; exact this
    · exact ih b bi (e + 1)

/-- the kept checkpoint (last write) is the epoch the History post-processing reports -/
theorem callback_eq_history (curve : List Int) (h : curve ≠ []) :
    (saves curve none 0).getLast? = histBestEpoch curve := by
  cases curve with
  | nil => exact absurd rfl h
  | cons v vs =>
    simp only [saves, histBestEpoch, List.getLast?_cons]
    have := saves_last vs v 0 1
    cases hl : (saves vs (some v) 1).getLast? with
    | none => simp [hl] at this ⊢; exact this
    | some x => simp [hl] at this ⊢; exact this

/-- `i` is the first index attaining the minimum of `l` (offset by `e0`) -/
def FirstMin (l : List Int) (i : Nat) : Prop :=
  ∃ v : Int, l[i]? = some v ∧ (∀ (j : Nat) (w : Int), l[j]? = some w → v ≤ w) ∧ (∀ (j : Nat) (w : Int), j < i → l[j]? = some w → v < w)

theorem histBest_spec (pre vs : List Int) (bi : Nat) (bv : Int)
    (hbi : FirstMin pre bi) (hbv : pre[bi]? = some bv) :
    FirstMin (pre ++ vs) (histBest vs bi bv pre.length) := by
  induction vs generalizing pre bi bv with
  | nil => simpa [histBest] using hbi
  | cons v vs ih =>
    simp only [histBest]
    have hpre : pre ++ v :: vs = (pre ++ [v]) ++ vs := by simp
    obtain ⟨v0, h0, hmin, hfirst⟩ := hbi
    have hv0 : v0 = bv := by rw [hbv] at h0; exact (Option.some.inj h0).symm
    subst hv0
    split
    · rename_i hlt
      rw [hpre]
      have hlen : (pre ++ [v]).length = pre.length + 1 := by simp
      rw [← hlen]
      apply ih (pre ++ [v]) pre.length v
      · refine ⟨v, by simp, ?_, ?_⟩
        · intro j w hj
          by_cases hjl : j < pre.length
          · rw [List.getElem?_append_left hjl] at hj
            have := hmin j w hj; omega
          · rw [List.getElem?_append_right (by omega)] at hj
            by_cases hj0 : j - pre.length = 0
            · simp [hj0] at hj; omega
            · simp [hj0] at hj
        · intro j w hjl hj
          rw [List.getElem?_append_left hjl] at hj
          have := hmin j w hj; omega
      · simp
    · rename_i hge
      rw [hpre]
      have hlen : (pre ++ [v]).length = pre.length + 1 := by simp
      rw [← hlen]
      have hbil : bi < pre.length := (List.getElem?_eq_some_iff.mp hbv).1
      apply ih (pre ++ [v]) bi v0
      · refine ⟨v0, by rw [List.getElem?_append_left hbil]; exact hbv, ?_, ?_⟩
        · intro j w hj
          by_cases hjl : j < pre.length
          · rw [List.getElem?_append_left hjl] at hj; exact hmin j w hj
          · rw [List.getElem?_append_right (by omega)] at hj
            by_cases hj0 : j - pre.length = 0
            · simp [hj0] at hj; omega
            · simp [hj0] at hj
        · intro j w hjl hj
          rw [List.getElem?_append_left (by omega)] at hj
          exact hfirst j w hjl hj
      · rw [List.getElem?_append_left hbil]; exact hbv

/-- C20: for every finite curve (all executions of a trial concatenated, since one callback instance
    is shared) the weights kept on disk are those of the first epoch attaining the best value. -/
theorem kept_is_first_best (curve : List Int) (h : curve ≠ []) :
    ∃ i, (saves curve none 0).getLast? = some i ∧ FirstMin curve i := by
  cases curve with
  | nil => exact absurd rfl h
  | cons v vs =>
    refine ⟨histBest vs 0 v 1, by simpa [histBestEpoch] using callback_eq_history (v :: vs) (by simp), ?_⟩
    have := histBest_spec [v] vs 0 v ⟨v, by simp, by intro j w hj; cases j <;> simp_all, by intro j w hj; omega⟩ (by simp)
    simpa using this

end BestEpoch
#print axioms BestEpoch.kept_is_first_best
