/-! C15: the JSON-compatible configs of hyperparameters, conditions, the `HyperParameters` container,
    metric observations / histories / trackers and trials, as JSON trees; `toJ` is what `get_config` /
    `get_state` produce, `fromJ` what `from_config` / `from_state` read. Floats are opaque tokens (the exact
    ratio text the harness computes): the codec never computes with them. -/
namespace Codec

inductive J
  | null | bool (b : Bool) | int (i : Int) | flt (tok : String) | str (s : String)
  | arr (xs : List J) | obj (kvs : List (String × J))
  deriving Repr, Inhabited

partial def J.beq : J → J → Bool
  | .null, .null => true
  | .bool a, .bool b => a == b
  | .int a, .int b => a == b
  | .flt a, .flt b => a == b
  | .str a, .str b => a == b
  | .arr a, .arr b => a.length == b.length && (a.zip b).all (fun p => J.beq p.1 p.2)
  | .obj a, .obj b => a.length == b.length && (a.zip b).all (fun p => p.1.1 == p.2.1 && J.beq p.1.2 p.2.2)
  | _, _ => false

/-- canonical text: keys sorted, floats as their tokens -/
partial def J.print : J → String
  | .null => "null" | .bool b => if b then "true" else "false" | .int i => toString i
  | .flt t => "f:" ++ t | .str s => "\"" ++ s.replace "\n" "\\n" ++ "\""
  | .arr xs => "[" ++ String.intercalate "," (xs.map J.print) ++ "]"
  | .obj kvs => "{" ++ String.intercalate "," (((kvs.toArray.qsort (fun a b => a.1 < b.1)).toList).map (fun p => "\"" ++ p.1 ++ "\":" ++ J.print p.2)) ++ "}"

def J.get (j : J) (k : String) : Option J :=
  match j with
  | .obj kvs => (kvs.find? (·.1 == k)).map (·.2)
  | _ => none

/-- a hyperparameter value / bound: int, float token, string or bool -/
inductive Val | int (i : Int) | flt (tok : String) | str (s : String) | bool (b : Bool)
  deriving DecidableEq, Repr

def Val.toJ : Val → J
  | .int i => .int i | .flt t => .flt t | .str s => .str s | .bool b => .bool b
def Val.fromJ : J → Option Val
  | .int i => some (.int i) | .flt t => some (.flt t) | .str s => some (.str s) | .bool b => some (.bool b)
  | _ => none

theorem Val.roundtrip (v : Val) : Val.fromJ v.toJ = some v := by cases v <;> rfl

def valsFromJ : List J → Option (List Val)
  | [] => some []
  | x :: xs => match Val.fromJ x, valsFromJ xs with
    | some v, some vs => some (v :: vs)
    | _, _ => none

theorem vals_roundtrip (l : List Val) : valsFromJ (l.map Val.toJ) = some l := by
  induction l with
  | nil => rfl
  | cons v vs ih => simp [valsFromJ, Val.roundtrip, ih]

def optToJ (o : Option Val) : J := match o with | some v => v.toJ | none => .null
def optFromJ (j : J) : Option (Option Val) := match j with | .null => some none | x => (Val.fromJ x).map some
theorem opt_roundtrip (o : Option Val) : optFromJ (optToJ o) = some o := by
  cases o with
  | none => rfl
  | some v => cases v <;> rfl

structure Cond where
  name : String
  vals : List Val
  deriving DecidableEq, Repr

def Cond.toJ (c : Cond) : J :=
  .obj [("class_name", .str "Parent"), ("config", .obj [("name", .str c.name), ("values", .arr (c.vals.map Val.toJ))])]

def Cond.fromJ (j : J) : Option Cond :=
  match j.get "class_name", j.get "config" with
  | some (.str "Parent"), some cfg =>
    match cfg.get "name", cfg.get "values" with
    | some (.str n), some (.arr vs) => (valsFromJ vs).map (fun vs => ⟨n, vs⟩)
    | _, _ => none
  | _, _ => none

theorem Cond.roundtrip (c : Cond) : Cond.fromJ c.toJ = some c := by
  simp [Cond.fromJ, Cond.toJ, J.get, vals_roundtrip]

def condsFromJ : List J → Option (List Cond)
  | [] => some []
  | x :: xs => match Cond.fromJ x, condsFromJ xs with
    | some c, some cs => some (c :: cs)
    | _, _ => none

theorem conds_roundtrip (l : List Cond) : condsFromJ (l.map Cond.toJ) = some l := by
  induction l with
  | nil => rfl
  | cons c cs ih => simp [condsFromJ, Cond.roundtrip, ih]

/-- the five kinds with every configured field (`default` is the *explicit* default, `none` = not given) -/
inductive Kind
  | int (lo hi : Val) (step : Option Val) (sampling : String) (dflt : Option Val)
  | float (lo hi : Val) (step : Option Val) (sampling : String) (dflt : Option Val)
  | choice (vals : List Val) (ordered : Bool) (dflt : Option Val)
  | boolean (dflt : Val)
  | fixed (v : Val)
  deriving DecidableEq, Repr

structure HP where
  name : String
  conds : List Cond
  kind : Kind
  deriving DecidableEq, Repr

def HP.toJ (h : HP) : J :=
  let base := [("name", J.str h.name), ("conditions", J.arr (h.conds.map Cond.toJ))]
  match h.kind with
  | .int lo hi st sa d => .obj [("class_name", .str "Int"), ("config", .obj (base ++ [("default", optToJ d), ("min_value", lo.toJ),
      ("max_value", hi.toJ), ("step", optToJ st), ("sampling", .str sa)]))]
  | .float lo hi st sa d => .obj [("class_name", .str "Float"), ("config", .obj (base ++ [("default", optToJ d), ("min_value", lo.toJ),
      ("max_value", hi.toJ), ("step", optToJ st), ("sampling", .str sa)]))]
  | .choice vs ord d => .obj [("class_name", .str "Choice"), ("config", .obj (base ++ [("default", optToJ d),
      ("values", .arr (vs.map Val.toJ)), ("ordered", .bool ord)]))]
  | .boolean d => .obj [("class_name", .str "Boolean"), ("config", .obj (base ++ [("default", d.toJ)]))]
  | .fixed v => .obj [("class_name", .str "Fixed"), ("config", .obj (base ++ [("value", v.toJ)]))]

def numericFromJ (cfg : J) : Option (Val × Val × Option Val × String × Option Val) :=
  match cfg.get "min_value", cfg.get "max_value", cfg.get "step", cfg.get "sampling", cfg.get "default" with
  | some lo, some hi, some st, some (.str sa), some d =>
    match Val.fromJ lo, Val.fromJ hi, optFromJ st, optFromJ d with
    | some lo, some hi, some st, some d => some (lo, hi, st, sa, d)
    | _, _, _, _ => none
  | _, _, _, _, _ => none

def HP.fromJ (j : J) : Option HP :=
  match j.get "class_name", j.get "config" with
  | some (.str cls), some cfg =>
    match cfg.get "name", cfg.get "conditions" with
    | some (.str n), some (.arr cs) =>
      match condsFromJ cs with
      | none => none
      | some cs =>
        if cls == "Int" then (numericFromJ cfg).map (fun (lo, hi, st, sa, d) => ⟨n, cs, .int lo hi st sa d⟩)
        else if cls == "Float" then (numericFromJ cfg).map (fun (lo, hi, st, sa, d) => ⟨n, cs, .float lo hi st sa d⟩)
        else if cls == "Choice" then
          match cfg.get "values", cfg.get "ordered", cfg.get "default" with
          | some (.arr vs), some (.bool ord), some d =>
            match valsFromJ vs, optFromJ d with
            | some vs, some d => some ⟨n, cs, .choice vs ord d⟩
            | _, _ => none
          | _, _, _ => none
        else if cls == "Boolean" then
          match cfg.get "default" with
          | some d => (Val.fromJ d).map (fun d => ⟨n, cs, .boolean d⟩)
          | none => none
        else if cls == "Fixed" then
          match cfg.get "value" with
          | some v => (Val.fromJ v).map (fun v => ⟨n, cs, .fixed v⟩)
          | none => none
        else none
    | _, _ => none
  | _, _ => none

/-- **a hyperparameter survives its config**: every field — type, name, conditions, bounds, step, sampling,
    explicit default, choices, `ordered`, fixed value — comes back -/
theorem HP.roundtrip (h : HP) : HP.fromJ h.toJ = some h := by
  obtain ⟨n, cs, k⟩ := h
  cases k <;>
    simp [HP.fromJ, HP.toJ, J.get, numericFromJ, conds_roundtrip, vals_roundtrip, Val.roundtrip, opt_roundtrip, List.find?]

def hpsFromJ : List J → Option (List HP)
  | [] => some []
  | x :: xs => match HP.fromJ x, hpsFromJ xs with
    | some h, some hs => some (h :: hs)
    | _, _ => none

theorem hps_roundtrip (l : List HP) : hpsFromJ (l.map HP.toJ) = some l := by
  induction l with
  | nil => rfl
  | cons h hs ih => simp [hpsFromJ, HP.roundtrip, ih]

/-- the container: space in order, values by name -/
structure Space where
  hps : List HP
  values : List (String × Val)
  deriving DecidableEq, Repr

def Space.toJ (s : Space) : J :=
  .obj [("space", .arr (s.hps.map HP.toJ)), ("values", .obj (s.values.map (fun p => (p.1, p.2.toJ))))]

def kvsFromJ : List (String × J) → Option (List (String × Val))
  | [] => some []
  | (k, x) :: xs => match Val.fromJ x, kvsFromJ xs with
    | some v, some vs => some ((k, v) :: vs)
    | _, _ => none

theorem kvs_roundtrip (l : List (String × Val)) : kvsFromJ (l.map (fun p => (p.1, p.2.toJ))) = some l := by
  induction l with
  | nil => rfl
  | cons p ps ih => obtain ⟨k, v⟩ := p; simp [kvsFromJ, Val.roundtrip, ih]

def Space.fromJ (j : J) : Option Space :=
  match j.get "space", j.get "values" with
  | some (.arr hs), some (.obj kvs) =>
    match hpsFromJ hs, kvsFromJ kvs with
    | some hs, some vs => some ⟨hs, vs⟩
    | _, _ => none
  | _, _ => none

/-- **a search space with its values survives its config**: every entry, in order, and every value -/
theorem Space.roundtrip (s : Space) : Space.fromJ s.toJ = some s := by
  simp [Space.fromJ, Space.toJ, J.get, hps_roundtrip, kvs_roundtrip, List.find?]

/-- copying a space is `from_config ∘ get_config`: an equal value; being a value, it is independent -/
def Space.copy (s : Space) : Option Space := Space.fromJ s.toJ
theorem Space.copy_eq (s : Space) : s.copy = some s := Space.roundtrip s

/-! ### metrics -/

structure Obs where
  step : Int
  vals : List Val          -- float tokens (incl. nan / inf)
  deriving DecidableEq, Repr

def Obs.toJ (o : Obs) : J := .obj [("value", .arr (o.vals.map Val.toJ)), ("step", .int o.step)]
def Obs.fromJ (j : J) : Option Obs :=
  match j.get "value", j.get "step" with
  | some (.arr vs), some (.int s) => (valsFromJ vs).map (fun vs => ⟨s, vs⟩)
  | _, _ => none
theorem Obs.roundtrip (o : Obs) : Obs.fromJ o.toJ = some o := by
  simp [Obs.fromJ, Obs.toJ, J.get, vals_roundtrip, List.find?]

def obsFromJ : List J → Option (List Obs)
  | [] => some []
  | x :: xs => match Obs.fromJ x, obsFromJ xs with
    | some o, some os => some (o :: os)
    | _, _ => none
theorem obs_roundtrip (l : List Obs) : obsFromJ (l.map Obs.toJ) = some l := by
  induction l with
  | nil => rfl
  | cons o os ih => simp [obsFromJ, Obs.roundtrip, ih]

structure Hist where
  direction : String
  obs : List Obs           -- in step order (`get_config` writes `get_history()`)
  deriving DecidableEq, Repr

def Hist.toJ (h : Hist) : J := .obj [("direction", .str h.direction), ("observations", .arr (h.obs.map Obs.toJ))]
def Hist.fromJ (j : J) : Option Hist :=
  match j.get "direction", j.get "observations" with
  | some (.str d), some (.arr os) => (obsFromJ os).map (fun os => ⟨d, os⟩)
  | _, _ => none
theorem Hist.roundtrip (h : Hist) : Hist.fromJ h.toJ = some h := by
  simp [Hist.fromJ, Hist.toJ, J.get, obs_roundtrip, List.find?]

def histsFromJ : List (String × J) → Option (List (String × Hist))
  | [] => some []
  | (k, x) :: xs => match Hist.fromJ x, histsFromJ xs with
    | some h, some hs => some ((k, h) :: hs)
    | _, _ => none
theorem hists_roundtrip (l : List (String × Hist)) : histsFromJ (l.map (fun p => (p.1, p.2.toJ))) = some l := by
  induction l with
  | nil => rfl
  | cons p ps ih => obtain ⟨k, h⟩ := p; simp [histsFromJ, Hist.roundtrip, ih]

structure Trial where
  id : String
  space : Space
  metrics : List (String × Hist)
  score : Option Val
  bestStep : Option Val
  status : String
  message : Option Val
  deriving DecidableEq, Repr

def Trial.toJ (t : Trial) : J :=
  .obj [("trial_id", .str t.id), ("hyperparameters", t.space.toJ),
        ("metrics", .obj [("metrics", .obj (t.metrics.map (fun p => (p.1, p.2.toJ))))]),
        ("score", optToJ t.score), ("best_step", optToJ t.bestStep), ("status", .str t.status), ("message", optToJ t.message)]

def Trial.fromJ (j : J) : Option Trial :=
  match j.get "trial_id", j.get "hyperparameters", j.get "metrics", j.get "score", j.get "best_step", j.get "status", j.get "message" with
  | some (.str id), some sp, some m, some sc, some bs, some (.str st), some msg =>
    match Space.fromJ sp, m.get "metrics", optFromJ sc, optFromJ bs, optFromJ msg with
    | some sp, some (.obj ms), some sc, some bs, some msg =>
      (histsFromJ ms).map (fun ms => ⟨id, sp, ms, sc, bs, st, msg⟩)
    | _, _, _, _, _ => none
  | _, _, _, _, _, _, _ => none

/-- **a trial survives its state file**: id, hyperparameters (space and values), every metric history with
    direction, steps and per-step execution lists, score, best step, status and message -/
theorem Trial.roundtrip (t : Trial) : Trial.fromJ t.toJ = some t := by
  simp [Trial.fromJ, Trial.toJ, J.get, Space.roundtrip, hists_roundtrip, opt_roundtrip, List.find?]

end Codec
#print axioms Codec.Trial.roundtrip
#print axioms Codec.HP.roundtrip
