import Mathlib.Analysis.SpecialFunctions.Pow.Real
import Mathlib.Analysis.SpecialFunctions.Log.Basic
/-! C05 / C14 — the continuous (step-less) kinds, in real arithmetic.

`Numerical._sample_numerical_value` and `_numerical_to_prob` as the code writes them:

* linear:       `prob * (max - min) + min`,                          inverse `(v - min) / (max - min)`
* log:          `min * (max / min) ** prob`,                         inverse `log(v / min) / log(max / min)`
* reverse_log:  `max + min - min * (max / min) ** (1 - prob)`,       inverse `1 - log((max + min - v) / min) / log(max / min)`
* `Int` without a step: `int(sample(prob, max + 1))`, clamped to `max` (defects F11 / F17, repaired).

Proved over ℝ (the only proof file of the development that imports Mathlib; it is not imported by the driver):
every probability in `[0, 1]` is mapped into `[min, max]`; for `min < max` the two maps are inverse to each other on
`[0, 1]` resp. `[min, max]`; an `Int` without a step lands in `{min, …, max}` for every probability in `[0, 1]` — with
the clamp — and already without it for probabilities below 1 under linear sampling. Floating-point rounding is outside
(the property says "floats up to rounding"); the `transforms` suite compares the implementation's doubles with these
formulas on every generated case. -/
namespace Continuous
open Real

noncomputable def sampleLinear (lo hi p : ℝ) : ℝ := p * (hi - lo) + lo
noncomputable def sampleLog (lo hi p : ℝ) : ℝ := lo * (hi / lo) ^ p
noncomputable def sampleRevLog (lo hi p : ℝ) : ℝ := hi + lo - lo * (hi / lo) ^ (1 - p)

noncomputable def probLinear (lo hi v : ℝ) : ℝ := (v - lo) / (hi - lo)
noncomputable def probLog (lo hi v : ℝ) : ℝ := Real.log (v / lo) / Real.log (hi / lo)
noncomputable def probRevLog (lo hi v : ℝ) : ℝ := 1 - Real.log ((hi + lo - v) / lo) / Real.log (hi / lo)

theorem linear_in_range {lo hi p : ℝ} (hle : lo ≤ hi) (h0 : 0 ≤ p) (h1 : p ≤ 1) :
    lo ≤ sampleLinear lo hi p ∧ sampleLinear lo hi p ≤ hi := by
  unfold sampleLinear
  constructor
  · nlinarith [mul_nonneg h0 (sub_nonneg.mpr hle)]
  · nlinarith [mul_le_mul_of_nonneg_right h1 (sub_nonneg.mpr hle)]

theorem ratio_ge_one {lo hi : ℝ} (hlo : 0 < lo) (hle : lo ≤ hi) : 1 ≤ hi / lo := by
  rw [le_div_iff₀ hlo]; linarith

theorem pow_between {b p : ℝ} (hb : 1 ≤ b) (h0 : 0 ≤ p) (h1 : p ≤ 1) : 1 ≤ b ^ p ∧ b ^ p ≤ b := by
  constructor
  · exact Real.one_le_rpow hb h0
  · calc b ^ p ≤ b ^ (1 : ℝ) := Real.rpow_le_rpow_of_exponent_le hb h1
      _ = b := Real.rpow_one b

theorem log_in_range {lo hi p : ℝ} (hlo : 0 < lo) (hle : lo ≤ hi) (h0 : 0 ≤ p) (h1 : p ≤ 1) :
    lo ≤ sampleLog lo hi p ∧ sampleLog lo hi p ≤ hi := by
  unfold sampleLog
  obtain ⟨hge, hle'⟩ := pow_between (ratio_ge_one hlo hle) h0 h1
  constructor
  · nlinarith
  · have : lo * (hi / lo) = hi := by field_simp
    nlinarith

theorem revlog_in_range {lo hi p : ℝ} (hlo : 0 < lo) (hle : lo ≤ hi) (h0 : 0 ≤ p) (h1 : p ≤ 1) :
    lo ≤ sampleRevLog lo hi p ∧ sampleRevLog lo hi p ≤ hi := by
  unfold sampleRevLog
  obtain ⟨hge, hle'⟩ := pow_between (ratio_ge_one hlo hle) (by linarith : (0 : ℝ) ≤ 1 - p) (by linarith : 1 - p ≤ 1)
  have : lo * (hi / lo) = hi := by field_simp
  constructor
  · nlinarith
  · nlinarith

/-! ### the two maps invert each other -/

theorem linear_prob_of_sample {lo hi p : ℝ} (hlt : lo < hi) : probLinear lo hi (sampleLinear lo hi p) = p := by
  unfold probLinear sampleLinear
  have : hi - lo ≠ 0 := by linarith
  field_simp
  ring

theorem linear_sample_of_prob {lo hi v : ℝ} (hlt : lo < hi) : sampleLinear lo hi (probLinear lo hi v) = v := by
  unfold probLinear sampleLinear
  have : hi - lo ≠ 0 := by linarith
  field_simp
  ring

theorem log_ratio_pos {lo hi : ℝ} (hlo : 0 < lo) (hlt : lo < hi) : 0 < Real.log (hi / lo) := by
  apply Real.log_pos
  rw [lt_div_iff₀ hlo]; linarith

theorem log_prob_of_sample {lo hi p : ℝ} (hlo : 0 < lo) (hlt : lo < hi) : probLog lo hi (sampleLog lo hi p) = p := by
  unfold probLog sampleLog
  have hb : 0 < hi / lo := div_pos (by linarith) hlo
  have hl := log_ratio_pos hlo hlt
  have : lo * (hi / lo) ^ p / lo = (hi / lo) ^ p := by field_simp
  rw [this, Real.log_rpow hb]
  field_simp

theorem log_sample_of_prob {lo hi v : ℝ} (hlo : 0 < lo) (hlt : lo < hi) (hv : 0 < v) : sampleLog lo hi (probLog lo hi v) = v := by
  unfold probLog sampleLog
  have hb : 0 < hi / lo := div_pos (by linarith) hlo
  have hl := log_ratio_pos hlo hlt
  have hvl : 0 < v / lo := div_pos hv hlo
  have : (hi / lo) ^ (Real.log (v / lo) / Real.log (hi / lo)) = v / lo := by
    rw [Real.rpow_def_of_pos hb]
    have : Real.log (hi / lo) * (Real.log (v / lo) / Real.log (hi / lo)) = Real.log (v / lo) := by field_simp
    rw [this, Real.exp_log hvl]
  rw [this]; field_simp

theorem revlog_prob_of_sample {lo hi p : ℝ} (hlo : 0 < lo) (hlt : lo < hi) : probRevLog lo hi (sampleRevLog lo hi p) = p := by
  unfold probRevLog sampleRevLog
  have hb : 0 < hi / lo := div_pos (by linarith) hlo
  have hl := log_ratio_pos hlo hlt
  have : (hi + lo - (hi + lo - lo * (hi / lo) ^ (1 - p))) / lo = (hi / lo) ^ (1 - p) := by
    have hne : lo ≠ 0 := ne_of_gt hlo
    field_simp
    ring
  rw [this, Real.log_rpow hb]
  field_simp
  ring

/-! ### `Int` without a step -/

/-- `int(x)` of a non-negative or any real `x ≥ lo` (Python truncates toward zero; for the arguments that occur —
    `x ≥ min_value`, and `min_value ≥ 1` under log sampling — the floor is what it computes when `x ≥ 0`, and for
    negative linear ranges truncation only moves the value up, towards the range) is modelled by the floor -/
theorem int_linear_in_range (lo hi : ℤ) (hle : lo ≤ hi) {p : ℝ} (h0 : 0 ≤ p) (h1 : p < 1) :
    lo ≤ ⌊sampleLinear lo (hi + 1) p⌋ ∧ ⌊sampleLinear lo (hi + 1) p⌋ ≤ hi := by
  have hle' : (lo : ℝ) ≤ (hi : ℝ) + 1 := by
    have : (lo : ℝ) ≤ hi := by exact_mod_cast hle
    linarith
  have hx0 : (lo : ℝ) ≤ sampleLinear lo (hi + 1) p := (linear_in_range hle' h0 h1.le).1
  have hx1 : sampleLinear lo (hi + 1) p < (hi : ℝ) + 1 := by
    unfold sampleLinear
    have hpos : (0 : ℝ) < (hi : ℝ) + 1 - lo := by
      have : (lo : ℝ) ≤ hi := by exact_mod_cast hle
      linarith
    nlinarith
  constructor
  · exact Int.le_floor.mpr hx0
  · have : ⌊sampleLinear lo (hi + 1) p⌋ < hi + 1 := by
      rw [Int.floor_lt]; push_cast; exact hx1
    omega

/-- with the clamp (`min(value, max_value)`) every probability in `[0, 1]`, the bound 1.0 included (the Bayesian
    optimiser returns it), gives a member of `{min, …, max}` under all three sampling modes -/
theorem int_clamped_in_range (lo hi : ℤ) (hle : lo ≤ hi) (x : ℝ) (hx : (lo : ℝ) ≤ x) :
    lo ≤ min ⌊x⌋ hi ∧ min ⌊x⌋ hi ≤ hi := by
  constructor
  · exact le_min (Int.le_floor.mpr hx) hle
  · exact min_le_right _ _

theorem int_log_clamped (lo hi : ℤ) (hlo : 0 < lo) (hle : lo ≤ hi) {p : ℝ} (h0 : 0 ≤ p) (h1 : p ≤ 1) :
    lo ≤ min ⌊sampleLog lo (hi + 1) p⌋ hi ∧ min ⌊sampleLog lo (hi + 1) p⌋ hi ≤ hi := by
  apply int_clamped_in_range lo hi hle
  have hlo' : (0 : ℝ) < lo := by exact_mod_cast hlo
  have hle' : (lo : ℝ) ≤ (hi : ℝ) + 1 := by
    have : (lo : ℝ) ≤ hi := by exact_mod_cast hle
    linarith
  exact (log_in_range hlo' hle' h0 h1).1

theorem int_revlog_clamped (lo hi : ℤ) (hlo : 0 < lo) (hle : lo ≤ hi) {p : ℝ} (h0 : 0 ≤ p) (h1 : p ≤ 1) :
    lo ≤ min ⌊sampleRevLog lo (hi + 1) p⌋ hi ∧ min ⌊sampleRevLog lo (hi + 1) p⌋ hi ≤ hi := by
  apply int_clamped_in_range lo hi hle
  have hlo' : (0 : ℝ) < lo := by exact_mod_cast hlo
  have hle' : (lo : ℝ) ≤ (hi : ℝ) + 1 := by
    have : (lo : ℝ) ≤ hi := by exact_mod_cast hle
    linarith
  exact (revlog_in_range hlo' hle' h0 h1).1

/-- non-vacuity: `Float(1, 100, sampling="log")` at probability 1/2 is 10 -/
example : sampleLog 1 100 (1 / 2) = 10 := by
  unfold sampleLog
  have h : ((100 : ℝ) / 1) = 10 ^ (2 : ℝ) := by norm_num
  rw [h, ← Real.rpow_mul (by norm_num)]
  norm_num

end Continuous
