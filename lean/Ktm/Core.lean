/-
Prototype of the generic oracle bookkeeping model (C01–C03), import-free.
`V` = type of hyperparameter values, `A` = algorithm state, `S` = score type (none = NaN).
-/
namespace Core

inductive Status | running | invalid | completed | failed
  deriving DecidableEq, Repr

structure Trial (V : Type) where
  vals : V
  status : Status
  runs : Nat
  score : Option Int            -- `some s` = a non-NaN score
  reports : List (Option Int)   -- what the current run(s) reported (abstract metrics)
  deriving Repr

inductive Pop (V : Type) | run (v : V) | idle | stop

structure Oracle (V A : Type) where
  trials : List (Trial V)
  ongoing : List (Nat × Nat)    -- (tuner, trial id)
  retryQ : List Nat
  endOrder : List Nat
  tunerIds : List Nat
  maxTrials : Option Nat
  maxRetries : Nat
  maxConsec : Nat
  aborted : Bool
  alg : A

structure Alg (V A : Type) where
  populate : Oracle V A → Nat → A × Pop V     -- second argument: external choice
  onEnd : A → Nat → A
  scoreOf : List (Option Int) → Option Int    -- best value of the objective; none = NaN

inductive Out (V : Type) | trial (id : Nat) (v : V) | idle | stopped | ok | bad | abort

variable {V A : Type}

def holds (o : Oracle V A) (tuner : Nat) : Option Nat := o.ongoing.lookup tuner

def budgetReached (o : Oracle V A) : Bool :=
  match o.maxTrials with
  | some m => decide (m ≤ o.trials.length)
  | none => false

def setTrial (ts : List (Trial V)) (i : Nat) (f : Trial V → Trial V) : List (Trial V) := ts.modify i f

def addTuner (l : List Nat) (t : Nat) : List Nat := if l.contains t then l else l ++ [t]

def create (alg : Alg V A) (o : Oracle V A) (tuner : Nat) (choice : Nat) : Oracle V A × Out V :=
  match holds o tuner with
  | some id =>
    match o.trials[id]? with
    | some t => (o, .trial id t.vals)
    | none => (o, .bad)
  | none =>
    let o := { o with tunerIds := addTuner o.tunerIds tuner }
    match o.retryQ.getLast? with
    | some id =>
      match o.trials[id]? with
      | some t =>
        ({ o with trials := setTrial o.trials id (fun t => { t with status := .running }),
                  retryQ := o.retryQ.dropLast,
                  ongoing := o.ongoing ++ [(tuner, id)] }, .trial id t.vals)
      | none => (o, .bad)
    | none =>
      if budgetReached o then
        ({ o with tunerIds := o.tunerIds.erase tuner }, .stopped)
      else
        match alg.populate o choice with
        | (a, .run v) =>
          ({ o with alg := a,
                    trials := o.trials ++ [{ vals := v, status := .running, runs := 0, score := none, reports := [] }],
                    ongoing := o.ongoing ++ [(tuner, o.trials.length)] }, .trial o.trials.length v)
        | (a, .idle) => ({ o with alg := a }, .idle)
        | (a, .stop) => ({ o with alg := a, tunerIds := o.tunerIds.erase tuner }, .stopped)

def update (o : Oracle V A) (id : Nat) (r : Option Int) : Oracle V A × Out V :=
  match o.trials[id]? with
  | some _ => ({ o with trials := setTrial o.trials id (fun t => { t with reports := t.reports ++ [r] }) }, .ok)
  | none => (o, .bad)

inductive Outcome | completed | invalid | failed
  deriving DecidableEq

/-- does the status list contain `k` consecutive `failed`? (the scanning loop of the code) -/
def streakFrom (k : Nat) : Nat → List Status → Bool
  | _, [] => false
  | c, s :: rest =>
    let c' := if s = .failed then c + 1 else 0
    if c' = k then true else streakFrom k c' rest

def hasStreak (k : Nat) (l : List Status) : Bool := streakFrom k 0 l

def statusOf (ts : List (Trial V)) (i : Nat) : Status :=
  match ts[i]? with
  | some t => t.status
  | none => .running

def isOngoing (o : Oracle V A) (id : Nat) : Bool := o.ongoing.any (fun p => p.2 == id)

structure EndDecision where
  st : Status
  sc : Option Int
  retry : Bool

/-- status after the run: NaN score turns COMPLETED into INVALID; INVALID is retried below the
    run limit and FAILED at it (`_retry`) -/
def endDecision (alg : Alg V A) (maxRetries : Nat) (t : Trial V) (oc : Outcome) : EndDecision :=
  let sc : Option Int := if oc = .completed then alg.scoreOf t.reports else none
  let st0 : Status :=
    match oc with
    | .completed => if sc.isSome then .completed else .invalid
    | .invalid => .invalid
    | .failed => .failed
  if st0 = .invalid then
    if t.runs + 1 < maxRetries + 1 then ⟨.invalid, sc, true⟩ else ⟨.failed, sc, false⟩
  else ⟨st0, sc, false⟩

/-- `end_trial` on the repaired code: metrics reset when queued for retry, ongoing entry dropped
    before saving (no observable difference at this level), abort keeps the entry (as the code). -/
def endT (alg : Alg V A) (o : Oracle V A) (id : Nat) (oc : Outcome) : Oracle V A × Out V :=
  match o.trials[id]? with
  | none => (o, .bad)
  | some t =>
    if !isOngoing o id then (o, .bad) else
    let d := endDecision alg o.maxRetries t oc
    if d.retry then
      ({ o with trials := setTrial o.trials id (fun t' => { t' with status := d.st, runs := t.runs + 1, score := d.sc, reports := [] }),
                retryQ := o.retryQ ++ [id],
                ongoing := o.ongoing.filter (fun p => p.2 != id),
                alg := alg.onEnd o.alg id }, .ok)
    else
      let trials' := setTrial o.trials id (fun t' => { t' with status := d.st, runs := t.runs + 1, score := d.sc })
      let endOrder' := o.endOrder ++ [id]
      if hasStreak o.maxConsec (endOrder'.map (statusOf trials')) then
        ({ o with trials := trials', endOrder := endOrder', aborted := true }, .abort)
      else
        ({ o with trials := trials', endOrder := endOrder',
                  ongoing := o.ongoing.filter (fun p => p.2 != id),
                  alg := alg.onEnd o.alg id }, .ok)

theorem endDecision_spec (alg : Alg V A) (m : Nat) (t : Trial V) (oc : Outcome) :
    let d := endDecision alg m t oc
    (d.retry = true → d.st = .invalid) ∧ (d.retry = false → d.st = .completed ∨ d.st = .failed) ∧
    (d.st = .completed → d.sc.isSome) := by
  unfold endDecision
  cases oc <;> simp <;> (try split) <;> (try split) <;> simp_all

end Core
