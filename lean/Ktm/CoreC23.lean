import Ktm.CoreProps
import Ktm.Streak
namespace Core
variable {V A : Type}

/-! ### C01/C02 -/

/-- a tuner that already holds a trial gets the same trial back; nothing changes -/
theorem create_same_tuner (alg : Alg V A) (o : Oracle V A) (h : Inv o) (tuner c id : Nat)
    (hh : holds o tuner = some id) :
    ∃ v, create alg o tuner c = (o, .trial id v) := by
  have hm := lookup_mem _ _ _ hh
  obtain ⟨t, ht, _⟩ := h.ongoing_run _ hm
  exact ⟨t.vals, by simp [create, hh, ht]⟩

/-- C02: with the budget used up and no retry pending, a tuner without a trial is told STOPPED and
    no trial is added -/
theorem stopped_when_exhausted (alg : Alg V A) (o : Oracle V A) (tuner c : Nat)
    (hh : holds o tuner = none) (hq : o.retryQ = []) (hb : budgetReached o = true) :
    (create alg o tuner c).2 = .stopped ∧ (create alg o tuner c).1.trials = o.trials := by
  have hq' : o.retryQ.getLast? = none := by simp [hq]
  have hb' : budgetReached { o with tunerIds := addTuner o.tunerIds tuner } = true := hb
  simp only [create, hh, hq', hb', if_true, and_self]

/-- C02/C03: pending retries are served first, with the stored values, without consuming budget -/
theorem retry_first (alg : Alg V A) (o : Oracle V A) (h : Inv o) (tuner c id : Nat)
    (hh : holds o tuner = none) (hq : o.retryQ.getLast? = some id) :
    ∃ t, o.trials[id]? = some t ∧ (create alg o tuner c).2 = .trial id t.vals ∧
      (create alg o tuner c).1.trials.length = o.trials.length ∧
      (create alg o tuner c).1.retryQ = o.retryQ.dropLast := by
  have hmem : id ∈ o.retryQ := by rw [getLast?_decomp _ _ hq]; simp
  obtain ⟨t, ht⟩ := h.retry_ok id hmem
  exact ⟨t, ht, by simp [create, hh, hq, ht, length_setTrial]⟩

/-- C01: a new trial gets the next free id -/
theorem create_fresh_id (alg : Alg V A) (o : Oracle V A) (tuner c id : Nat) (v : V)
    (hh : holds o tuner = none) (hq : o.retryQ = []) (hout : (create alg o tuner c).2 = .trial id v) :
    id = o.trials.length ∧ (create alg o tuner c).1.trials.length = o.trials.length + 1 := by
  have hq' : o.retryQ.getLast? = none := by simp [hq]
  simp only [create, hh, hq'] at hout ⊢
  by_cases hb : budgetReached { o with tunerIds := addTuner o.tunerIds tuner } = true
  · simp only [hb, if_true] at hout; cases hout
  · simp only [hb, if_false] at hout ⊢
    cases hp : alg.populate { o with tunerIds := addTuner o.tunerIds tuner } c with
    | mk a pop =>
      cases pop with
      | run v' => simp only [hp] at hout ⊢; cases hout; simp
      | idle => simp only [hp] at hout; cases hout
      | stop => simp only [hp] at hout; cases hout

/-! ### C03: what `end_trial` decides -/

theorem invalid_requeued (alg : Alg V A) (m : Nat) (t : Trial V) (oc : Outcome)
    (hinv : oc = .invalid ∨ (oc = .completed ∧ alg.scoreOf t.reports = none)) (hruns : t.runs + 1 < m + 1) :
    (endDecision alg m t oc).retry = true ∧ (endDecision alg m t oc).st = .invalid := by
  unfold endDecision
  rcases hinv with h | ⟨h, hs⟩ <;> subst h <;> simp_all

theorem failed_at_limit (alg : Alg V A) (m : Nat) (t : Trial V) (oc : Outcome)
    (hinv : oc = .invalid ∨ (oc = .completed ∧ alg.scoreOf t.reports = none)) (hruns : ¬ t.runs + 1 < m + 1) :
    (endDecision alg m t oc).retry = false ∧ (endDecision alg m t oc).st = .failed := by
  unfold endDecision
  have hlt : ¬ t.runs < m := by omega
  rcases hinv with h | ⟨h, hs⟩ <;> subst h <;> simp_all <;> simp [if_neg (show ¬ t.runs < m by omega)]

theorem failed_final (alg : Alg V A) (m : Nat) (t : Trial V) :
    (endDecision alg m t .failed).retry = false ∧ (endDecision alg m t .failed).st = .failed := by
  simp [endDecision]

/-- a run that finishes normally with a non-NaN objective makes the trial COMPLETED with the score of
    what was reported (on the repaired code the reports are those of this run only) -/
theorem completed_with_score (alg : Alg V A) (m : Nat) (t : Trial V) (s : Int)
    (hs : alg.scoreOf t.reports = some s) :
    (endDecision alg m t .completed).retry = false ∧ (endDecision alg m t .completed).st = .completed ∧
    (endDecision alg m t .completed).sc = some s := by
  simp [endDecision, hs]

/-- after a trial is queued for retry its reports are empty, so the next run's score depends on that
    run's reports only (F12 repaired) -/
theorem retry_resets_reports (alg : Alg V A) (o : Oracle V A) (id : Nat) (oc : Outcome) (t : Trial V)
    (ht : o.trials[id]? = some t) (hon : isOngoing o id = true)
    (hr : (endDecision alg o.maxRetries t oc).retry = true) :
    ∃ t', (endT alg o id oc).1.trials[id]? = some t' ∧ t'.reports = [] ∧ t'.vals = t.vals := by
  simp [endT, ht, hon, hr, getElem?_setTrial]

end Core
