import Ktm.PersistOps
/-! C11: a bound on the number of trial runs. Every RUNNING answer to a tuner that holds nothing ("issuance")
    is paid for by the potential `psi` = Σ over trials of (finished runs + 1 if currently handed out); a trial
    never accumulates more than `maxRetries + 1` of it. Hence, for every request list, every algorithm and
    every outcome pattern: issuances ≤ (number of distinct trials) · (maxRetries + 1). -/
namespace Core
variable {V A : Type}

def runsOf (o : Oracle V A) (i : Nat) : Nat := match o.trials[i]? with | some t => t.runs | none => 0
def out1 (o : Oracle V A) (i : Nat) : Nat := if i ∈ o.ongoing.map (·.2) then 1 else 0
def wOf (o : Oracle V A) (i : Nat) : Nat := runsOf o i + out1 o i
def psi (o : Oracle V A) : Nat := ((List.range o.trials.length).map (wOf o)).sum

theorem sum_range_congr (n : Nat) (f g : Nat → Nat) (h : ∀ i, i < n → g i = f i) :
    ((List.range n).map g).sum = ((List.range n).map f).sum := by
  induction n with
  | zero => rfl
  | succ n ih =>
    rw [List.range_succ, List.map_append, List.map_append, List.sum_append, List.sum_append,
      ih (fun i hi => h i (by omega))]
    simp [h n (by omega)]

theorem sum_range_bump (n : Nat) (f g : Nat → Nat) (j δ : Nat) (hj : j < n)
    (hne : ∀ i, i < n → i ≠ j → g i = f i) (hjv : g j = f j + δ) :
    ((List.range n).map g).sum = ((List.range n).map f).sum + δ := by
  induction n with
  | zero => omega
  | succ n ih =>
    rw [List.range_succ, List.map_append, List.map_append, List.sum_append, List.sum_append]
    simp only [List.map_cons, List.map_nil, List.sum_cons, List.sum_nil, Nat.add_zero]
    by_cases hjn : j = n
    · subst hjn
      rw [sum_range_congr j f g (fun i hi => hne i (by omega) (by omega)), hjv]; omega
    · rw [ih (by omega) (fun i hi hij => hne i (by omega) hij), hne n (by omega) (fun h => hjn h.symm)]; omega

theorem sum_range_le (n : Nat) (f : Nat → Nat) (b : Nat) (h : ∀ i, i < n → f i ≤ b) :
    ((List.range n).map f).sum ≤ n * b := by
  induction n with
  | zero => simp
  | succ n ih =>
    rw [List.range_succ, List.map_append, List.sum_append]
    have := ih (fun i hi => h i (by omega))
    have := h n (by omega)
    simp only [List.map_cons, List.map_nil, List.sum_cons, List.sum_nil, Nat.add_zero]
    rw [Nat.succ_mul]; omega

/-- per-trial accounting: finished runs, plus one while the trial is handed out or waiting for a retry, never
    exceed `maxRetries + 1` -/
def KInv (o : Oracle V A) : Prop :=
  ∀ (i : Nat) (t : Trial V), o.trials[i]? = some t →
    t.runs + (if i ∈ o.ongoing.map (·.2) ∨ i ∈ o.retryQ then 1 else 0) ≤ o.maxRetries + 1

theorem psi_le (o : Oracle V A) (k : KInv o) : psi o ≤ o.trials.length * (o.maxRetries + 1) := by
  apply sum_range_le
  intro i hi
  have ht : o.trials[i]? = some (o.trials[i]'hi) := List.getElem?_eq_getElem hi
  have := k i _ ht
  simp only [wOf, runsOf, out1, ht]
  split <;> rename_i h1
  · simp only [h1, true_or, if_true] at this; omega
  · split at this <;> omega

/-- 1 if this request is answered with a trial for a tuner that was not already holding one -/
def issuedStep (alg : Alg V A) (o : Oracle V A) (op : Op) : Nat :=
  match op, (step alg o op).2 with
  | .create t _, .trial _ _ => if (holds o t).isSome then 0 else 1
  | _, _ => 0

/-- number of RUNNING answers given to tuners that were not already holding a trial -/
def issuedBy (alg : Alg V A) : Oracle V A → List Op → Nat
  | _, [] => 0
  | o, op :: ops =>
    issuedStep alg o op + (match (step alg o op).2 with | .abort => 0 | _ => issuedBy alg (step alg o op).1 ops)

def endRetryF (st : Status) (sc : Option Int) (runs : Nat) (t' : Trial V) : Trial V := { t' with status := st, runs := runs, score := sc, reports := [] }
def endFinalF (st : Status) (sc : Option Int) (runs : Nat) (t' : Trial V) : Trial V := { t' with status := st, runs := runs, score := sc }

theorem retry_true_runs (alg : Alg V A) (m : Nat) (t : Trial V) (oc : Outcome)
    (h : (endDecision alg m t oc).retry = true) : t.runs + 1 < m + 1 := by
  by_cases h1 : t.runs + 1 < m + 1
  · exact h1
  · exfalso
    unfold endDecision at h
    cases oc <;> simp [h1] at h <;> (split at h <;> simp_all)

theorem create_maxRetries (alg : Alg V A) (o : Oracle V A) (tuner c : Nat) :
    (create alg o tuner c).1.maxRetries = o.maxRetries := by
  simp only [create]
  split
  · split <;> rfl
  · split
    · split <;> rfl
    · split
      · rfl
      · split <;> rfl

/-- facts about one non-aborting step: the invariants survive, configuration is kept, trials only grow, and
    the potential grows by exactly the issuance -/
theorem step_account (alg : Alg V A) (o : Oracle V A) (op : Op) (h : Inv o) (k : KInv o)
    (hna : (step alg o op).2 ≠ .abort) :
    KInv (step alg o op).1 ∧ (step alg o op).1.maxRetries = o.maxRetries ∧
    o.trials.length ≤ (step alg o op).1.trials.length ∧
    psi (step alg o op).1 = psi o + issuedStep alg o op := by
  cases op with
  | create tuner c =>
    simp only [step, issuedStep]
    have hsh := create_shape alg o tuner c
    have hmr := create_maxRetries alg o tuner c
    cases hsh with
    | same ht ho hr he hout =>
      have hk : KInv (create alg o tuner c).1 := by
        intro i t hti
        rw [ht] at hti
        have := k i t hti
        rw [ho, hr, hmr]; exact this
      have hpsi : psi (create alg o tuner c).1 = psi o := by
        unfold psi
        rw [ht]
        apply sum_range_congr
        intro i _
        simp only [wOf, runsOf, out1, ht, ho]
      refine ⟨hk, hmr, by rw [ht]; exact Nat.le_refl _, ?_⟩
      rw [hpsi]
      cases hout' : (create alg o tuner c).2 with
      | trial id v => simp [hout id v hout']
      | _ => simp
    | retry rid t hq htr ht ho hr he hout =>
      have hmem : rid ∈ o.retryQ := by rw [getLast?_decomp _ _ hq]; simp
      have hnon : rid ∉ o.ongoing.map (·.2) := h.retry_not_ongoing rid hmem
      have hlt : rid < o.trials.length := (List.getElem?_eq_some_iff.mp htr).1
      have hholds : holds o tuner = none := by
        cases hh : holds o tuner with
        | none => rfl
        | some id' =>
          exfalso
          obtain ⟨v', hv'⟩ := create_same_tuner alg o h tuner c id' hh
          rw [hv'] at ho
          have : o.ongoing.length = (o.ongoing ++ [(tuner, rid)]).length := congrArg List.length ho
          simp at this
      have hdl : ∀ i, i ∈ o.retryQ.dropLast → i ∈ o.retryQ := fun i hi => (List.dropLast_sublist _).subset hi
      have hk : KInv (create alg o tuner c).1 := by
        intro i t' hti
        rw [ht, getElem?_setTrial] at hti
        rw [ho, hr, hmr]
        by_cases hi : rid = i
        · subst hi
          simp only [if_true, htr, Option.map_some, Option.some.injEq] at hti
          have := k rid t htr
          simp only [hmem, or_true, if_true] at this
          rw [← hti]; simp; omega
        · simp only [hi, if_false] at hti
          have := k i t' hti
          by_cases hc : i ∈ o.ongoing.map (·.2) ∨ i ∈ o.retryQ
          · simp only [hc, if_true] at this; split <;> omega
          · simp only [hc, if_false] at this
            have : ¬ (i ∈ (o.ongoing ++ [(tuner, rid)]).map (·.2) ∨ i ∈ o.retryQ.dropLast) := by
              intro hcc
              rcases hcc with h1 | h1
              · simp only [List.map_append, List.mem_append, List.map_cons, List.map_nil, List.mem_singleton] at h1
                rcases h1 with h1 | h1
                · exact hc (Or.inl h1)
                · exact hi h1.symm
              · exact hc (Or.inr (hdl i h1))
            simp only [this, if_false]; omega
      have hpsi : psi (create alg o tuner c).1 = psi o + 1 := by
        unfold psi
        rw [ht, length_setTrial]
        apply sum_range_bump _ _ _ rid 1 hlt
        · intro i _ hij
          simp only [wOf, runsOf, out1, ht, ho, getElem?_setTrial, Ne.symm hij, if_false]
          congr 1
          simp only [List.map_append, List.mem_append, List.map_cons, List.map_nil, List.mem_singleton, hij, or_false]
        · simp only [wOf, runsOf, out1, ht, ho, getElem?_setTrial, if_true, htr, Option.map_some]
          simp [hnon]
      refine ⟨hk, hmr, by rw [ht, length_setTrial]; exact Nat.le_refl _, ?_⟩
      rw [hpsi, hout]; simp [hholds]
    | fresh v ht ho hr he hout hq =>
      have hholds : holds o tuner = none := by
        cases hh : holds o tuner with
        | none => rfl
        | some id' =>
          exfalso
          obtain ⟨v', hv'⟩ := create_same_tuner alg o h tuner c id' hh
          rw [hv'] at ho
          have : o.ongoing.length = (o.ongoing ++ [(tuner, o.trials.length)]).length := congrArg List.length ho
          simp at this
      have hnew : o.trials.length ∉ o.ongoing.map (·.2) := by
        intro hm
        obtain ⟨⟨t, htt, _⟩, _, _⟩ := ongoing_facts o h _ hm
        have := (List.getElem?_eq_some_iff.mp htt).1
        omega
      have hk : KInv (create alg o tuner c).1 := by
        intro i t' hti
        rw [ht] at hti
        rw [ho, hr, hmr]
        by_cases hi : i < o.trials.length
        · rw [List.getElem?_append_left hi] at hti
          have := k i t' hti
          by_cases hc : i ∈ o.ongoing.map (·.2) ∨ i ∈ o.retryQ
          · simp only [hc, if_true] at this; split <;> omega
          · simp only [hc, if_false] at this
            have : ¬ (i ∈ (o.ongoing ++ [(tuner, o.trials.length)]).map (·.2) ∨ i ∈ o.retryQ) := by
              intro hcc
              rcases hcc with h1 | h1
              · simp only [List.map_append, List.mem_append, List.map_cons, List.map_nil, List.mem_singleton] at h1
                rcases h1 with h1 | h1
                · exact hc (Or.inl h1)
                · omega
              · exact hc (Or.inr h1)
            simp only [this, if_false]; omega
        · have hlen : i = o.trials.length := by
            have := (List.getElem?_eq_some_iff.mp hti).1
            simp at this; omega
          subst hlen
          simp at hti
          rw [← hti]; simp
      have hpsi : psi (create alg o tuner c).1 = psi o + 1 := by
        unfold psi
        rw [ht, List.length_append, List.length_singleton, List.range_succ, List.map_append, List.sum_append]
        have e1 : ((List.range o.trials.length).map (wOf (create alg o tuner c).1)).sum =
            ((List.range o.trials.length).map (wOf o)).sum := by
          apply sum_range_congr
          intro i hi
          simp only [wOf, runsOf, out1, ht, ho, List.getElem?_append_left hi]
          congr 1
          have : i ≠ o.trials.length := by omega
          simp only [List.map_append, List.mem_append, List.map_cons, List.map_nil, List.mem_singleton, this, or_false]
        rw [e1]
        simp [wOf, runsOf, out1, ht, ho]
      refine ⟨hk, hmr, by rw [ht]; simp, ?_⟩
      rw [hpsi, hout]; simp [hholds]
  | update id r =>
    simp only [step, update, issuedStep]
    cases ht : o.trials[id]? with
    | none => refine ⟨k, ?_, ?_, ?_⟩ <;> simp
    | some t =>
      simp only []
      refine ⟨?_, by simp, by simp [length_setTrial], ?_⟩
      · intro i t' hti
        rw [getElem?_setTrial] at hti
        by_cases hi : id = i
        · subst hi
          simp only [if_true, ht, Option.map_some, Option.some.injEq] at hti
          have := k id t ht
          rw [← hti]; exact this
        · simp only [hi, if_false] at hti; exact k i t' hti
      · have : psi ({ o with trials := setTrial o.trials id fun t => { t with reports := t.reports ++ [r] } } : Oracle V A) = psi o := by
          unfold psi
          rw [length_setTrial]
          apply sum_range_congr
          intro i _
          simp only [wOf, runsOf, out1, getElem?_setTrial]
          by_cases hi : id = i
          · subst hi; simp [ht]
          · simp [hi]
        rw [this]; simp
  | endT id oc =>
    simp only [step, issuedStep] at hna ⊢
    cases hti : o.trials[id]? with
    | none =>
      have : endT alg o id oc = (o, .bad) := by simp [endT, hti]
      rw [this]; exact ⟨k, rfl, Nat.le_refl _, by simp⟩
    | some t =>
      cases hon : isOngoing o id with
      | false =>
        have : endT alg o id oc = (o, .bad) := by simp [endT, hti, hon]
        rw [this]; exact ⟨k, rfl, Nat.le_refl _, by simp⟩
      | true =>
        have hmem := isOngoing_mem o id hon
        have hlt : id < o.trials.length := (List.getElem?_eq_some_iff.mp hti).1
        have hkt := k id t hti
        simp only [hmem, true_or, if_true] at hkt
        -- both non-aborting branches have this shape
        have key : ∀ (f : Trial V → Trial V) (rq eo : List Nat) (a : A) (aborted' : Bool),
            (f t).runs = t.runs + 1 →
            (id ∈ rq → t.runs + 1 < o.maxRetries + 1) → (∀ i, i ≠ id → (i ∈ rq ↔ i ∈ o.retryQ)) →
            let o' : Oracle V A := { o with trials := setTrial o.trials id f, retryQ := rq, endOrder := eo,
                                             ongoing := o.ongoing.filter (fun p => p.2 != id), alg := a, aborted := aborted' }
            KInv o' ∧ o'.maxRetries = o.maxRetries ∧ o.trials.length ≤ o'.trials.length ∧ psi o' = psi o := by
          intro f rq eo a ab hf hq hrq o'
          refine ⟨?_, rfl, by simp [o', length_setTrial], ?_⟩
          · intro i t' hti'
            simp only [o', getElem?_setTrial] at hti'
            by_cases hi : id = i
            · subst hi
              simp only [if_true, hti, Option.map_some, Option.some.injEq] at hti'
              rw [← hti', hf]
              have hnot : id ∉ (o.ongoing.filter (fun p => p.2 != id)).map (·.2) := by
                intro hm; exact ((mem_filter_ids _ _ _).mp hm).2 rfl
              by_cases hidq : id ∈ rq
              · have := hq hidq
                simp only [o', hnot, hidq, or_true, if_true]; omega
              · simp only [o', hnot, hidq, or_self, if_false]; omega
            · simp only [hi, if_false] at hti'
              have := k i t' hti'
              have hong : (i ∈ (o.ongoing.filter (fun p => p.2 != id)).map (·.2)) ↔ i ∈ o.ongoing.map (·.2) := by
                rw [mem_filter_ids]; exact ⟨fun h => h.1, fun h => ⟨h, fun e => hi e.symm⟩⟩
              have hrq' := hrq i (fun e => hi e.symm)
              simp only [o']
              by_cases hc : i ∈ o.ongoing.map (·.2) ∨ i ∈ o.retryQ
              · simp only [hc, if_true] at this; split <;> omega
              · simp only [hc, if_false] at this
                have : ¬ (i ∈ (o.ongoing.filter (fun p => p.2 != id)).map (·.2) ∨ i ∈ rq) := by
                  intro hcc; rcases hcc with h1 | h1
                  · exact hc (Or.inl (hong.mp h1))
                  · exact hc (Or.inr (hrq'.mp h1))
                simp only [this, if_false]; omega
          · unfold psi
            simp only [o', length_setTrial]
            apply sum_range_congr
            intro i _
            simp only [wOf, runsOf, out1, getElem?_setTrial]
            by_cases hi : id = i
            · subst hi
              have hnot : id ∉ (o.ongoing.filter (fun p => p.2 != id)).map (·.2) := by
                intro hm; exact ((mem_filter_ids _ _ _).mp hm).2 rfl
              simp [hti, hf, hnot, hmem]
            · have hong : (i ∈ (o.ongoing.filter (fun p => p.2 != id)).map (·.2)) ↔ i ∈ o.ongoing.map (·.2) := by
                rw [mem_filter_ids]; exact ⟨fun h => h.1, fun h => ⟨h, fun e => hi e.symm⟩⟩
              simp only [hi, if_false]
              congr 1
              by_cases hc : i ∈ o.ongoing.map (·.2)
              · simp [hc, hong.mpr hc]
              · have : i ∉ (o.ongoing.filter (fun p => p.2 != id)).map (·.2) := fun hm => hc (hong.mp hm)
                simp [hc, this]
        have hidnq : id ∉ o.retryQ := (ongoing_facts o h id hmem).2.1
        cases hret : (endDecision alg o.maxRetries t oc).retry with
        | true =>
          have hruns := retry_true_runs alg o.maxRetries t oc hret
          have heq : (endT alg o id oc).2 = .ok ∧ (endT alg o id oc).1 =
              { o with trials := setTrial o.trials id (endRetryF (endDecision alg o.maxRetries t oc).st (endDecision alg o.maxRetries t oc).sc (t.runs + 1)), retryQ := o.retryQ ++ [id], endOrder := o.endOrder, ongoing := o.ongoing.filter (fun p => p.2 != id), alg := alg.onEnd o.alg id, aborted := o.aborted } := by
            constructor
            · simp [endT, hti, hon, hret]
            · simp only [endT, hti, hon, hret, Bool.not_true, Bool.false_eq_true, if_false, if_true]; rfl
          have := key (endRetryF (endDecision alg o.maxRetries t oc).st (endDecision alg o.maxRetries t oc).sc (t.runs + 1))
            (o.retryQ ++ [id]) o.endOrder (alg.onEnd o.alg id) o.aborted rfl (fun _ => hruns)
            (fun i hi => by simp [hi])
          obtain ⟨h1, h2, h3, h4⟩ := this
          rw [heq.2]
          exact ⟨h1, h2, h3, by simp [h4]⟩
        | false =>
          cases hs : hasStreak o.maxConsec ((o.endOrder ++ [id]).map (statusOf (setTrial o.trials id (fun t' =>
              { t' with status := (endDecision alg o.maxRetries t oc).st, runs := t.runs + 1,
                        score := (endDecision alg o.maxRetries t oc).sc })))) with
          | true =>
            exfalso; apply hna
            simp only [endT, hti, hon, hret, Bool.not_true, Bool.false_eq_true, if_false]
            rw [if_pos hs]
          | false =>
            have heq : (endT alg o id oc).2 = .ok ∧ (endT alg o id oc).1 =
                { o with trials := setTrial o.trials id (endFinalF (endDecision alg o.maxRetries t oc).st (endDecision alg o.maxRetries t oc).sc (t.runs + 1)), retryQ := o.retryQ, endOrder := o.endOrder ++ [id], ongoing := o.ongoing.filter (fun p => p.2 != id), alg := alg.onEnd o.alg id, aborted := o.aborted } := by
              simp only [endT, hti, hon, hret, Bool.not_true, Bool.false_eq_true, if_false]
              rw [if_neg (by rw [hs]; decide)]
              exact ⟨rfl, rfl⟩
            have := key (endFinalF (endDecision alg o.maxRetries t oc).st (endDecision alg o.maxRetries t oc).sc (t.runs + 1))
              o.retryQ (o.endOrder ++ [id]) (alg.onEnd o.alg id) o.aborted rfl (fun hq => absurd hq hidnq)
              (fun i _ => Iff.rfl)
            obtain ⟨h1, h2, h3, h4⟩ := this
            rw [heq.2]
            exact ⟨h1, h2, h3, by simp [h4]⟩

end Core

namespace Core
variable {V A : Type}

theorem kinv_init (a : A) (m : Option Nat) (r k : Nat) : KInv (init (V := V) a m r k) := by
  intro i t h; simp [init] at h

theorem endT_length (alg : Alg V A) (o : Oracle V A) (id : Nat) (oc : Outcome) :
    (endT alg o id oc).1.trials.length = o.trials.length := by
  unfold endT
  split
  · rfl
  · split
    · rfl
    · simp only []
      split
      · simp [length_setTrial]
      · split <;> simp [length_setTrial]

/-- **bounded number of trial runs**: for every algorithm, every request list from any number of tuners and
    every outcome pattern, the number of RUNNING answers handed to tuners that held nothing is at most
    (number of distinct trials) × (max_retries_per_trial + 1) -/
theorem runs_bounded (alg : Alg V A) (ops : List Op) : ∀ (o : Oracle V A), Inv o → KInv o →
    issuedBy alg o ops + psi o ≤ (run alg o ops).trials.length * (o.maxRetries + 1) := by
  induction ops with
  | nil => intro o _ k; simpa [issuedBy, run] using psi_le o k
  | cons op ops ih =>
    intro o h k
    simp only [issuedBy, run]
    cases hout : (step alg o op).2 with
    | abort =>
      simp only []
      cases op with
      | create t c => exact absurd hout (create_not_abort alg o t c)
      | update id r => exact absurd hout (update_not_abort o id r)
      | endT id oc =>
        have h0 : issuedStep alg o (.endT id oc) = 0 := by simp [issuedStep]
        have hlen : (step alg o (.endT id oc)).1.trials.length = o.trials.length := endT_length alg o id oc
        rw [h0, hlen]
        have := psi_le o k
        omega
    | _ =>
      all_goals
        have hna : (step alg o op).2 ≠ .abort := by rw [hout]; intro hc; cases hc
        obtain ⟨k', hmr, _, hpsi⟩ := step_account alg o op h k hna
        have := ih (step alg o op).1 (inv_step alg o op h hna) k'
        rw [hmr, hpsi] at this
        simp only []
        omega

end Core
#print axioms Core.runs_bounded
