import Ktm.CoreInv
namespace Core
variable {V A : Type}

/-- adding a fresh running trial at the end keeps the invariant -/
theorem inv_new_trial (o : Oracle V A) (h : Inv o) (tuner : Nat) (v : V) (a : A) (tids : List Nat)
    (hnt : tuner ∉ o.ongoing.map (·.1)) (hb : budgetReached o = false) :
    Inv { o with alg := a, tunerIds := tids,
                 trials := o.trials ++ [{ vals := v, status := .running, runs := 0, score := none, reports := [] }],
                 ongoing := o.ongoing ++ [(tuner, o.trials.length)] } := by
  have hnew_not : o.trials.length ∉ o.ongoing.map (·.2) := by
    intro hm
    obtain ⟨p, hp, hpe⟩ := List.mem_map.mp hm
    obtain ⟨t, ht, _⟩ := h.ongoing_run p hp
    rw [hpe] at ht
    have := (List.getElem?_eq_some_iff.mp ht).1
    omega
  have old_get : ∀ (i : Nat) (t : Trial V), o.trials[i]? = some t →
      (o.trials ++ [({ vals := v, status := .running, runs := 0, score := none, reports := [] } : Trial V)])[i]? = some t := by
    intro i t ht
    have hlt := (List.getElem?_eq_some_iff.mp ht).1
    rw [List.getElem?_append_left hlt]; exact ht
  have new_get : ∀ (i : Nat) (t : Trial V),
      (o.trials ++ [({ vals := v, status := .running, runs := 0, score := none, reports := [] } : Trial V)])[i]? = some t →
      o.trials[i]? = some t ∨ (i = o.trials.length ∧ t.status = .running) := by
    intro i t ht
    by_cases hlt : i < o.trials.length
    · rw [List.getElem?_append_left hlt] at ht; exact Or.inl ht
    · have hge : o.trials.length ≤ i := Nat.le_of_not_lt hlt
      rw [List.getElem?_append_right hge] at ht
      by_cases h0 : i - o.trials.length = 0
      · simp [h0] at ht; subst ht; exact Or.inr ⟨by omega, rfl⟩
      · simp [h0] at ht
  have statusOf_old : ∀ i ∈ o.endOrder,
      statusOf (o.trials ++ [({ vals := v, status := .running, runs := 0, score := none, reports := [] } : Trial V)]) i
        = statusOf o.trials i := by
    intro i hi
    obtain ⟨t, ht, _⟩ := h.end_ok i hi
    simp [statusOf, old_get i t ht, ht]
  constructor
  · intro p hp
    simp only [List.mem_append, List.mem_singleton] at hp
    rcases hp with hp | hp
    · obtain ⟨t, ht, hst⟩ := h.ongoing_run p hp
      exact ⟨t, old_get _ _ ht, hst⟩
    · subst hp; simp
  · simp only [List.map_append, List.map_cons, List.map_nil]
    exact (nodup_append_singleton _ _).mpr ⟨h.ongoing_tuners, hnt⟩
  · simp only [List.map_append, List.map_cons, List.map_nil]
    exact (nodup_append_singleton _ _).mpr ⟨h.ongoing_ids, hnew_not⟩
  · intro i hi
    obtain ⟨t, ht⟩ := h.retry_ok i hi
    exact ⟨t, old_get _ _ ht⟩
  · exact h.retry_nodup
  · intro i hi
    simp only [List.map_append, List.map_cons, List.map_nil, List.mem_append, List.mem_singleton, not_or]
    refine ⟨h.retry_not_ongoing i hi, ?_⟩
    obtain ⟨t, ht⟩ := h.retry_ok i hi
    have := (List.getElem?_eq_some_iff.mp ht).1
    omega
  · exact h.retry_not_end
  · intro i hi
    obtain ⟨t, ht, hst⟩ := h.end_ok i hi
    exact ⟨t, old_get _ _ ht, hst⟩
  · exact h.end_nodup
  · intro i t ht
    rcases new_get i t ht with ht' | ⟨hi, hst⟩
    · rcases h.cover i t ht' with h1 | h1 | h1
      · left; simp only [List.map_append, List.mem_append]; exact Or.inl h1
      · exact Or.inr (Or.inl h1)
      · exact Or.inr (Or.inr h1)
    · subst hi; left; simp
  · intro i hi t ht hs
    rcases new_get i t ht with ht' | ⟨_, hst⟩
    · exact h.scored i hi t ht' hs
    · rw [hst] at hs; cases hs
  · intro m hm
    have hm' : o.maxTrials = some m := hm
    unfold budgetReached at hb
    rw [hm'] at hb
    simp only [decide_eq_false_iff_not, Nat.not_le] at hb
    simp; omega
  · have : (o.endOrder.map (statusOf (o.trials ++ [({ vals := v, status := .running, runs := 0, score := none, reports := [] } : Trial V)])))
        = o.endOrder.map (statusOf o.trials) := List.map_congr_left statusOf_old
    simp only [this]; exact h.no_streak
  · exact h.not_aborted

/-- the invariant does not mention `alg` or `tunerIds` -/
theorem inv_alg_tids (o : Oracle V A) (h : Inv o) (a : A) (tids : List Nat) :
    Inv { o with alg := a, tunerIds := tids } := by
  constructor
  · exact h.ongoing_run
  · exact h.ongoing_tuners
  · exact h.ongoing_ids
  · exact h.retry_ok
  · exact h.retry_nodup
  · exact h.retry_not_ongoing
  · exact h.retry_not_end
  · exact h.end_ok
  · exact h.end_nodup
  · exact h.cover
  · exact h.scored
  · exact h.budget
  · exact h.no_streak
  · exact h.not_aborted

end Core

namespace Core
variable {V A : Type}

/-- re-issuing the last queued trial keeps the invariant -/
theorem inv_retry_issue (o : Oracle V A) (h : Inv o) (tuner id : Nat) (tids : List Nat)
    (hnt : tuner ∉ o.ongoing.map (·.1)) (hlast : o.retryQ.getLast? = some id) :
    Inv { o with tunerIds := tids,
                 trials := setTrial o.trials id (fun t => { t with status := .running }),
                 retryQ := o.retryQ.dropLast,
                 ongoing := o.ongoing ++ [(tuner, id)] } := by
  have hq := getLast?_decomp _ _ hlast
  have hidmem : id ∈ o.retryQ := by rw [hq]; simp
  obtain ⟨t0, ht0⟩ := h.retry_ok id hidmem
  have hnd : (o.retryQ.dropLast ++ [id]).Nodup := hq ▸ h.retry_nodup
  have hid_not_drop : id ∉ o.retryQ.dropLast := ((nodup_append_singleton _ _).mp hnd).2
  have hid_not_ongoing : id ∉ o.ongoing.map (·.2) := h.retry_not_ongoing id hidmem
  have hid_not_end : id ∉ o.endOrder := h.retry_not_end id hidmem
  have hdrop_sub : ∀ i ∈ o.retryQ.dropLast, i ∈ o.retryQ := by
    intro i hi; rw [hq]; simp [hi]
  have statusOf_old : ∀ i ∈ o.endOrder,
      statusOf (setTrial o.trials id (fun t => { t with status := .running })) i = statusOf o.trials i := by
    intro i hi
    have : id ≠ i := fun he => hid_not_end (he ▸ hi)
    simp [statusOf, getElem?_setTrial, this]
  constructor
  · intro p hp
    simp only [List.mem_append, List.mem_singleton] at hp
    simp only [getElem?_setTrial]
    rcases hp with hp | hp
    · obtain ⟨t, ht, hst⟩ := h.ongoing_run p hp
      split
      · rename_i he; exact ⟨_, by rw [← he, ht0]; rfl, rfl⟩
      · exact ⟨t, ht, hst⟩
    · subst hp; simp [ht0]
  · simp only [List.map_append, List.map_cons, List.map_nil]
    exact (nodup_append_singleton _ _).mpr ⟨h.ongoing_tuners, hnt⟩
  · simp only [List.map_append, List.map_cons, List.map_nil]
    exact (nodup_append_singleton _ _).mpr ⟨h.ongoing_ids, hid_not_ongoing⟩
  · intro i hi
    obtain ⟨t, ht⟩ := h.retry_ok i (hdrop_sub i hi)
    have : id ≠ i := fun he => hid_not_drop (he ▸ hi)
    exact ⟨t, by simp [getElem?_setTrial, this, ht]⟩
  · exact ((nodup_append_singleton _ _).mp hnd).1
  · intro i hi
    simp only [List.map_append, List.map_cons, List.map_nil, List.mem_append, List.mem_singleton, not_or]
    exact ⟨h.retry_not_ongoing i (hdrop_sub i hi), fun he => hid_not_drop (he ▸ hi)⟩
  · intro i hi; exact h.retry_not_end i (hdrop_sub i hi)
  · intro i hi
    obtain ⟨t, ht, hst⟩ := h.end_ok i hi
    have : id ≠ i := fun he => hid_not_end (he ▸ hi)
    exact ⟨t, by simp [getElem?_setTrial, this, ht], hst⟩
  · exact h.end_nodup
  · intro i t ht
    simp only [getElem?_setTrial] at ht
    split at ht
    · rename_i he; subst he; left; simp
    · rename_i hne
      rcases h.cover i t ht with h1 | h1 | h1
      · left; simp only [List.map_append, List.mem_append]; exact Or.inl h1
      · right; left
        rw [hq] at h1
        simp only [List.mem_append, List.mem_singleton] at h1
        rcases h1 with h1 | h1
        · exact h1
        · exact absurd h1.symm hne
      · exact Or.inr (Or.inr h1)
  · intro i hi t ht hs
    have : id ≠ i := fun he => hid_not_end (he ▸ hi)
    simp only [getElem?_setTrial, this, if_false] at ht
    exact h.scored i hi t ht hs
  · intro m hm; simpa [length_setTrial] using h.budget m hm
  · have : (o.endOrder.map (statusOf (setTrial o.trials id (fun t => { t with status := .running }))))
        = o.endOrder.map (statusOf o.trials) := List.map_congr_left statusOf_old
    simp only [this]; exact h.no_streak
  · exact h.not_aborted

theorem inv_create (alg : Alg V A) (o : Oracle V A) (tuner choice : Nat) (h : Inv o) :
    Inv (create alg o tuner choice).1 := by
  unfold create
  split
  · split <;> exact h
  · rename_i hlk
    have hnt : tuner ∉ o.ongoing.map (·.1) := lookup_none_not_mem _ _ hlk
    simp only
    split
    · rename_i id hlast
      split
      · exact inv_retry_issue o h tuner id _ hnt hlast
      · exact inv_alg_tids o h o.alg _
    · split
      · exact inv_alg_tids o h o.alg _
      · rename_i hb
        have hb' : budgetReached o = false := by
          simpa [budgetReached] using hb
        split
        · exact inv_new_trial o h tuner _ _ _ hnt hb'
        · exact inv_alg_tids o h _ _
        · exact inv_alg_tids o h _ _

end Core
#print axioms Core.inv_create
