import Ktm.CoreCreate
namespace Core
variable {V A : Type}

theorem inv_update (o : Oracle V A) (id : Nat) (r : Option Int) (h : Inv o) : Inv (update o id r).1 := by
  unfold update
  split
  · -- status/score untouched
    have key : ∀ (i : Nat) (t : Trial V),
        (setTrial o.trials id (fun t => { t with reports := t.reports ++ [r] }))[i]? = some t →
        ∃ t', o.trials[i]? = some t' ∧ t'.status = t.status ∧ t'.score = t.score := by
      intro i t ht
      simp only [getElem?_setTrial] at ht
      split at ht
      · cases hti : o.trials[i]? with
        | none => simp [hti] at ht
        | some t' => simp [hti] at ht; subst ht; exact ⟨t', rfl, rfl, rfl⟩
      · exact ⟨t, ht, rfl, rfl⟩
    have key2 : ∀ (i : Nat) (t : Trial V), o.trials[i]? = some t →
        ∃ t', (setTrial o.trials id (fun t => { t with reports := t.reports ++ [r] }))[i]? = some t' ∧ t'.status = t.status := by
      intro i t ht
      simp only [getElem?_setTrial]
      split
      · exact ⟨{ t with reports := t.reports ++ [r] }, by rw [ht]; rfl, rfl⟩
      · exact ⟨t, ht, rfl⟩
    have hst : ∀ i, statusOf (setTrial o.trials id (fun t => { t with reports := t.reports ++ [r] })) i = statusOf o.trials i := by
      intro i
      by_cases hidi : id = i
      · simp only [statusOf, getElem?_setTrial, hidi, if_true]
        cases hti : o.trials[i]? <;> simp
      · simp only [statusOf, getElem?_setTrial, hidi, if_false]
    constructor
    · intro p hp
      obtain ⟨t, ht, hs⟩ := h.ongoing_run p hp
      obtain ⟨t', ht', hs'⟩ := key2 _ _ ht
      exact ⟨t', ht', hs'.trans hs⟩
    · exact h.ongoing_tuners
    · exact h.ongoing_ids
    · intro i hi
      obtain ⟨t, ht⟩ := h.retry_ok i hi
      obtain ⟨t', ht', _⟩ := key2 _ _ ht
      exact ⟨t', ht'⟩
    · exact h.retry_nodup
    · exact h.retry_not_ongoing
    · exact h.retry_not_end
    · intro i hi
      obtain ⟨t, ht, hs⟩ := h.end_ok i hi
      obtain ⟨t', ht', hs'⟩ := key2 _ _ ht
      exact ⟨t', ht', by rw [hs']; exact hs⟩
    · exact h.end_nodup
    · intro i t ht
      obtain ⟨t', ht', _, _⟩ := key i t ht
      exact h.cover i t' ht'
    · intro i hi t ht hs
      obtain ⟨t', ht', hs', hsc⟩ := key i t ht
      rw [← hsc]; exact h.scored i hi t' ht' (hs'.trans hs)
    · intro m hm; simpa [length_setTrial] using h.budget m hm
    · have : (o.endOrder.map (statusOf (setTrial o.trials id (fun t => { t with reports := t.reports ++ [r] }))))
          = o.endOrder.map (statusOf o.trials) := List.map_congr_left (fun i _ => hst i)
      simp only [this]; exact h.no_streak
    · exact h.not_aborted
  · exact h

end Core

namespace Core
variable {V A : Type}

theorem isOngoing_iff (o : Oracle V A) (id : Nat) : isOngoing o id = true ↔ id ∈ o.ongoing.map (·.2) := by
  simp [isOngoing, List.any_eq_true]

theorem mem_filter_ids (l : List (Nat × Nat)) (id i : Nat) :
    i ∈ (l.filter (fun p => p.2 != id)).map (·.2) ↔ i ∈ l.map (·.2) ∧ i ≠ id := by
  simp only [List.mem_map, List.mem_filter]
  constructor
  · rintro ⟨p, ⟨hp, hne⟩, he⟩; subst he; exact ⟨⟨p, hp, rfl⟩, by simpa using hne⟩
  · rintro ⟨⟨p, hp, he⟩, hne⟩; subst he; exact ⟨p, ⟨hp, by simpa using hne⟩, rfl⟩

theorem nodup_map_filter {α β} (l : List α) (f : α → β) (p : α → Bool) (h : (l.map f).Nodup) :
    ((l.filter p).map f).Nodup :=
  h.sublist ((List.filter_sublist).map f)

/-- facts about a trial that is currently ongoing -/
theorem ongoing_facts (o : Oracle V A) (h : Inv o) (id : Nat) (hon : id ∈ o.ongoing.map (·.2)) :
    (∃ t, o.trials[id]? = some t ∧ t.status = .running) ∧ id ∉ o.retryQ ∧ id ∉ o.endOrder := by
  obtain ⟨p, hp, hpe⟩ := List.mem_map.mp hon
  obtain ⟨t, ht, hst⟩ := h.ongoing_run p hp
  rw [hpe] at ht
  refine ⟨⟨t, ht, hst⟩, ?_, ?_⟩
  · intro hm; exact h.retry_not_ongoing id hm hon
  · intro hm
    obtain ⟨t', ht', hst'⟩ := h.end_ok id hm
    rw [ht] at ht'; cases ht'; rw [hst] at hst'; rcases hst' with h | h <;> cases h

/-- common part: changing trial `id` (which is ongoing) to a non-running status `st`, dropping it from
    `ongoing`, and putting it into exactly one of retryQ / endOrder -/
theorem inv_end_common (o : Oracle V A) (h : Inv o) (id : Nat) (hon : id ∈ o.ongoing.map (·.2))
    (f : Trial V → Trial V) (st : Status) (hf : ∀ t, (f t).status = st) (hst : st ≠ .running)
    (hsc : st = .completed → ∀ t, (f t).score.isSome)
    (rq eo : List Nat) (a : A)
    (hrq : st = .invalid → rq = o.retryQ ++ [id] ∧ eo = o.endOrder)
    (heo : st ≠ .invalid → rq = o.retryQ ∧ eo = o.endOrder ++ [id])
    (hstreak : hasStreak o.maxConsec (eo.map (statusOf (setTrial o.trials id f))) = false) :
    Inv { o with trials := setTrial o.trials id f, retryQ := rq, endOrder := eo,
                 ongoing := o.ongoing.filter (fun p => p.2 != id), alg := a } := by
  obtain ⟨⟨t0, ht0, hst0⟩, hnrq, hneo⟩ := ongoing_facts o h id hon
  have other : ∀ (i : Nat), i ≠ id → (setTrial o.trials id f)[i]? = o.trials[i]? := by
    intro i hne; simp [getElem?_setTrial, Ne.symm hne]
  have self : (setTrial o.trials id f)[id]? = some (f t0) := by simp [getElem?_setTrial, ht0]
  have hrq_mem : ∀ i, i ∈ rq ↔ (i ∈ o.retryQ ∨ (st = .invalid ∧ i = id)) := by
    intro i
    by_cases hs : st = .invalid
    · rw [(hrq hs).1]; simp [hs]
    · rw [(heo hs).1]; simp [hs]
  have heo_mem : ∀ i, i ∈ eo ↔ (i ∈ o.endOrder ∨ (st ≠ .invalid ∧ i = id)) := by
    intro i
    by_cases hs : st = .invalid
    · rw [(hrq hs).2]; simp [hs]
    · rw [(heo hs).2]; simp [hs]
  constructor
  · intro p hp
    have hp' := List.mem_filter.mp hp
    have hne : p.2 ≠ id := by simpa using hp'.2
    obtain ⟨t, ht, hs⟩ := h.ongoing_run p hp'.1
    exact ⟨t, by rw [other _ hne]; exact ht, hs⟩
  · exact nodup_map_filter _ _ _ h.ongoing_tuners
  · exact nodup_map_filter _ _ _ h.ongoing_ids
  · intro i hi
    rcases (hrq_mem i).mp hi with hi | ⟨hs, hi⟩
    · have hne : i ≠ id := fun he => hnrq (he ▸ hi)
      obtain ⟨t, ht⟩ := h.retry_ok i hi
      exact ⟨t, by rw [other _ hne]; exact ht⟩
    · subst hi; exact ⟨f t0, self⟩
  · by_cases hs : st = .invalid
    · rw [(hrq hs).1]; exact (nodup_append_singleton _ _).mpr ⟨h.retry_nodup, hnrq⟩
    · rw [(heo hs).1]; exact h.retry_nodup
  · intro i hi hmem
    have hmem' := (mem_filter_ids _ _ _).mp hmem
    rcases (hrq_mem i).mp hi with hq | ⟨_, hq⟩
    · exact h.retry_not_ongoing i hq hmem'.1
    · exact hmem'.2 hq
  · intro i hi hmem
    rcases (hrq_mem i).mp hi with hq | ⟨hs, hq⟩
    · rcases (heo_mem i).mp hmem with hm | ⟨_, hm⟩
      · exact h.retry_not_end i hq hm
      · rw [hm] at hq; exact hnrq hq
    · rcases (heo_mem i).mp hmem with hm | ⟨hs', _⟩
      · rw [hq] at hm; exact hneo hm
      · exact hs' hs
  · intro i hi
    rcases (heo_mem i).mp hi with hi | ⟨hs, hi⟩
    · have hne : i ≠ id := fun he => hneo (he ▸ hi)
      obtain ⟨t, ht, hs⟩ := h.end_ok i hi
      exact ⟨t, by rw [other _ hne]; exact ht, hs⟩
    · subst hi
      refine ⟨f t0, self, ?_⟩
      rw [hf]
      cases st <;> simp_all
  · by_cases hs : st = .invalid
    · rw [(hrq hs).2]; exact h.end_nodup
    · rw [(heo hs).2]; exact (nodup_append_singleton _ _).mpr ⟨h.end_nodup, hneo⟩
  · intro i t ht
    by_cases hi : i = id
    · subst hi
      by_cases hs : st = .invalid
      · exact Or.inr (Or.inl ((hrq_mem _).mpr (Or.inr ⟨hs, rfl⟩)))
      · exact Or.inr (Or.inr ((heo_mem _).mpr (Or.inr ⟨hs, rfl⟩)))
    · rw [other _ hi] at ht
      rcases h.cover i t ht with h1 | h1 | h1
      · exact Or.inl ((mem_filter_ids _ _ _).mpr ⟨h1, hi⟩)
      · exact Or.inr (Or.inl ((hrq_mem _).mpr (Or.inl h1)))
      · exact Or.inr (Or.inr ((heo_mem _).mpr (Or.inl h1)))
  · intro i hie t ht hs
    by_cases hi : i = id
    · subst hi; rw [self] at ht; cases ht
      rw [hf] at hs; exact hsc hs t0
    · rw [other _ hi] at ht
      rcases (heo_mem i).mp hie with hm | ⟨_, hm⟩
      · exact h.scored i hm t ht hs
      · exact absurd hm hi
  · intro m hm; simpa [length_setTrial] using h.budget m hm
  · exact hstreak
  · exact h.not_aborted

end Core

namespace Core
variable {V A : Type}

theorem inv_end (alg : Alg V A) (o : Oracle V A) (id : Nat) (oc : Outcome) (h : Inv o)
    (hna : (endT alg o id oc).2 ≠ .abort) : Inv (endT alg o id oc).1 := by
  unfold endT at hna ⊢
  cases hti : o.trials[id]? with
  | none => simp only []; exact h
  | some t =>
    simp only [hti] at hna
    simp only []
    by_cases hon : isOngoing o id = true
    · have hon' := (isOngoing_iff o id).mp hon
      obtain ⟨⟨t0, ht0, hst0⟩, hnrq, hneo⟩ := ongoing_facts o h id hon'
      simp only [hon, Bool.not_true, Bool.false_eq_true, if_false] at hna ⊢
      obtain ⟨hd1, hd2, hd3⟩ := endDecision_spec alg o.maxRetries t oc
      generalize endDecision alg o.maxRetries t oc = d at hna hd1 hd2 hd3 ⊢
      by_cases hr : d.retry = true
      · simp only [hr, if_true]
        have hst := hd1 hr
        apply inv_end_common o h id hon' _ d.st (fun _ => rfl) (by rw [hst]; decide)
          (by intro hc; rw [hst] at hc; cases hc)
          (o.retryQ ++ [id]) o.endOrder _ (fun _ => ⟨rfl, rfl⟩) (fun hc => absurd hst hc)
        have : ∀ i ∈ o.endOrder, statusOf (setTrial o.trials id
            (fun t' => { t' with status := d.st, runs := t.runs + 1, score := d.sc, reports := [] })) i = statusOf o.trials i := by
          intro i hi
          have : id ≠ i := fun he => hneo (he ▸ hi)
          simp [statusOf, getElem?_setTrial, this]
        rw [List.map_congr_left this]; exact h.no_streak
      · have hr' : d.retry = false := by simpa using hr
        simp only [hr', Bool.false_eq_true, if_false] at hna ⊢
        have hst := hd2 hr'
        split
        · rename_i hs
          rw [if_pos hs] at hna
          exact absurd rfl hna
        · rename_i hs
          have hs' : hasStreak o.maxConsec
              ((o.endOrder ++ [id]).map (statusOf (setTrial o.trials id
                (fun t' => { t' with status := d.st, runs := t.runs + 1, score := d.sc })))) = false := by
            simpa using hs
          exact inv_end_common o h id hon' _ d.st (fun _ => rfl)
            (by rcases hst with hc | hc <;> rw [hc] <;> decide)
            (fun hc _ => hd3 hc)
            o.retryQ (o.endOrder ++ [id]) _
            (fun hc => by rcases hst with h1 | h1 <;> rw [h1] at hc <;> cases hc)
            (fun _ => ⟨rfl, rfl⟩) hs'
    · simp only [hon, Bool.not_false, if_true]; exact h

/-- C03: the aborting call is exactly the one that completes a streak -/
theorem abort_iff_streak (alg : Alg V A) (o : Oracle V A) (id : Nat) (oc : Outcome) :
    (endT alg o id oc).2 = .abort →
      hasStreak o.maxConsec ((endT alg o id oc).1.endOrder.map (statusOf (endT alg o id oc).1.trials)) = true := by
  unfold endT
  split
  · intro hc; cases hc
  · split
    · intro hc; cases hc
    · simp only
      split
      · intro hc; cases hc
      · split
        · rename_i hs; intro _; exact hs
        · intro hc; cases hc

end Core
#print axioms Core.inv_end
