import Ktm.Core
namespace Core
variable {V A : Type}

/-- location-based lifecycle invariant: every stored trial is in exactly one of ongoing / retry queue /
    end order; status is constrained by the location (RUNNING when ongoing, COMPLETED/FAILED when ended,
    anything while waiting for a retry — after a reload that is RUNNING, or whatever the trial file said) -/
structure Inv (o : Oracle V A) : Prop where
  ongoing_run : ∀ p ∈ o.ongoing, ∃ t, o.trials[p.2]? = some t ∧ t.status = .running
  ongoing_tuners : (o.ongoing.map (·.1)).Nodup
  ongoing_ids : (o.ongoing.map (·.2)).Nodup
  retry_ok : ∀ i ∈ o.retryQ, ∃ t, o.trials[i]? = some t
  retry_nodup : o.retryQ.Nodup
  retry_not_ongoing : ∀ i ∈ o.retryQ, i ∉ o.ongoing.map (·.2)
  retry_not_end : ∀ i ∈ o.retryQ, i ∉ o.endOrder
  end_ok : ∀ i ∈ o.endOrder, ∃ t, o.trials[i]? = some t ∧ (t.status = .completed ∨ t.status = .failed)
  end_nodup : o.endOrder.Nodup
  cover : ∀ (i : Nat) (t : Trial V), o.trials[i]? = some t →
      i ∈ o.ongoing.map (·.2) ∨ i ∈ o.retryQ ∨ i ∈ o.endOrder
  scored : ∀ i ∈ o.endOrder, ∀ (t : Trial V), o.trials[i]? = some t → t.status = .completed → t.score.isSome
  budget : ∀ m, o.maxTrials = some m → o.trials.length ≤ m
  no_streak : hasStreak o.maxConsec (o.endOrder.map (statusOf o.trials)) = false
  not_aborted : o.aborted = false

/-! ### helper lemmas -/

theorem getElem?_setTrial (ts : List (Trial V)) (i j : Nat) (f : Trial V → Trial V) :
    (setTrial ts i f)[j]? = if i = j then (ts[j]?).map f else ts[j]? := by
  unfold setTrial; rw [List.getElem?_modify]; split <;> simp_all

theorem length_setTrial (ts : List (Trial V)) (i : Nat) (f : Trial V → Trial V) :
    (setTrial ts i f).length = ts.length := by simp [setTrial]

theorem lookup_mem {α β} [BEq α] [LawfulBEq α] (l : List (α × β)) (a : α) (b : β)
    (h : l.lookup a = some b) : (a, b) ∈ l := by
  induction l with
  | nil => simp at h
  | cons x xs ih =>
    obtain ⟨k, v⟩ := x
    simp only [List.lookup_cons] at h
    split at h
    · rename_i heq; simp at heq; simp_all
    · simp [ih h]

theorem lookup_none_not_mem {α β} [BEq α] [LawfulBEq α] (l : List (α × β)) (a : α)
    (h : l.lookup a = none) : a ∉ l.map (·.1) := by
  induction l with
  | nil => simp
  | cons x xs ih =>
    obtain ⟨k, v⟩ := x
    simp only [List.lookup_cons] at h
    split at h
    · simp at h
    · rename_i hne
      simp only [List.map_cons, List.mem_cons, not_or]
      exact ⟨by intro h'; subst h'; simp at hne, ih h⟩

theorem getLast?_decomp {α} (l : List α) (a : α) (h : l.getLast? = some a) : l = l.dropLast ++ [a] := by
  have hne : l ≠ [] := by intro hn; simp [hn] at h
  have := List.dropLast_concat_getLast hne
  rw [List.getLast?_eq_some_getLast hne] at h
  simp only [Option.some.injEq] at h
  rw [h] at this; exact this.symm

theorem nodup_append_singleton {α} [DecidableEq α] (l : List α) (a : α) :
    (l ++ [a]).Nodup ↔ l.Nodup ∧ a ∉ l := by
  rw [List.nodup_append]
  constructor
  · rintro ⟨h1, _, h3⟩; exact ⟨h1, fun ha => h3 a ha a (by simp) rfl⟩
  · rintro ⟨h1, h2⟩; exact ⟨h1, by simp, fun x hx y hy => by simp at hy; subst hy; intro he; subst he; exact h2 hx⟩

theorem status_ne {t : Trial V} {s s' : Status} (h : t.status = s) (hne : s ≠ s') : t.status ≠ s' := by
  rw [h]; exact hne

end Core
