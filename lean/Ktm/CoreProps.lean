import Ktm.CoreEnd
namespace Core
variable {V A : Type}

inductive Op | create (tuner choice : Nat) | update (id : Nat) (r : Option Int) | endT (id : Nat) (oc : Outcome)

def step (alg : Alg V A) (o : Oracle V A) : Op → Oracle V A × Out V
  | .create t c => create alg o t c
  | .update id r => update o id r
  | .endT id oc => endT alg o id oc

/-- run until the end of the op list or until the search is aborted -/
def run (alg : Alg V A) : Oracle V A → List Op → Oracle V A
  | o, [] => o
  | o, op :: ops =>
    let r := step alg o op
    match r.2 with
    | .abort => r.1
    | _ => run alg r.1 ops

def init (alg0 : A) (maxTrials : Option Nat) (maxRetries maxConsec : Nat) : Oracle V A :=
  { trials := [], ongoing := [], retryQ := [], endOrder := [], tunerIds := [],
    maxTrials := maxTrials, maxRetries := maxRetries, maxConsec := maxConsec, aborted := false, alg := alg0 }

theorem endT_abort_aborted (alg : Alg V A) (o : Oracle V A) (id : Nat) (oc : Outcome) :
    (endT alg o id oc).2 = .abort → (endT alg o id oc).1.aborted = true := by
  unfold endT
  split
  · intro hc; cases hc
  · split
    · intro hc; cases hc
    · simp only
      split
      · intro hc; cases hc
      · split
        · intro _; rfl
        · intro hc; cases hc

theorem create_not_abort (alg : Alg V A) (o : Oracle V A) (t c : Nat) : (create alg o t c).2 ≠ .abort := by
  unfold create
  split
  · split <;> (intro hc; cases hc)
  · simp only
    split
    · split <;> (intro hc; cases hc)
    · split
      · intro hc; cases hc
      · split <;> (intro hc; cases hc)

theorem update_not_abort (o : Oracle V A) (id : Nat) (r : Option Int) : (update o id r).2 ≠ (.abort : Out V) := by
  unfold update
  split <;> (intro hc; cases hc)

theorem streakFrom_nil_false (k c : Nat) : streakFrom k c [] = false := rfl

theorem inv_init (a : A) (m : Option Nat) (r k : Nat) : Inv (init (V := V) a m r k) := by
  constructor <;> simp [init, hasStreak, streakFrom]

theorem inv_step (alg : Alg V A) (o : Oracle V A) (op : Op) (h : Inv o)
    (hna : (step alg o op).2 ≠ .abort) : Inv (step alg o op).1 := by
  cases op with
  | create t c => exact inv_create alg o t c h
  | update id r => exact inv_update o id r h
  | endT id oc => exact inv_end alg o id oc h hna

/-- C01: every state reached by any list of requests, from any number of tuners, with any outcomes
    and any algorithm, satisfies the lifecycle invariant — unless the search was aborted. -/
theorem inv_reachable (alg : Alg V A) (o : Oracle V A) (ops : List Op) (h : Inv o) :
    Inv (run alg o ops) ∨ (run alg o ops).aborted = true := by
  induction ops generalizing o with
  | nil => exact Or.inl h
  | cons op ops ih =>
    simp only [run]
    cases hout : (step alg o op).2 with
    | abort =>
      right
      cases op with
      | create t c => exact absurd hout (create_not_abort alg o t c)
      | update id r => exact absurd hout (update_not_abort o id r)
      | endT id oc => exact endT_abort_aborted alg o id oc hout
    | trial id v => exact ih _ (inv_step alg o op h (by rw [hout]; intro hc; cases hc))
    | idle => exact ih _ (inv_step alg o op h (by rw [hout]; intro hc; cases hc))
    | stopped => exact ih _ (inv_step alg o op h (by rw [hout]; intro hc; cases hc))
    | ok => exact ih _ (inv_step alg o op h (by rw [hout]; intro hc; cases hc))
    | bad => exact ih _ (inv_step alg o op h (by rw [hout]; intro hc; cases hc))

end Core
#print axioms Core.inv_reachable
