import Lean.Data.Json
import Ktm.CoreProps
import Ktm.Metrics
/-! Prototype of the line-protocol driver for the `oracle-core` suite: the implementation's own
    `populate_space` answer is the external choice, the model does all the bookkeeping. -/
open Lean Core

namespace Driver

abbrev V := String                       -- canonical text of the values dict
abbrev A := Option (Pop V)               -- the populate answer for the next create

def alg (minimize : Bool) : Alg V A :=
  { populate := fun o _ => (none, o.alg.getD .stop)
    onEnd := fun a _ => a
    scoreOf := fun _ => none }           -- not used: scores are computed by `scoreTrial` below

structure St where
  o : Oracle V A
  minimize : Bool
  obs : List (Nat × List Metrics.Obs)     -- per trial id: objective observations
  tuners : List String                    -- tuner names, index = model tuner id
  width : Nat                             -- zero padding of ids

def pad (w n : Nat) : String :=
  let s := toString n
  String.mk (List.replicate (w - s.length) '0') ++ s

def tunerId (st : St) (name : String) : St × Nat :=
  match st.tuners.idxOf? name with
  | some i => (st, i)
  | none => ({ st with tuners := st.tuners ++ [name] }, st.tuners.length)

def statusStr : Status → String
  | .running => "RUNNING" | .invalid => "INVALID" | .completed => "COMPLETED" | .failed => "FAILED"

def ratStr (q : Rat) : String := s!"{q.num}/{q.den}"

def fvOfJson (j : Json) : Metrics.FV :=
  match j with
  | .str "nan" => .nan
  | .arr #[.num n, .num d] => .fin (Rat.divInt n.mantissa d.mantissa)   -- exact ratio [p, q]
  | _ => .nan

def getObs (st : St) (id : Nat) : List Metrics.Obs := ((st.obs.find? (·.1 == id)).map (·.2)).getD []
def setObs (st : St) (id : Nat) (l : List Metrics.Obs) : St :=
  { st with obs := (st.obs.filter (·.1 != id)) ++ [(id, l)] }

def stateStr (st : St) : String :=
  let o := st.o
  let sts := String.intercalate "," ((List.range o.trials.length).map (fun i =>
    match o.trials[i]? with
    | some t => s!"{pad st.width i}:{statusStr t.status}:{match t.score with | some _ => "s" | none => "-"}"
    | none => "?"))
  let ong := String.intercalate "," ((o.ongoing.map (fun p => s!"{st.tuners.getD p.1 "?"}={pad st.width p.2}")).toArray.qsort (· < ·)).toList
  let rq := String.intercalate "," (o.retryQ.map (pad st.width))
  let eo := String.intercalate "," (o.endOrder.map (pad st.width))
  s!"trials[{sts}] ongoing[{ong}] retry[{rq}] end[{eo}]"

def handle (st : Option St) (line : String) : Option St × String :=
  match Json.parse line with
  | .error e => (st, s!"bad-json {e}")
  | .ok j =>
    match j.getObjValAs? String "op", st with
    | .ok "init", _ =>
      let mt := (j.getObjValAs? Nat "max_trials").toOption
      let mr := (j.getObjValAs? Nat "max_retries").toOption.getD 0
      let mc := (j.getObjValAs? Nat "max_consec").toOption.getD 3
      let mn := (j.getObjValAs? Bool "minimize").toOption.getD true
      let w := (j.getObjValAs? Nat "width").toOption.getD 1
      (some { o := Core.init (V := V) none mt mr mc, minimize := mn, obs := [], tuners := [], width := w }, "ok")
    | .ok "create", some st =>
      let name := (j.getObjValAs? String "tuner").toOption.getD "?"
      let (st, tid) := tunerId st name
      let pop : Pop V :=
        match (j.getObjVal? "pop").toOption with
        | some p =>
          match (p.getObjValAs? String "status").toOption with
          | some "RUNNING" => .run ((p.getObjValAs? String "values").toOption.getD "")
          | some "IDLE" => .idle
          | _ => .stop
        | none => .stop
      let r := create (alg st.minimize) { st.o with alg := some pop } tid 0
      let out := match r.2 with
        | .trial id v => s!"RUNNING {pad st.width id} {v}"
        | .idle => "IDLE"
        | .stopped => "STOPPED"
        | _ => "BAD"
      let st := { st with o := r.1 }
      (some st, out ++ " | " ++ stateStr st)
    | .ok "update", some st =>
      let id := (j.getObjValAs? Nat "id").toOption.getD 0
      let step := (j.getObjValAs? Int "step").toOption.getD 0
      let v := fvOfJson ((j.getObjVal? "value").toOption.getD Json.null)
      let st := setObs st id (Metrics.update (getObs st id) step v)
      (some st, "ok")
    | .ok "end", some st =>
      let id := (j.getObjValAs? Nat "id").toOption.getD 0
      let oc : Outcome := match (j.getObjValAs? String "status").toOption with
        | some "COMPLETED" => .completed | some "FAILED" => .failed | _ => .invalid
      -- score_trial: best value of the objective; NaN ⇒ none
      let best := Metrics.bestValue st.minimize (getObs st id)
      let sc : Option Int := match best with | some (.fin _) => some 0 | _ => none
      let a : Alg V A := { alg st.minimize with scoreOf := fun _ => sc }
      let r := endT a st.o id oc
      let st' := { st with o := r.1 }
      -- repaired code: metrics are dropped when the trial is queued for retry
      let st' := if r.1.retryQ.contains id && !(st.o.retryQ.contains id) then setObs st' id [] else st'
      let out := match r.2 with
        | .ok => "ok" | .abort => "ABORT" | _ => "BAD"
      let scoreStr := match best, oc with
        | some (.fin q), .completed => ratStr q
        | some .nan, .completed => "nan"
        | _, _ => "-"
      (some st', out ++ " score=" ++ scoreStr ++ " | " ++ stateStr st')
    | _, _ => (st, "bad-op")

end Driver
