import Lean.Data.Json
import Ktm.CoreProps
import Ktm.PersistOps
import Ktm.Metrics
import Ktm.Ranking
import Ktm.Search
import Ktm.Growth
/-! Line-protocol driver for the `oracle` suite (C01–C03, C04-ranking, C07, C08): the implementation's
    own `populate_space` answer is the external choice, the model (`Core.create / update / endT`,
    `Core.reload`, `Core.writeTrial / writeOracle`, `Metrics.*`, `Ranking.bestTrials`) does all the
    bookkeeping, scoring, persistence and ranking. -/
open Lean Core

namespace Driver

abbrev V := String                       -- canonical text of the values dict
abbrev A := Option (Pop V)               -- the populate answer for the next create

def alg : Alg V A :=
  { populate := fun o _ => (none, o.alg.getD .stop)
    onEnd := fun a _ => a
    scoreOf := fun _ => none }           -- replaced per call: scores come from `Metrics.bestValue`

/-- what the driver keeps beside the core oracle: the real (rational) observations and scores -/
structure Side where
  obs : List (Nat × List Metrics.Obs)     -- per trial id: objective observations of the current run(s)
  score : List (Nat × Metrics.FV)         -- per trial id: score set by the last COMPLETED end

structure St where
  o : Oracle V A
  minimize : Bool
  side : Side
  disk : Disk V A
  fileSide : List (Nat × (List Metrics.Obs × Option Metrics.FV))   -- what the trial files hold beside the core part
  budget : Option Nat                     -- number of further file writes that reach the disk (crash injection)
  tuners : List String                    -- tuner names, index = model tuner id
  width : Nat                             -- zero padding of ids
  tuneNew : Bool := true                  -- `tune_new_entries`
  gs : Growth.SSt String := ⟨[], 0, []⟩   -- `_tried_so_far` (hash = canonical text of the hashed values), Growth.recordS
  idHash : List (Nat × String) := []      -- `_id_to_hash`
  fileGs : Option (Growth.SSt String × List (Nat × String)) := none   -- what the oracle file holds of the two

def pad (w n : Nat) : String :=
  let s := toString n
  String.ofList (List.replicate (w - s.length) '0') ++ s

def tunerId (st : St) (name : String) : St × Nat :=
  match st.tuners.idxOf? name with
  | some i => (st, i)
  | none => ({ st with tuners := st.tuners ++ [name] }, st.tuners.length)

def statusStr : Status → String
  | .running => "RUNNING" | .invalid => "INVALID" | .completed => "COMPLETED" | .failed => "FAILED"

def ratStr (q : Rat) : String := s!"{q.num}/{q.den}"

def scStr : Sc → String
  | .ninf => "-inf" | .pinf => "inf" | .fin q => ratStr q

def fvStr : Metrics.FV → String
  | .nan => "nan" | .val s => scStr s

/-- a float on the wire: exact ratio `[p, q]`, or "inf" / "-inf" / "nan" -/
def fvOfJson (j : Json) : Metrics.FV :=
  match j with
  | .arr #[.num n, .num d] => .val (.fin (Rat.divInt n.mantissa d.mantissa))
  | .str "inf" => .val .pinf
  | .str "-inf" => .val .ninf
  | _ => .nan

def assocGet {β} (l : List (Nat × β)) (id : Nat) : Option β := (l.find? (·.1 == id)).map (·.2)
def assocSet {β} (l : List (Nat × β)) (id : Nat) (b : β) : List (Nat × β) := (l.filter (·.1 != id)) ++ [(id, b)]

def getObs (st : St) (id : Nat) : List Metrics.Obs := (assocGet st.side.obs id).getD []
def setObs (st : St) (id : Nat) (l : List Metrics.Obs) : St :=
  { st with side := { st.side with obs := assocSet st.side.obs id l } }
def getScore (st : St) (id : Nat) : Option Metrics.FV := assocGet st.side.score id

def stateStr (st : St) : String :=
  let o := st.o
  let sts := String.intercalate "," ((List.range o.trials.length).map (fun i =>
    match o.trials[i]? with
    | some t => s!"{pad st.width i}:{statusStr t.status}:{match t.status, getScore st i with | .completed, some v => fvStr v | _, _ => "-"}:{t.runs}"
    | none => "?"))
  let ong := String.intercalate "," ((o.ongoing.map (fun p => s!"{st.tuners.getD p.1 "?"}={pad st.width p.2}")).toArray.qsort (· < ·)).toList
  let rq := String.intercalate "," (o.retryQ.map (pad st.width))
  let eo := String.intercalate "," (o.endOrder.map (pad st.width))
  let tn := String.intercalate "," ((o.tunerIds.map (fun i => st.tuners.getD i "?")).toArray.qsort (· < ·)).toList
  s!"trials[{sts}] ongoing[{ong}] retry[{rq}] end[{eo}] tuners[{tn}]"

/-- a file write reaches the disk only while the crash budget lasts -/
def spend (st : St) : St × Bool :=
  match st.budget with
  | none => (st, true)
  | some 0 => (st, false)
  | some (k + 1) => ({ st with budget := some k }, true)

def doWriteTrial (st : St) (id : Nat) : St :=
  let (st, ok) := spend st
  if ok then
    { st with disk := writeTrial st.disk st.o id,
              fileSide := assocSet st.fileSide id (getObs st id, getScore st id) }
  else st

def doWriteOracle (st : St) : St :=
  let (st, ok) := spend st
  if ok then { st with disk := writeOracle st.disk st.o, fileGs := some (st.gs, st.idHash) } else st

/-- the writes of an operation as `Core.writesOf` lists them, each subject to the crash budget -/
def applyWrites (st : St) (ws : List W) : St :=
  ws.foldl (fun st w => match w with | .trial id => doWriteTrial st id | .oracle => doWriteOracle st) st

def rankOf (st : St) (n : Nat) : List Nat :=
  -- `get_best_trials`: scores as exact rationals, ranked through `Ranking.bestTrials`
  let ts : List Ranking.T := (List.range st.o.trials.length).map (fun i =>
    match st.o.trials[i]?, getScore st i with
    | some t, some (.val q) => ⟨i, t.status == .completed, q⟩
    | some t, _ => ⟨i, t.status == .completed, .fin 0⟩
    | none, _ => ⟨i, false, .fin 0⟩)
  (Ranking.bestTrials (!st.minimize) ts n).map (·.id)

/-- C19: the algorithm of the `search` op answers with the implementation's populate_space answers, in order -/
def popAlg : Alg V (List (Pop V)) :=
  { populate := fun o _ => match o.alg with | p :: r => (r, p) | [] => ([], .stop)
    onEnd := fun a _ => a
    scoreOf := fun l => l.getLast?.join }

def attemptOf (j : Json) : Search.Attempt :=
  match j with
  | .arr #[.str "ret", v] => .ret ((v.getInt?).toOption)
  | .arr #[.str "ret"] => .ret none
  | .arr #[.str "raise"] => .raise
  | .arr #[.str "failed"] => .failedTrial
  | .arr #[.str "fatal"] => .fatal
  | _ => .interrupt

def popOf (p : Json) : Pop V :=
  match (p.getObjValAs? String "status").toOption with
  | some "RUNNING" => .run ((p.getObjValAs? String "values").toOption.getD "")
  | some "IDLE" => .idle
  | _ => .stop

def ocStr : Outcome → String | .completed => "COMPLETED" | .invalid => "INVALID" | .failed => "FAILED"

def evStr : Search.Ev → String
  | .start id => s!"start {id}" | .ended id oc => s!"end {id} {ocStr oc}" | .stoppedEv => "stopped"
  | .fatalEv => "fatal" | .interruptEv => "interrupt" | .abortEv => "abort" | .outOfFuel => "fuel"

def handle (st : Option St) (j : Json) : Option St × String :=
    match j.getObjValAs? String "op", st with
    | .ok "init", _ =>
      let mt := (j.getObjValAs? Nat "max_trials").toOption
      let mr := (j.getObjValAs? Nat "max_retries").toOption.getD 0
      let mc := (j.getObjValAs? Nat "max_consec").toOption.getD 3
      let mn := (j.getObjValAs? Bool "minimize").toOption.getD true
      let w := (j.getObjValAs? Nat "width").toOption.getD 1
      let tn := (j.getObjValAs? Bool "tune_new").toOption.getD true
      (some { o := Core.init (V := V) none mt mr mc, minimize := mn, side := ⟨[], []⟩,
              disk := ⟨fun _ => none, none⟩, fileSide := [], budget := none, tuners := [], width := w, tuneNew := tn }, "ok")
    | .ok "create", some st =>
      let name := (j.getObjValAs? String "tuner").toOption.getD "?"
      let (st, tid) := tunerId st name
      let pop : Pop V :=
        match (j.getObjVal? "pop").toOption with
        | some p =>
          match (p.getObjValAs? String "status").toOption with
          | some "RUNNING" => .run ((p.getObjValAs? String "values").toOption.getD "")
          | some "IDLE" => .idle
          | _ => .stop
        | none => .stop
      let o0 := { st.o with alg := some pop }
      let ws := writesOf alg o0 (.create tid 0)
      let r := create alg o0 tid 0
      -- `_record_values` of a new trial: the hash of its values joins the tried set (as `Growth.populateS` does)
      let hk := ((j.getObjVal? "pop").toOption.bind (fun p => (p.getObjValAs? String "hkey").toOption))
      let st := match r.2, hk with
        | .trial id _, some hk =>
          if id == st.o.trials.length then
            { st with gs := { st.gs with tried := st.gs.tried ++ [hk] }, idHash := assocSet st.idHash id hk }
          else st
        | _, _ => st
      -- file writes of `create_trial`: new trial ⇒ trial file then oracle file; retry ⇒ oracle file only
      let st := applyWrites { st with o := r.1 } ws
      let out := match r.2 with
        | .trial id v => s!"RUNNING {pad st.width id} {v}"
        | .idle => "IDLE"
        | .stopped => "STOPPED"
        | _ => "BAD"
      (some st, out ++ " | " ++ stateStr st)
    | .ok "update", some st =>
      let id := (j.getObjValAs? Nat "id").toOption.getD 0
      let step := (j.getObjValAs? Int "step").toOption.getD 0
      let v := fvOfJson ((j.getObjVal? "value").toOption.getD Json.null)
      match st.o.trials[id]? with
      | none => (some st, "BAD")
      | some _ =>
        let st := setObs st id (Metrics.update (getObs st id) step v)
        (some (applyWrites st (writesOf alg st.o (.update id none))), "ok")
    | .ok "end", some st =>
      let id := (j.getObjValAs? Nat "id").toOption.getD 0
      let oc : Outcome := match (j.getObjValAs? String "status").toOption with
        | some "COMPLETED" => .completed | some "FAILED" => .failed | _ => .invalid
      -- score_trial: best value of the objective over the per-step means; NaN ⇒ none
      let best := Metrics.bestValue st.minimize (getObs st id)
      let sc : Option Int := match best with | some (.val _) => some 0 | _ => none
      let a : Alg V A := { alg with scoreOf := fun _ => sc }
      -- first lines of `end_trial`: the stored trial takes the reported values, `_record_values` again (Growth.syncVals / recordS)
      let st := match (j.getObjValAs? String "values").toOption, (j.getObjValAs? String "hkey").toOption with
        | some v, some hk =>
          match st.o.trials[id]? with
          | some _ =>
            { st with o := Growth.syncVals (fun a _ _ => a) st.o id v,
                      gs := Growth.recordS st.tuneNew st.gs ((assocGet st.idHash id).getD "") hk,
                      idHash := assocSet st.idHash id hk }
          | none => st
        | _, _ => st
      let ws := writesOf a st.o (.endT id oc)
      let r := endT a st.o id oc
      match r.2 with
      | .abort => (some { st with o := r.1 }, "ABORT")
      | .ok =>
        let st' := { st with o := r.1 }
        let st' := if oc == .completed then
            { st' with side := { st'.side with score := assocSet st'.side.score id (best.getD .nan) } } else st'
        -- metrics are dropped when the trial is queued for retry
        let st' := if r.1.retryQ.contains id && !(st.o.retryQ.contains id) then setObs st' id [] else st'
        let st' := applyWrites st' ws
        let scoreStr := match best, oc with
          | some v, .completed => fvStr v
          | _, _ => "-"
        (some st', "ok score=" ++ scoreStr ++ " | " ++ stateStr st')
      | _ => (some st, "BAD")
    | .ok "budget", some st =>
      (some { st with budget := (j.getObjValAs? Nat "k").toOption }, "ok")
    | .ok "save", some st =>
      (some (doWriteOracle st), "ok")
    | .ok "reload", some st =>
      match reload st.o st.disk with
      | none => (some st, "reload-error")
      | some o' =>
        let side : Side :=
          { obs := (List.range o'.trials.length).map (fun i => (i, ((assocGet st.fileSide i).map (·.1)).getD []))
            score := (List.range o'.trials.length).filterMap (fun i =>
              match assocGet st.fileSide i with | some (_, some v) => some (i, v) | _ => none) }
        let st' := { st with o := o', side := side, budget := none,
                             gs := (st.fileGs.map (·.1)).getD ⟨[], 0, []⟩, idHash := (st.fileGs.map (·.2)).getD [] }
        (some st', "reloaded | " ++ stateStr st')
    | .ok "tried", some st =>
      (some st, "tried " ++ String.intercalate ";" (st.gs.tried.eraseDups.toArray.qsort (· < ·)).toList)
    | .ok "vals", some st =>
      let id := (j.getObjValAs? Nat "id").toOption.getD 0
      (some st, "vals " ++ match st.o.trials[id]? with | some t => t.vals | none => "?")
    | .ok "remaining", some st =>
      (some st, match st.o.maxTrials with | some m => s!"remaining {m - st.o.trials.length}" | none => "remaining none")
    | .ok "best", some st =>
      let n := (j.getObjValAs? Nat "n").toOption.getD 1
      (some st, "best " ++ String.intercalate "," ((rankOf st n).map (pad st.width)))
    | .ok "search", _ =>
      -- the whole `BaseTuner.search` loop of one tuner over a scripted `run_trial`
      let mt := (j.getObjValAs? Nat "max_trials").toOption
      let mr := (j.getObjValAs? Nat "max_retries").toOption.getD 0
      let mc := (j.getObjValAs? Nat "max_consec").toOption.getD 3
      let script := match (j.getObjVal? "script").toOption with | some (.arr a) => a.toList.map attemptOf | _ => []
      let pops := match (j.getObjVal? "pops").toOption with | some (.arr a) => a.toList.map popOf | _ => []
      let fuel := (j.getObjValAs? Nat "fuel").toOption.getD 1000
      let o : Oracle V (List (Pop V)) := Core.init pops mt mr mc
      let r := Search.search popAlg fuel o script []
      let sts := String.intercalate "," (r.1.trials.map (fun t => statusStr t.status))
      (st, String.intercalate ";" (r.2.map evStr) ++ " | " ++ sts)
    | _, _ => (st, "bad-op")

end Driver
