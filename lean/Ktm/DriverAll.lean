import Lean.Data.Json
import Ktm.Driver
import Ktm.DriverHB
import Ktm.DriverTF
import Ktm.DriverMetrics
import Ktm.DriverGrid
import Ktm.DriverRandom
import Ktm.DriverSync
import Ktm.DriverSpace
import Ktm.DriverCodec
import Ktm.TunerFile
/-! Dispatcher of the line protocol: every line carries a `suite` field; `op = init` (re)starts the
    suite's state. -/
open Lean
namespace DriverAll

inductive DSt
  | none
  | oracle (s : Driver.St)
  | hb (s : DriverHB.St)
  | grid (s : DriverGrid.St)
  | rnd (s : DriverRandom.St)

def handleLine (st : DSt) (line : String) : DSt × String :=
  match Json.parse line with
  | .error e => (st, s!"bad-json {e}")
  | .ok j =>
    match (j.getObjValAs? String "suite").toOption.getD "" with
    | "oracle" =>
      let cur : Option Driver.St := match st with | .oracle s => some s | _ => Option.none
      let (s', out) := Driver.handle cur j
      (match s' with | some s => .oracle s | Option.none => .none, out)
    | "hyperband" =>
      let cur : Option DriverHB.St := match st with | .hb s => some s | _ => Option.none
      let (s', out) := DriverHB.handle cur j
      (match s' with | some s => .hb s | Option.none => .none, out)
    | "grid" =>
      let cur : Option DriverGrid.St := match st with | .grid s => some s | _ => Option.none
      let (s', out) := DriverGrid.handle cur j
      (match s' with | some s => .grid s | Option.none => st, out)
    | "sampling" =>
      let cur : Option DriverRandom.St := match st with | .rnd s => some s | _ => Option.none
      let (s', out) := DriverRandom.handle cur j
      (match s' with | some s => .rnd s | Option.none => st, out)
    | "sync" => (st, DriverSync.handle j)
    | "codec" => (st, DriverCodec.handle j)
    | "programs" => (st, DriverSpace.handle j)
    | "transforms" => (st, DriverTF.handle j)
    | "metrics" => (st, DriverMetrics.handle j)
    | "tunerfile" =>
      -- the write sequence of a single tuner's search of n trials and what a restart after the first k writes knows
      let n := (j.getObjValAs? Nat "n").toOption.getD 0
      let wstr : TunerFile.W → String := fun w => match w with | .oracle e => s!"o{e}" | .tuner => "t"
      match (j.getObjValAs? String "op").toOption.getD "" with
      | "writes" => (st, String.intercalate "," ((TunerFile.searchWrites n).map wstr))
      | "restart" =>
        let k := (j.getObjValAs? Nat "k").toOption.getD 0
        let d := TunerFile.disk ((TunerFile.searchWrites n).take k)
        (st, s!"ended={d.1} tunerfile={d.2} knows={TunerFile.restartKnows d}")
      | _ => (st, "bad-op")
    | s => (st, s!"bad-suite {s}")

end DriverAll
