import Lean.Data.Json
import Ktm.Codec
import Ktm.Proto
/-! Line-protocol driver for the `codec` suite (C15): parses the JSON tree the implementation wrote with the
    model's `fromJ`, writes it again with `toJ`, prints it canonically. A dropped, added or retyped field on
    either side changes the text. Floats cross the wire as `{"$f": token}`. -/
open Lean Codec
namespace DriverCodec

partial def jOf : Json → J
  | .null => .null
  | .bool b => .bool b
  | .num n => .int n.mantissa           -- the harness sends integers only (floats are tokens)
  | .str s => .str s
  | .arr a => .arr (a.toList.map jOf)
  | .obj kvs =>
    match kvs.toList with
    | [("$f", .str t)] => .flt t
    | l => .obj (l.map (fun p => (p.1, jOf p.2)))

def handle (j : Json) : String :=
  let t := jOf ((j.getObjVal? "tree").toOption.getD Json.null)
  match (j.getObjValAs? String "op").toOption.getD "" with
  | "hp" => match HP.fromJ t with | some h => h.toJ.print | none => "PARSE-FAIL"
  | "space" => match Space.fromJ t with | some s => s.toJ.print | none => "PARSE-FAIL"
  | "trial" => match Trial.fromJ t with | some s => s.toJ.print | none => "PARSE-FAIL"
  | "hist" => match Hist.fromJ t with | some s => s.toJ.print | none => "PARSE-FAIL"
  -- C16: `to_proto` of an entry given by its config, `from_proto` of a message (canonical message trees, Ktm/Proto.lean)
  | "p_hp" => match HP.fromJ t with | some h => (Proto.hpP h).print | none => "PARSE-FAIL"
  | "p_hp_from" => match Proto.hpFromP t with | some h => h.toJ.print | none => "PARSE-FAIL"
  | "p_values" => match Proto.valuesFromP t with | some vs => (Proto.valuesP vs).print | none => "PARSE-FAIL"
  | _ => "bad-op"

end DriverCodec
