import Lean.Data.Json
import Ktm.GridReach
import Ktm.RandomEnum
/-! Line-protocol driver for the `grid` suite (C09, C05, C06): the whole GridSearchOracle runs in the model
    (`Grid.alg` over the generic core); also the enumeration `enum` and the random sample `sample`. Names and
    values are coded as numbers by the harness (value code = index in the grid-ordered value list). -/
open Lean Core GridSucc

namespace DriverGrid

structure St where
  o : Grid.O
  tuners : List String

def natList (j : Json) : List Nat :=
  match j with | .arr a => a.toList.filterMap (fun x => (x.getNat?).toOption) | _ => []

def ghpOf (j : Json) : GHP :=
  { name := (j.getObjValAs? Nat "name").toOption.getD 0
    vals := natList ((j.getObjVal? "vals").toOption.getD Json.null)
    conds := match (j.getObjVal? "conds").toOption with
      | some (.arr a) => a.toList.filterMap (fun c => match c with
          | .arr #[p, vs] => (p.getNat?).toOption.map (fun p => (p, natList vs)) | _ => none)
      | _ => [] }

def spaceOf (j : Json) : List GHP :=
  match (j.getObjVal? "space").toOption with | some (.arr a) => a.toList.map ghpOf | _ => []

def envStr (e : Env) : String :=
  String.intercalate "," ((e.toArray.qsort (fun a b => a.1 < b.1)).toList.map (fun p => s!"{p.1}={p.2}"))

def statusStr : Status → String
  | .running => "RUNNING" | .invalid => "INVALID" | .completed => "COMPLETED" | .failed => "FAILED"

def tunerId (st : St) (name : String) : St × Nat :=
  match st.tuners.idxOf? name with
  | some i => (st, i)
  | none => ({ st with tuners := st.tuners ++ [name] }, st.tuners.length)

def stateStr (st : St) : String :=
  let o := st.o
  let sts := String.intercalate "," ((List.range o.trials.length).map (fun i =>
    match o.trials[i]? with | some t => s!"{i}:{statusStr t.status}:{t.runs}" | none => "?"))
  let ong := String.intercalate "," ((o.ongoing.map (fun p => s!"{st.tuners.getD p.1 "?"}={p.2}")).toArray.qsort (· < ·)).toList
  s!"trials[{sts}] ongoing[{ong}] retry[{String.intercalate "," (o.retryQ.map toString)}] end[{String.intercalate "," (o.endOrder.map toString)}] ordered[{String.intercalate "," (o.alg.ordered.map toString)}] queue[{String.intercalate "," (o.alg.queue.map toString)}]"

def handle (st : Option St) (j : Json) : Option St × String :=
    match j.getObjValAs? String "op", st with
    | .ok "init", _ =>
      let space := spaceOf j
      let mt := (j.getObjValAs? Nat "max_trials").toOption
      let mr := (j.getObjValAs? Nat "max_retries").toOption.getD 0
      let mc := (j.getObjValAs? Nat "max_consec").toOption.getD 3
      let o := { Grid.init space with maxTrials := mt, maxRetries := mr, maxConsec := mc }
      (some { o := o, tuners := [] }, s!"size={(enum space []).length} first={envStr (first space [])}")
    | .ok "enum", _ =>
      (st, String.intercalate ";" ((enum (spaceOf j) []).map envStr))
    | .ok "sample", _ =>
      -- `_random_values`: the k-th sampled entry takes the value with index `picks[k]`
      let picks := natList ((j.getObjVal? "picks").toOption.getD Json.null)
      let r := sample (fun k _ => picks.getD k 0) (spaceOf j) [] 0
      (st, s!"{envStr r.1} draws={r.2}")
    | .ok "create", some st =>
      let name := (j.getObjValAs? String "tuner").toOption.getD "?"
      let (st, tid) := tunerId st name
      let r := create Grid.alg st.o tid 0
      let st := { st with o := r.1 }
      let out := match r.2 with
        | .trial id v => s!"RUNNING {id} {envStr v}"
        | .idle => "IDLE"
        | .stopped => "STOPPED"
        | _ => "BAD"
      (some st, out ++ " | " ++ stateStr st)
    | .ok "update", some st =>
      let id := (j.getObjValAs? Nat "id").toOption.getD 0
      let v := (j.getObjValAs? Int "value").toOption
      (some { st with o := (update st.o id v).1 }, "ok")
    | .ok "end", some st =>
      let id := (j.getObjValAs? Nat "id").toOption.getD 0
      let oc : Outcome := match (j.getObjValAs? String "status").toOption with
        | some "COMPLETED" => .completed | some "FAILED" => .failed | _ => .invalid
      let r := endT Grid.alg st.o id oc
      let st := { st with o := r.1 }
      (some st, (match r.2 with | .ok => "ok" | .abort => "ABORT" | _ => "BAD") ++ " | " ++ stateStr st)
    | _, _ => (st, "bad-op")

end DriverGrid
