import Lean.Data.Json
import Ktm.HyperbandSched
/-! Line-protocol driver for the `hyperband` suite (C10, C11, C04-symmetry): the whole Hyperband oracle
    (`HB.alg` over the generic core) runs in the model; the implementation supplies only whether its
    random sampler produced a fresh configuration (and which) and the integer scores. -/
open Lean Core

namespace DriverHB

structure St where
  o : HB.O
  tuners : List String

def tunerId (st : St) (name : String) : St × Nat :=
  match st.tuners.idxOf? name with
  | some i => (st, i)
  | none => ({ st with tuners := st.tuners ++ [name] }, st.tuners.length)

def statusStr : Status → String
  | .running => "RUNNING" | .invalid => "INVALID" | .completed => "COMPLETED" | .failed => "FAILED"

def optStr : Option Nat → String
  | some n => toString n | none => "-"

def entryStr (e : HB.Entry) : String := s!"{e.id}/{optStr e.past}"

def bracketsStr (s : HB.St) : String :=
  let bs := s.brackets.map (fun b =>
    s!"{b.num}:[" ++ String.intercalate "|" (b.rounds.map (fun r => String.intercalate "," (r.map entryStr))) ++ "]")
  s!"cur={s.currentBracket} it={s.currentIteration} " ++ String.intercalate " " bs

def stateStr (st : St) : String :=
  let o := st.o
  let sts := String.intercalate "," ((List.range o.trials.length).map (fun i =>
    match o.trials[i]? with
    | some t => s!"{i}:{statusStr t.status}:{match t.status, t.score with | .completed, some v => toString v | _, _ => "-"}:{t.runs}"
    | none => "?"))
  let ong := String.intercalate "," ((o.ongoing.map (fun p => s!"{st.tuners.getD p.1 "?"}={p.2}")).toArray.qsort (· < ·)).toList
  s!"trials[{sts}] ongoing[{ong}] retry[{String.intercalate "," (o.retryQ.map toString)}] end[{String.intercalate "," (o.endOrder.map toString)}] {bracketsStr o.alg}"

def tableStr (cfg : HB.Cfg) : String :=
  let rows := (List.range cfg.numBrackets).map (fun b =>
    String.intercalate "," ((List.range (b + 1)).map (fun r => s!"{cfg.size b r}/{cfg.epochs b r}")))
  s!"nb={cfg.numBrackets} " ++ String.intercalate ";" rows

def hvStr (id : Nat) (v : HB.HV) : String :=
  s!"RUNNING {id} base={v.base} epochs={v.epochs} initial={v.initialEpoch} bracket={v.bracket} round={v.round} parent={optStr v.parent}"

def handle (st : Option St) (j : Json) : Option St × String :=
    match j.getObjValAs? String "op", st with
    | .ok "init", _ =>
      let m := (j.getObjValAs? Nat "max_epochs").toOption.getD 1
      let f := (j.getObjValAs? Nat "factor").toOption.getD 2
      let it := (j.getObjValAs? Nat "iterations").toOption.getD 1
      let mn := (j.getObjValAs? Bool "minimize").toOption.getD true
      let mr := (j.getObjValAs? Nat "max_retries").toOption.getD 0
      let mc := (j.getObjValAs? Nat "max_consec").toOption.getD 3
      let cfg := HB.mkCfg m f it mn
      let o := { HB.init cfg with maxRetries := mr, maxConsec := mc }
      (some { o := o, tuners := [] }, tableStr cfg)
    | .ok "create", some st =>
      let name := (j.getObjValAs? String "tuner").toOption.getD "?"
      let choice := (j.getObjValAs? Nat "choice").toOption.getD 0
      let (st, tid) := tunerId st name
      let r := create HB.alg st.o tid choice
      let st := { st with o := r.1 }
      let out := match r.2 with
        | .trial id v => hvStr id v
        | .idle => "IDLE"
        | .stopped => "STOPPED"
        | _ => "BAD"
      (some st, out ++ " | " ++ stateStr st)
    | .ok "update", some st =>
      let id := (j.getObjValAs? Nat "id").toOption.getD 0
      let v := (j.getObjValAs? Int "value").toOption
      (some { st with o := (update st.o id v).1 }, "ok")
    | .ok "end", some st =>
      let id := (j.getObjValAs? Nat "id").toOption.getD 0
      let oc : Outcome := match (j.getObjValAs? String "status").toOption with
        | some "COMPLETED" => .completed | some "FAILED" => .failed | _ => .invalid
      let r := endT HB.alg st.o id oc
      let st := { st with o := r.1 }
      (some st, (match r.2 with | .ok => "ok" | .abort => "ABORT" | _ => "BAD") ++ " | " ++ stateStr st)
    | _, _ => (st, "bad-op")

end DriverHB
