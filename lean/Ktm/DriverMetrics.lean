import Lean.Data.Json
import Ktm.Results
import Ktm.Track
import Ktm.NanEpoch
import Ktm.Driver
/-! Line-protocol driver for the `metrics` suite (C18, C20-stub): metric histories, result conversion,
    multi-objective values, the shared SaveBestEpoch callback. -/
open Lean
namespace DriverMetrics

def optIntStr : Option Int → String | some i => toString i | none => "None"
def optNatStr : Option Nat → String | some i => toString i | none => "None"
def optFvStr : Option Metrics.FV → String | some v => Driver.fvStr v | none => "None"
def optRatStr : Option Rat → String | some q => Driver.ratStr q | none => "None"

def intList (j : Json) : List Int :=
  match j with | .arr a => a.toList.filterMap (fun x => (x.getInt?).toOption) | _ => []

def handle (j : Json) : String :=
  match (j.getObjValAs? String "op").toOption.getD "" with
  | "hist" =>
    let mn := (j.getObjValAs? Bool "minimize").toOption.getD true
    let reps : List (Int × Metrics.FV) := match (j.getObjVal? "reports").toOption with
      | some (.arr a) => a.toList.filterMap (fun r => match r with
          | .arr #[s, v] => (s.getInt?).toOption.map (fun s => (s, Driver.fvOfJson v))
          | _ => none)
      | _ => []
    let h := reps.foldl (fun h r => Metrics.update h r.1 r.2) []
    let hist := Metrics.history h
    let hs := String.intercalate "," (hist.map (fun o => s!"{o.step}:{Driver.fvStr (Metrics.mean o.vals)}:{o.vals.length}"))
    s!"best={optFvStr (Metrics.bestValue mn h)} step={optIntStr (Metrics.bestStep mn h)} history=[{hs}]"
  | "conv" =>
    let mn := (j.getObjValAs? Bool "minimize").toOption.getD true
    let curves : List (List Int) := match (j.getObjVal? "curves").toOption with
      | some (.arr a) => a.toList.map intList | _ => []
    s!"obj={optRatStr (Results.listObjective mn curves)} step={optNatStr (Results.listBestStep mn curves)} kept={optNatStr (Results.keptFlat mn curves)} " ++
      "epochs=" ++ String.intercalate "," (curves.map (fun c => optNatStr (Results.bestEpoch mn c)))
  | "multi" =>
    let terms : List (Bool × Int) := match (j.getObjVal? "terms").toOption with
      | some (.arr a) => a.toList.filterMap (fun r => match r with
          | .arr #[.bool b, v] => (v.getInt?).toOption.map (fun v => (b, v)) | _ => none)
      | _ => []
    s!"value={Results.multiValue terms}"
  | "nanconv" =>
    -- one History curve with NaN epochs (null): best epoch and value as the scanning loop finds them
    let mn := (j.getObjValAs? Bool "minimize").toOption.getD true
    let curve : List (Option Int) := match (j.getObjVal? "curve").toOption with
      | some (.arr a) => a.toList.map (fun x => (x.getInt?).toOption) | _ => []
    let framed := curve.map (fun v => v.map (fun x => if mn then x else -x))
    match NanEpoch.bestEpoch framed with
    | some (i, some v) => s!"epoch={i} value={if mn then v else -v}"
    | some (i, none) => s!"epoch={i} value=nan"
    | none => "empty"
  | "track" =>
    -- Oracle.update_trial over a MetricsTracker: reports of several metrics per step
    let oj := (j.getObjVal? "objective").toOption.getD Json.null
    let pairs (x : Json) : List (String × Bool) := match x with
      | .arr a => a.toList.filterMap (fun r => match r with | .arr #[.str n, .bool b] => some (n, b) | _ => none)
      | _ => []
    let o : Track.Obj := ⟨(oj.getObjValAs? String "name").toOption.getD "", (oj.getObjValAs? Bool "minimize").toOption.getD true,
                          pairs ((oj.getObjVal? "parts").toOption.getD Json.null)⟩
    let table : List (String × Option Bool) := match (j.getObjVal? "infer").toOption with
      | some (.arr a) => a.toList.filterMap (fun r => match r with
          | .arr #[.str n, .bool b] => some (n, some b) | .arr #[.str n, .null] => some (n, none) | _ => none)
      | _ => []
    let infer : String → Option Bool := fun n => match table.find? (·.1 == n) with | some (_, d) => d | none => none
    let reps : List (Int × List (String × Metrics.FV)) := match (j.getObjVal? "reports").toOption with
      | some (.arr a) => a.toList.filterMap (fun r => match r with
          | .arr #[s, .arr kvs] => (s.getInt?).toOption.map (fun s => (s, kvs.toList.filterMap (fun kv => match kv with
              | .arr #[.str n, v] => some (n, Driver.fvOfJson v) | _ => none)))
          | _ => none)
      | _ => []
    let t := Track.reports infer o reps
    String.intercalate ";" (t.map (fun nh => s!"{nh.1}:{if nh.2.minimize then "min" else "max"}:{optFvStr (Track.best nh.2)}:{optIntStr (Track.bestStepOf nh.2)}"))
  | _ => "bad-op"

end DriverMetrics
