import Lean.Data.Json
import Ktm.RandomSeeded
import Ktm.DriverGrid
/-! Line-protocol driver for the `sampling` suite (C05, C06, C12): the seeded random oracle. The PRNG draws
    are supplied per seed by the harness (logged from the implementation's `random.Random(seed).random()`);
    the model predicts which seeds are consumed. -/
open Lean Core GridSucc

namespace DriverRandom

structure St where
  o : Oracle Env RandomSeeded.St
  tuners : List String

def drawsOf (j : Json) : List (Nat × (Nat × Nat)) :=
  match (j.getObjVal? "draws").toOption with
  | some (.arr a) => a.toList.filterMap (fun d => match d with
      | .arr #[s, n, dn] => match (s.getNat?).toOption, (n.getNat?).toOption, (dn.getNat?).toOption with
        | some s, some n, some dn => some (s, (n, dn)) | _, _, _ => none
      | _ => none)
  | _ => []

def permsOf (j : Json) : List (Nat × List Nat) :=
  match (j.getObjVal? "perms").toOption with
  | some (.arr a) => a.toList.filterMap (fun d => match d with
      | .arr #[n, p] => (n.getNat?).toOption.map (fun n => (n, DriverGrid.natList p)) | _ => none)
  | _ => []

def envsOf (j : Json) (k : String) : List Env :=
  match (j.getObjVal? k).toOption with
  | some (.arr a) => a.toList.map (fun e => match e with
      | .arr ps => ps.toList.filterMap (fun p => match p with
          | .arr #[n, v] => match (n.getNat?).toOption, (v.getNat?).toOption with | some n, some v => some (n, v) | _, _ => none
          | _ => none)
      | _ => [])
  | _ => []

def tunerId (st : St) (name : String) : St × Nat :=
  match st.tuners.idxOf? name with
  | some i => (st, i)
  | none => ({ st with tuners := st.tuners ++ [name] }, st.tuners.length)

def stateStr (st : St) : String :=
  let o := st.o
  let sts := String.intercalate "," ((List.range o.trials.length).map (fun i =>
    match o.trials[i]? with | some t => s!"{i}:{DriverGrid.statusStr t.status}" | none => "?"))
  s!"trials[{sts}] retry[{String.intercalate "," (o.retryQ.map toString)}] seed={o.alg.seed} tried={o.alg.tried.length}"

/-- seeds in `[a, b)` that the implementation did not draw -/
def missing (draws : List (Nat × (Nat × Nat))) (a b : Nat) : List Nat :=
  (List.range (b - a)).filterMap (fun i => if (draws.lookup (a + i)).isSome then none else some (a + i))

def mkSt (j : Json) (tried : List Env) : RandomSeeded.St :=
  ⟨DriverGrid.spaceOf j, permsOf j, (j.getObjValAs? Nat "seed").toOption.getD 0, tried,
   (j.getObjValAs? Nat "max_collisions").toOption.getD 20⟩

def handle (st : Option St) (j : Json) : Option St × String :=
    match j.getObjValAs? String "op", st with
    | .ok "init", _ =>
      let s := mkSt j []
      let o : Oracle Env RandomSeeded.St := Core.init s (j.getObjValAs? Nat "max_trials").toOption
        ((j.getObjValAs? Nat "max_retries").toOption.getD 0) ((j.getObjValAs? Nat "max_consec").toOption.getD 3)
      (some { o := o, tuners := [] }, "ok")
    | .ok "rvalues", _ =>
      -- one stand-alone `_random_values` call (Hyperband round 0, Bayesian warm-up)
      let draws := drawsOf j
      let s := mkSt j (envsOf j "tried")
      let r := RandomSeeded.randomValues (fun k => draws.lookup k) s (s.maxCollisions + 1) s.seed
      let miss := missing draws s.seed r.2
      let head := match r.1 with | some v => "values=" ++ DriverGrid.envStr v | none => "exhausted"
      (st, s!"{head} seed={r.2}" ++ (if miss.isEmpty then "" else s!" missing-draws={miss}"))
    | .ok "create", some st =>
      let name := (j.getObjValAs? String "tuner").toOption.getD "?"
      let draws := drawsOf j
      let (st, tid) := tunerId st name
      let seed0 := st.o.alg.seed
      let r := create (RandomSeeded.alg (fun k => draws.lookup k)) st.o tid 0
      let st := { st with o := r.1 }
      let miss := missing draws seed0 r.1.alg.seed
      let out := match r.2 with
        | .trial id v => s!"RUNNING {id} {DriverGrid.envStr v}"
        | .idle => "IDLE"
        | .stopped => "STOPPED"
        | _ => "BAD"
      (some st, out ++ " | " ++ stateStr st ++ (if miss.isEmpty then "" else s!" missing-draws={miss}"))
    | .ok "update", some st =>
      let id := (j.getObjValAs? Nat "id").toOption.getD 0
      (some { st with o := (update st.o id ((j.getObjValAs? Int "value").toOption)).1 }, "ok")
    | .ok "end", some st =>
      let id := (j.getObjValAs? Nat "id").toOption.getD 0
      let oc : Outcome := match (j.getObjValAs? String "status").toOption with
        | some "COMPLETED" => .completed | some "FAILED" => .failed | _ => .invalid
      let r := endT (RandomSeeded.alg (fun _ => none)) st.o id oc
      let st := { st with o := r.1 }
      (some st, (match r.2 with | .ok => "ok" | .abort => "ABORT" | _ => "BAD") ++ " | " ++ stateStr st)
    | _, _ => (st, "bad-op")

end DriverRandom
