import Lean.Data.Json
import Ktm.SpaceDisc
import Ktm.Rpc
/-! Line-protocol driver for the `programs` suite (C13): build programs run on the container model, the
    discovery loop and the new-entry flags. Values are coded as integers by the harness. -/
open Lean Space
namespace DriverSpace

def intList (j : Json) : List Int := match j with | .arr a => a.toList.filterMap (fun x => (x.getInt?).toOption) | _ => []

def condOf (j : Json) : Option Cond :=
  match j with
  | .arr #[.str n, vs] => some { name := n, vals := intList vs }
  | _ => none

def hpOf (j : Json) : HP :=
  { name := (j.getObjValAs? String "name").toOption.getD ""
    conds := match (j.getObjVal? "conds").toOption with | some (.arr a) => a.toList.filterMap condOf | _ => []
    dflt := (j.getObjValAs? Int "dflt").toOption.getD 0 }

partial def stmtOf (j : Json) : Option Stmt :=
  match j with
  | .arr #[.str "decl", .str n, d] => (d.getInt?).toOption.map (fun d => Stmt.decl n d)
  | .arr #[.str "get", .str n] => some (.get n)
  | .arr #[.str "ns", .str n, .arr body] => some (.nameScope n (body.toList.filterMap stmtOf))
  | .arr #[.str "cond", .str p, vs, .bool lz, .arr body] => some (.condScope p (intList vs) lz (body.toList.filterMap stmtOf))
  | _ => none

def progOf (j : Json) : List Stmt :=
  match (j.getObjVal? "prog").toOption with | some (.arr a) => a.toList.filterMap stmtOf | _ => []

def spaceOf (j : Json) (k : String) : List HP :=
  match (j.getObjVal? k).toOption with | some (.arr a) => a.toList.map hpOf | _ => []

def valuesOf (j : Json) (k : String) : List (String × Val) :=
  match (j.getObjVal? k).toOption with
  | some (.arr a) => a.toList.filterMap (fun p => match p with
      | .arr #[.str n, v] => (v.getInt?).toOption.map (fun v => (n, v)) | _ => none)
  | _ => []

def condsStr (cs : List Cond) : String := String.intercalate "&" (cs.map (fun c => s!"{c.name}in{c.vals}"))
def hpStr (h : HP) : String := s!"{h.name}[{condsStr h.conds}]"
def valsStr (vs : List (String × Val)) : String :=
  String.intercalate "," (((vs.map (fun p => s!"{p.1}={p.2}")).toArray.qsort (· < ·)).toList)

def errStr : Err → String
  | .notDefined n => s!"notDefined({n})" | .sameAsParent n => s!"sameAsParent({n})" | .inactive n => s!"inactive({n})"
  | .unknown n => s!"unknown({n})" | .missingValue n => s!"missingValue({n})"

def evStr : Ev → String
  | .ret n (some v) => s!"{n}={v}" | .ret n none => s!"{n}=None" | .err e => "ERR:" ++ errStr e

def handle (j : Json) : String :=
  match (j.getObjValAs? String "op").toOption.getD "" with
  | "build" =>
    let s : S := { empty with hps := spaceOf j "space", values := valuesOf j "values" }
    let r := run 10000 s (progOf j) none
    s!"events=[{String.intercalate ";" (r.2.map evStr)}] values=[{valsStr r.1.values}] space=[{String.intercalate ";" (r.1.hps.map hpStr)}] " ++
      s!"active=[{String.intercalate ";" (r.1.activeScopes.map condsStr)}] inactive=[{String.intercalate ";" (r.1.inactiveScopes.map condsStr)}]"
  | "discover" =>
    let o : S := { empty with hps := spaceOf j "space", values := valuesOf j "values" }
    let allow := (j.getObjValAs? Bool "allow").toOption.getD true
    let tune := (j.getObjValAs? Bool "tune").toOption.getD true
    let fills := intList ((j.getObjVal? "fills").toOption.getD Json.null)
    let d := populateInitial allow tune (progOf j) o fills 200
    let e := match d.err with | some (.notAllowed ns) => s!" ERR:notAllowed{ns}" | none => ""
    s!"space=[{String.intercalate ";" (d.o.hps.map hpStr)}] values=[{valsStr d.o.values}] builds={d.builds} fills-left={d.fills.length}{e}"
  | "update" =>
    let o : S := { empty with hps := spaceOf j "space", values := valuesOf j "values" }
    let allow := (j.getObjValAs? Bool "allow").toOption.getD true
    let tune := (j.getObjValAs? Bool "tune").toOption.getD true
    match updateSpace allow tune o (spaceOf j "new") with
    | .ok o' => s!"space=[{String.intercalate ";" (o'.hps.map hpStr)}] values=[{valsStr o'.values}]"
    | .error (.notAllowed ns) => s!"ERR:notAllowed{ns}"
  | "decode" =>
    -- C16: the space decoder: `order` = entries as the proto lists them (grouped by type), names numbered
    let es : List Reorder.E := match (j.getObjVal? "order").toOption with
      | some (.arr a) => a.toList.filterMap (fun e => match e with
          | .arr #[n, cs] => (n.getNat?).toOption.map (fun n => ⟨n, (intList cs).map Int.toNat⟩) | _ => none)
      | _ => []
    let names := es.map (·.name)
    String.intercalate "," ((Rpc.decodeSpace names es).map (fun e => toString e.name))
  | _ => "bad-op"

end DriverSpace
