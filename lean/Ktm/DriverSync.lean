import Lean.Data.Json
import Ktm.Sync
/-! Line-protocol driver for the `sync` suite (C17): replays an executed thread schedule on the model of the
    `synchronized` wrapper and prints the state after every step. -/
open Lean
namespace DriverSync

/-- the body used by the harness: an order-sensitive update of the shared state -/
def f (t s : Nat) : Nat := 3 * s + t + 1

def pcStr : Sync.Pc → String
  | .idle => "i" | .decided n => if n then "d" else "D" | .acquired => "a"
  | .body1 n => if n then "r" else "R" | .body2 n => if n then "w" else "W"
  | .after n r => (if n then "f" else "F") ++ (if r then "!" else "") | .cleared r => "c" ++ (if r then "!" else "")

def optStr : Option Nat → String | some n => toString n | none => "-"

def gStr (n : Nat) (g : Sync.G) : String :=
  String.intercalate "" ((List.range n).map (fun t => pcStr (g.pc t))) ++ s!"|{optStr g.held}|{optStr g.owner}|{g.st}"

def handle (j : Json) : String :=
  match (j.getObjValAs? String "op").toOption.getD "" with
  | "run" =>
    let n := (j.getObjValAs? Nat "threads").toOption.getD 1
    let s0 := (j.getObjValAs? Nat "s0").toOption.getD 0
    let sched : List (Nat × Bool) := match (j.getObjVal? "sched").toOption with
      | some (.arr a) => a.toList.filterMap (fun x => match x with
          | .arr #[t, .bool r] => (t.getNat?).toOption.map (fun t => (t, r)) | _ => none)
      | _ => []
    -- every step must be enabled in the model (a blocked thread cannot have moved)
    let rec go (g : Sync.G) (l : List (Nat × Bool)) (acc : List String) : List String :=
      match l with
      | [] => acc.reverse
      | (t, r) :: rest =>
        match Sync.step f g t r with
        | some g' => go g' rest (gStr n g' :: acc)
        | none => ("BLOCKED" :: acc).reverse
    let states := go (Sync.init s0) sched []
    let g := Sync.run f (Sync.init s0) sched
    String.intercalate ";" states ++ s!" final={g.st} seq={Sync.seqState f s0 g.log} log={g.log}"
  | _ => "bad-op"

end DriverSync
