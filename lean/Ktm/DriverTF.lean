import Lean.Data.Json
import Ktm.Transforms
/-! Line-protocol driver for the `transforms` suite (C14, C05): exact-arithmetic lattices and
    probability/index transforms on integers scaled by a common denominator. -/
open Lean Transforms
namespace DriverTF

def getI (j : Json) (k : String) : Int := (j.getObjValAs? Int k).toOption.getD 0
def getN (j : Json) (k : String) : Nat := (j.getObjValAs? Nat k).toOption.getD 0

def listStr (l : List Int) : String := String.intercalate "," (l.map toString)

def handle (j : Json) : String :=
  match (j.getObjValAs? String "op").toOption.getD "" with
  | "lin" =>       -- linear lattice: min = a/D, max = b/D, step = s/D
    let a := getI j "a"; let b := getI j "b"; let s := getN j "s"
    s!"n={nValues a b s} values={listStr (values a b s)}"
  | "linp" =>      -- probability num/den → index and lattice value
    let a := getI j "a"; let b := getI j "b"; let s := getN j "s"
    let num := getN j "num"; let den := getN j "den"
    s!"index={probToIndex num den (nValues a b s)} value={probToValueLin a b s num den}"
  | "linv" =>      -- lattice value → index and centred probability
    let a := getI j "a"; let b := getI j "b"; let s := getN j "s"; let v := getI j "v"
    let i := indexOfLin a s v
    s!"index={i} prob={indexToProbNum i}/{indexToProbDen (nValues a b s)}"
  | "log" =>       -- log lattice: min = a/D, max = b/D, step = s/t
    let n := nLog (getN j "a") (getN j "b") (getN j "s") (getN j "t") (getN j "fuel")
    s!"n={n}"
  | "idx" => s!"index={probToIndex (getN j "num") (getN j "den") (getN j "n")}"
  | "idxp" => let i := getN j "i"; s!"prob={indexToProbNum i}/{indexToProbDen (getN j "n")}"
  | "bool" => s!"value={boolOfProb (getN j "num") (getN j "den")}"
  | _ => "bad-op"

end DriverTF
