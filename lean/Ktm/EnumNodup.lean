import Ktm.Exact
namespace GridSucc

/-- the enumeration lists every combination once, given duplicate-free value lists and distinct names -/
theorem enum_nodup (hs : List GHP) (pre : Env)
    (hv : ∀ g ∈ hs, g.vals.Nodup) (hnd : (keys pre ++ names hs).Nodup) : (enum hs pre).Nodup := by
  induction hs generalizing pre with
  | nil => simp [enum]
  | cons h hs ih =>
    have hv' : ∀ g ∈ hs, g.vals.Nodup := fun g hg => hv g (List.mem_cons_of_mem _ hg)
    have hn : h.name ∉ keys pre := by
      intro hm
      exact (List.nodup_append.mp hnd).2.2 h.name hm h.name (by simp [names]) rfl
    simp only [enum]
    split
    · unfold List.Nodup
      rw [List.pairwise_flatMap]
      constructor
      · intro v _
        have hnd' : (keys (pre ++ [(h.name, v)]) ++ names hs).Nodup := by
          simpa [keys, names, List.append_assoc] using hnd
        exact ih _ hv' hnd'
      · have hvn := hv h List.mem_cons_self
        unfold List.Nodup at hvn
        refine hvn.imp ?_
        intro a b hab x hx y hy hxy
        subst hxy
        have h1 := lookup_of_mem_block hs pre x h.name a (by simpa [keys] using hn) hx
        have h2 := lookup_of_mem_block hs pre x h.name b (by simpa [keys] using hn) hy
        rw [h1] at h2
        exact hab (Option.some.inj h2)
    · have hnd' : (keys pre ++ names hs).Nodup := by
        have := hnd
        simp only [names, List.map_cons] at this
        exact List.nodup_append.mpr ⟨(List.nodup_append.mp this).1, ((List.nodup_append.mp this).2.1).of_cons,
          fun a ha b hb => (List.nodup_append.mp this).2.2 a ha b (List.mem_cons_of_mem _ hb)⟩
      exact ih _ hv' hnd'

end GridSucc
#print axioms GridSucc.enum_nodup
