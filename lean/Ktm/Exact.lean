import Ktm.GridSucc
/-! C05 prototype: every assignment in `enum` (hence every grid combination and every random sample,
    which is an element of `enum`) binds exactly the entries that are active under the assignment itself,
    each to a member of its value list — provided parents precede children and names are distinct. -/
namespace GridSucc

def keys (e : Env) : List Nat := e.map (·.1)

/-- parents first: every condition of an entry refers to a name seen before it (bound or skipped) -/
def ParentsFirst : List Nat → List GHP → Prop
  | _, [] => True
  | seen, h :: hs => (∀ c ∈ h.conds, c.1 ∈ seen) ∧ ParentsFirst (seen ++ [h.name]) hs

theorem lookup_append_left_some (pre s : Env) (n v : Nat) (h : pre.lookup n = some v) :
    (pre ++ s).lookup n = some v := by
  induction pre with
  | nil => simp at h
  | cons p ps ih =>
    obtain ⟨k, w⟩ := p
    simp only [List.cons_append, List.lookup_cons] at h ⊢
    cases hk : (n == k) with
    | true => simp only [hk] at h ⊢; exact h
    | false => simp only [hk] at h ⊢; exact ih h

theorem lookup_none_of_not_key (s : Env) (n : Nat) (h : n ∉ keys s) : s.lookup n = none := by
  induction s with
  | nil => rfl
  | cons q qs ih =>
    obtain ⟨k, w⟩ := q
    have hk : n ≠ k := fun he => h (by simp [keys, he])
    have hqs : n ∉ keys qs := fun hm => h (by simp only [keys, List.map_cons, List.mem_cons]; exact Or.inr hm)
    simp only [List.lookup_cons]
    have : (n == k) = false := by simpa using hk
    simp [this, ih hqs]

theorem lookup_some_of_key (s : Env) (n : Nat) (h : n ∈ keys s) : ∃ v, s.lookup n = some v := by
  induction s with
  | nil => simp [keys] at h
  | cons q qs ih =>
    obtain ⟨k, w⟩ := q
    simp only [List.lookup_cons]
    cases hk : (n == k) with
    | true => exact ⟨w, rfl⟩
    | false =>
      simp only
      apply ih
      simp only [keys, List.map_cons, List.mem_cons] at h
      rcases h with h | h
      · simp [h] at hk
      · exact h

theorem condOk_append (pre s : Env) (c : Nat × List Nat) (hs : c.1 ∉ keys s) :
    condOk (pre ++ s) c = condOk pre c := by
  unfold condOk
  cases hl : pre.lookup c.1 with
  | some v => rw [lookup_append_left_some pre s c.1 v hl]
  | none =>
    have hn : c.1 ∉ pre.map (·.1) := by
      intro hm
      obtain ⟨v, hv⟩ := lookup_some_of_key pre c.1 hm
      rw [hl] at hv; cases hv
    rw [lookup_append_not_mem pre s c.1 hn, lookup_none_of_not_key s c.1 hs]

theorem active_append (pre s : Env) (h : GHP) (hs : ∀ c ∈ h.conds, c.1 ∉ keys s) :
    active (pre ++ s) h = active pre h := by
  unfold active
  have : ∀ (cs : List (Nat × List Nat)), (∀ c ∈ cs, c.1 ∉ keys s) → cs.all (condOk (pre ++ s)) = cs.all (condOk pre) := by
    intro cs
    induction cs with
    | nil => intro _; rfl
    | cons c cs ih =>
      intro hcs
      simp only [List.all_cons]
      rw [condOk_append pre s c (hcs c (by simp)), ih (fun c' hc' => hcs c' (List.mem_cons_of_mem _ hc'))]
  exact this h.conds hs

/-- all bindings added by `enum hs pre` are names of entries of `hs` -/
theorem enum_suffix_keys (hs : List GHP) (pre e : Env) (h : e ∈ enum hs pre) :
    ∃ s, e = pre ++ s ∧ ∀ k ∈ keys s, k ∈ names hs := by
  induction hs generalizing pre with
  | nil => simp [enum] at h; exact ⟨[], by simp [h], by simp [keys]⟩
  | cons g gs ih =>
    simp only [enum] at h
    split at h
    · obtain ⟨v, _, hv⟩ := List.mem_flatMap.mp h
      obtain ⟨s, hs, hk⟩ := ih _ hv
      refine ⟨(g.name, v) :: s, by simp [hs], ?_⟩
      intro k hk'
      simp only [keys, List.map_cons, List.mem_cons] at hk'
      rcases hk' with hk' | hk'
      · simp [names, hk']
      · simp only [names, List.map_cons, List.mem_cons]; exact Or.inr (hk k hk')
    · obtain ⟨s, hs, hk⟩ := ih _ h
      exact ⟨s, hs, fun k hk' => by simp only [names, List.map_cons, List.mem_cons]; exact Or.inr (hk k hk')⟩

/-- C05: an enumerated assignment binds an entry iff the entry is active under the assignment, and
    binds it to a member of its value list. `seen` = names bound in `pre` or skipped so far. -/
theorem enum_exact (hs : List GHP) (pre e : Env) (seen : List Nat)
    (hsub : ∀ k ∈ keys pre, k ∈ seen)
    (hnd : (seen ++ names hs).Nodup) (hpf : ParentsFirst seen hs) (he : e ∈ enum hs pre) :
    ∀ g ∈ hs, (active e g = true → ∃ v ∈ g.vals, e.lookup g.name = some v) ∧
              (active e g = false → e.lookup g.name = none) := by
  induction hs generalizing pre seen with
  | nil => intro g hg; simp at hg
  | cons h hs ih =>
    have hdisj : ∀ k ∈ seen, k ∉ names (h :: hs) := fun k hk hm => (List.nodup_append.mp hnd).2.2 k hk k hm rfl
    have hn : h.name ∉ keys pre := fun hm => hdisj h.name (hsub _ hm) (by simp [names])
    have hnot_later : h.name ∉ names hs := by
      have := (List.nodup_append.mp hnd).2.1
      simp only [names, List.map_cons, List.nodup_cons] at this
      exact this.1
    obtain ⟨hpc, hpf'⟩ := hpf
    have hnd' : ((seen ++ [h.name]) ++ names hs).Nodup := by
      simpa [names, List.append_assoc] using hnd
    simp only [enum] at he
    -- activity of `h` itself is decided by `pre`
    have hact_h : ∀ (s : Env), (∀ k ∈ keys s, k ∈ names (h :: hs)) → active (pre ++ s) h = active pre h := by
      intro s hk
      apply active_append
      intro c hc hm
      exact hdisj c.1 (hpc c hc) (hk c.1 hm)
    intro g hg
    by_cases hact : active pre h = true
    · simp only [hact, if_true] at he
      obtain ⟨v, hvin, hve⟩ := List.mem_flatMap.mp he
      have hsub' : ∀ k ∈ keys (pre ++ [(h.name, v)]), k ∈ seen ++ [h.name] := by
        intro k hk
        simp only [keys, List.map_append, List.map_cons, List.map_nil, List.mem_append, List.mem_singleton] at hk ⊢
        rcases hk with hk | hk
        · exact Or.inl (hsub k hk)
        · exact Or.inr hk
      rcases List.mem_cons.mp hg with hg | hg
      · subst hg
        obtain ⟨s, hs', hk⟩ := enum_suffix_keys hs _ e hve
        have hlk : e.lookup g.name = some v := lookup_of_mem_block hs pre e g.name v (by simpa [keys] using hn) hve
        have hae : active e g = true := by
          have : e = pre ++ ((g.name, v) :: s) := by rw [hs']; simp
          rw [this, hact_h]
          · exact hact
          · intro k hk'
            simp only [keys, List.map_cons, List.mem_cons] at hk'
            rcases hk' with hk' | hk'
            · simp [names, hk']
            · simp only [names, List.map_cons, List.mem_cons]; exact Or.inr (hk k hk')
        exact ⟨fun _ => ⟨v, hvin, hlk⟩, fun hf => by rw [hae] at hf; exact absurd hf (by simp)⟩
      · exact ih _ _ hsub' hnd' hpf' hve g hg
    · have hact' : active pre h = false := by simpa using hact
      simp only [hact', Bool.false_eq_true, if_false] at he
      have hsub' : ∀ k ∈ keys pre, k ∈ seen ++ [h.name] := fun k hk => List.mem_append.mpr (Or.inl (hsub k hk))
      rcases List.mem_cons.mp hg with hg | hg
      · subst hg
        obtain ⟨s, hs', hk⟩ := enum_suffix_keys hs _ e he
        have hae : active e g = false := by
          rw [hs', hact_h s (fun k hk' => by simp only [names, List.map_cons, List.mem_cons]; exact Or.inr (hk k hk'))]
          exact hact'
        have hlk : e.lookup g.name = none := by
          rw [hs', lookup_append_not_mem _ _ _ (by simpa [keys] using hn)]
          exact lookup_none_of_not_key s g.name (fun hm => hnot_later (hk _ hm))
        exact ⟨fun ht => by rw [hae] at ht; exact absurd ht (by simp), fun _ => hlk⟩
      · exact ih _ _ hsub' hnd' hpf' he g hg

end GridSucc
#print axioms GridSucc.enum_exact
