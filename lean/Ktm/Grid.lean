import Ktm.CoreProps
import Ktm.GridSucc
/-! C09 prototype: grid search as an `Alg` over the core oracle (static space). -/
namespace Grid
open Core GridSucc

structure St where
  space : List GHP
  ordered : List Nat     -- `_ordered_ids` as the list of ids in linked-list order
  queue : List Nat       -- `_populate_next`

abbrev O := Oracle Env St

/-- id following `i` in the ordered list -/
def succOf : List Nat → Nat → Option Nat
  | [], _ => none
  | [_], _ => none
  | a :: b :: rest, i => if a = i then some b else succOf (b :: rest) i

def insertAfter : List Nat → Nat → Nat → List Nat
  | [], _, x => [x]
  | a :: rest, i, x => if a = i then a :: x :: rest else a :: insertAfter rest i x

def valsOf (o : O) (i : Nat) : Option Env := (o.trials[i]?).map (·.vals)

/-- `_compare` restricted to what the static case needs: equal assignments compare as 0 (covered);
    the code's full lexicographic comparison is modelled in the real development -/
def covered (new nxt : Env) : Bool := new == nxt

/-- the `while` loop over `_populate_next` -/
def scanQueue (o : O) (s : St) : List Nat → List Nat × Option (Nat × Env)
  | [] => ([], none)
  | i :: q =>
    match valsOf o i with
    | none => scanQueue o s q
    | some old =>
      match next s.space [] old with
      | none => scanQueue o s q
      | some new =>
        match succOf s.ordered i with
        | some nid =>
          match valsOf o nid with
          | some nv => if covered new nv then scanQueue o s q else (q, some (i, new))
          | none => (q, some (i, new))
        | none => (q, some (i, new))

def populate (o : O) (_choice : Nat) : St × Pop Env :=
  let s := o.alg
  let newId := o.trials.length
  if o.trials.length = 0 then
    ({ s with ordered := s.ordered ++ [newId], queue := s.queue ++ [newId] }, .run (first s.space []))
  else
    match scanQueue o s s.queue with
    | (q, some (i, new)) => ({ s with ordered := insertAfter s.ordered i newId, queue := q }, .run new)
    | (q, none) => ({ s with queue := q }, if o.ongoing.isEmpty then .stop else .idle)

def alg : Alg Env St :=
  { populate := populate, onEnd := fun s id => { s with queue := s.queue ++ [id] },
    scoreOf := fun l => l.getLast?.join }

def init (space : List GHP) : O :=
  Core.init (V := Env) { space := space, ordered := [], queue := [] } none 0 1000

-- smoke test: conditional space, sequential run
def demoSpace : List GHP := [⟨0, [0,1], []⟩, ⟨1, [5,6], [(0,[1])]⟩, ⟨2, [3,4], []⟩]
def demo : Nat → O → List (Option Env) → List (Option Env)
  | 0, _, acc => acc.reverse
  | fuel + 1, o, acc =>
    let r := Core.step alg o (.create 0 0)
    match r.2 with
    | .trial id v =>
      let r2 := Core.step alg r.1 (.update id (some 1))
      let r3 := Core.step alg r2.1 (.endT id .completed)
      demo fuel r3.1 (some v :: acc)
    | _ => (none :: acc).reverse
#eval demo 10 (init demoSpace) []
#eval enum demoSpace []

end Grid
