import Ktm.Grid
namespace Grid
open Core GridSucc

/-! ### list facts -/

theorem succIn_index (l : List Env) (hnd : l.Nodup) (i : Nat) (e : Env) (h : l[i]? = some e) :
    succIn l e = l[i + 1]? := by
  induction l generalizing i with
  | nil => simp at h
  | cons a as ih =>
    cases as with
    | nil =>
      cases i with
      | zero => simp [succIn]
      | succ j => simp at h
    | cons b bs =>
      have hnd' := (List.nodup_cons.mp hnd).2
      have ha := (List.nodup_cons.mp hnd).1
      cases i with
      | zero =>
        simp at h; subst h; simp [succIn]
      | succ j =>
        have h' : (b :: bs)[j]? = some e := by simpa using h
        have hne : a ≠ e := by
          intro he; subst he
          exact ha (List.mem_of_getElem? h')
        simp only [succIn, hne, if_false]
        rw [ih hnd' j h']
        simp

theorem succOf_range (n i : Nat) (hi : i < n) :
    succOf (List.range n) i = if i + 1 < n then some (i + 1) else none := by
  have key : ∀ (k m : Nat), i < k + m → k ≤ i →
      succOf (List.range' k m) i = if i + 1 < k + m then some (i + 1) else none := by
    intro k m
    induction m generalizing k with
    | zero => intro h1 h2; omega
    | succ m ih =>
      intro h1 h2
      cases m with
      | zero =>
        have : i = k := by omega
        subst this
        simp [List.range'_succ, succOf]
      | succ m' =>
        rw [List.range'_succ, List.range'_succ]
        by_cases hk : k = i
        · subst hk
          simp only [succOf, if_true]
          have : k + 1 < k + (m' + 1 + 1) := by omega
          simp [this]
        · simp only [succOf, hk, if_false]
          have := ih (k + 1) (by omega) (by omega)
          rw [List.range'_succ] at this
          rw [this]
          have e1 : k + 1 + (m' + 1) = k + (m' + 1 + 1) := by omega
          rw [e1]
  have := key 0 n (by omega) (by omega)
  simpa [List.range_eq_range'] using this

theorem insertAfter_range (n : Nat) (hn : 0 < n) :
    insertAfter (List.range n) (n - 1) n = List.range (n + 1) := by
  have key : ∀ (k m : Nat), 0 < m →
      insertAfter (List.range' k m) (k + m - 1) (k + m) = List.range' k (m + 1) := by
    intro k m
    induction m generalizing k with
    | zero => intro h; omega
    | succ m ih =>
      intro _
      cases m with
      | zero => simp [List.range'_succ, insertAfter]
      | succ m' =>
        rw [List.range'_succ (s := k) (n := m' + 1), List.range'_succ (s := k) (n := m' + 1 + 1)]
        have hk : k ≠ k + (m' + 1 + 1) - 1 := by omega
        simp only [insertAfter, hk, if_false]
        have := ih (k + 1) (by omega)
        have e1 : k + 1 + (m' + 1) - 1 = k + (m' + 1 + 1) - 1 := by omega
        have e2 : k + 1 + (m' + 1) = k + (m' + 1 + 1) := by omega
        rw [e1, e2] at this
        rw [this]
  have := key 0 n hn
  simpa [List.range_eq_range'] using this

end Grid

namespace Grid
open Core GridSucc

/-- static facts about the search space -/
structure SpaceOK (space : List GHP) : Prop where
  vals_ne : ∀ g ∈ space, g.vals ≠ []
  names_nodup : (names space).Nodup
  enum_nodup : (enum space []).Nodup     -- follows from value lists being nodup; proved separately

structure GInv (o : O) : Prop where
  vals : ∀ (i : Nat) (t : Trial Env), o.trials[i]? = some t → (enum o.alg.space [])[i]? = some t.vals
  ordered : o.alg.ordered = List.range o.trials.length
  queue_lt : ∀ i ∈ o.alg.queue, i < o.trials.length
  last_pending : o.trials.length ≠ 0 → o.trials.length < (enum o.alg.space []).length →
      (o.trials.length - 1 ∈ o.alg.queue ∨ o.trials.length - 1 ∈ o.ongoing.map (·.2))

theorem valsOf_of_ginv (o : O) (g : GInv o) (i : Nat) (hi : i < o.trials.length) :
    ∃ e, valsOf o i = some e ∧ (enum o.alg.space [])[i]? = some e := by
  have ht : o.trials[i]? = some (o.trials[i]'hi) := List.getElem?_eq_getElem hi
  exact ⟨(o.trials[i]'hi).vals, by simp [valsOf, ht], g.vals i _ ht⟩

/-- the loop either issues the successor of the last issued trial, or — if the last issued id was
    queued — there is no successor at all -/
theorem scanQueue_spec (o : O) (hs : SpaceOK o.alg.space) (g : GInv o) (q : List Nat)
    (hq : ∀ i ∈ q, i < o.trials.length) :
    (∀ q' i new, scanQueue o o.alg q = (q', some (i, new)) →
        i + 1 = o.trials.length ∧ (enum o.alg.space [])[o.trials.length]? = some new ∧ (∀ j ∈ q', j ∈ q)) ∧
    (∀ q', scanQueue o o.alg q = (q', none) →
        q' = [] ∧ (o.trials.length - 1 ∈ q → o.trials.length ≠ 0 → (enum o.alg.space []).length ≤ o.trials.length)) := by
  induction q with
  | nil =>
    constructor
    · intro q' i new h; simp [scanQueue] at h
    · intro q' h; simp [scanQueue] at h; exact ⟨h, by simp⟩
  | cons i q ih =>
    have hi : i < o.trials.length := hq i (by simp)
    have hq' : ∀ j ∈ q, j < o.trials.length := fun j hj => hq j (by simp [hj])
    obtain ⟨ih1, ih2⟩ := ih hq'
    obtain ⟨e, hve, hEe⟩ := valsOf_of_ginv o g i hi
    have hnext : next o.alg.space [] e = (enum o.alg.space [])[i + 1]? := by
      rw [next_is_succ o.alg.space [] e hs.vals_ne (by simpa using hs.names_nodup) (List.mem_of_getElem? hEe)]
      exact succIn_index _ hs.enum_nodup i e hEe
    have hsucc : succOf o.alg.ordered i = if i + 1 < o.trials.length then some (i + 1) else none := by
      rw [g.ordered]; exact succOf_range _ _ hi
    -- unfold one step of the loop
    have hstep : scanQueue o o.alg (i :: q) =
        match (enum o.alg.space [])[i + 1]? with
        | none => scanQueue o o.alg q
        | some new =>
          if i + 1 < o.trials.length then scanQueue o o.alg q else (q, some (i, new)) := by
      simp only [scanQueue, hve, hnext]
      cases hE : (enum o.alg.space [])[i + 1]? with
      | none => rfl
      | some new =>
        simp only [hsucc]
        by_cases hlt : i + 1 < o.trials.length
        · simp only [hlt, if_true]
          obtain ⟨e', hve', hEe'⟩ := valsOf_of_ginv o g (i + 1) hlt
          rw [hE] at hEe'; cases hEe'
          simp [hve', covered]
        · simp [hlt]
    constructor
    · intro q' i' new h
      rw [hstep] at h
      cases hE : (enum o.alg.space [])[i + 1]? with
      | none =>
        rw [hE] at h
        obtain ⟨h1, h2, h3⟩ := ih1 q' i' new h
        exact ⟨h1, h2, fun j hj => List.mem_cons_of_mem _ (h3 j hj)⟩
      | some new' =>
        rw [hE] at h
        by_cases hlt : i + 1 < o.trials.length
        · simp only [hlt, if_true] at h
          obtain ⟨h1, h2, h3⟩ := ih1 q' i' new h
          exact ⟨h1, h2, fun j hj => List.mem_cons_of_mem _ (h3 j hj)⟩
        · simp only [hlt, if_false, Prod.mk.injEq, Option.some.injEq] at h
          obtain ⟨hq1, hi1, hn1⟩ := h
          subst hq1; subst hi1; subst hn1
          have : i + 1 = o.trials.length := by omega
          exact ⟨this, by rw [← this]; exact hE, fun j hj => List.mem_cons_of_mem _ hj⟩
    · intro q' h
      rw [hstep] at h
      cases hE : (enum o.alg.space [])[i + 1]? with
      | none =>
        rw [hE] at h
        obtain ⟨h1, h2⟩ := ih2 q' h
        refine ⟨h1, fun hm hn0 => ?_⟩
        rcases List.mem_cons.mp hm with hm | hm
        · -- the last issued id is `i` and it has no successor
          have hlen : (enum o.alg.space []).length ≤ i + 1 := by
            cases hlt : decide (i + 1 < (enum o.alg.space []).length) with
            | false => simpa using hlt
            | true =>
              have hlt' : i + 1 < (enum o.alg.space []).length := by simpa using hlt
              rw [List.getElem?_eq_getElem hlt'] at hE; cases hE
          omega
        · exact h2 hm hn0
      | some new' =>
        rw [hE] at h
        by_cases hlt : i + 1 < o.trials.length
        · simp only [hlt, if_true] at h
          obtain ⟨h1, h2⟩ := ih2 q' h
          refine ⟨h1, fun hm hn0 => ?_⟩
          rcases List.mem_cons.mp hm with hm | hm
          · omega
          · exact h2 hm hn0
        · simp only [hlt, if_false] at h
          cases h

end Grid
#print axioms Grid.scanQueue_spec
