import Ktm.GridTop
import Ktm.EnumNodup
/-! C09: the grid invariant holds in every state reachable by any request list (static space). -/
namespace Grid
open Core GridSucc

theorem populate_space (o : O) (c : Nat) : (populate o c).1.space = o.alg.space := by
  unfold populate
  simp only
  split
  · rfl
  · split <;> rfl

theorem step_space (o : O) (op : Op) : (step alg o op).1.alg.space = o.alg.space := by
  cases op with
  | create t c =>
    simp only [step, create]
    split
    · split <;> rfl
    · split
      · split <;> rfl
      · split
        · rfl
        · have hp := populate_space { o with tunerIds := addTuner o.tunerIds t } c
          have halg : alg.populate { o with tunerIds := addTuner o.tunerIds t } c =
              populate { o with tunerIds := addTuner o.tunerIds t } c := rfl
          rw [halg]
          cases hq : populate { o with tunerIds := addTuner o.tunerIds t } c with
          | mk a pop =>
            rw [hq] at hp
            cases pop <;> simpa using hp
  | update id r => simp only [step, update]; split <;> rfl
  | endT id oc =>
    simp only [step, endT]
    split
    · rfl
    · split
      · rfl
      · split
        · rfl
        · split <;> rfl

theorem ginv_step (o : O) (hs : SpaceOK o.alg.space) (g : GInv o) (op : Op) : GInv (step alg o op).1 := by
  cases op with
  | create t c => exact ginv_create o hs g t c
  | update id r => exact ginv_update o g id r
  | endT id oc => exact ginv_end o g id oc

/-- the grid invariant (trial `i` carries the `i`-th combination of the enumeration, the ordered id list is
    `0 … n−1`, the last issued id is still queued or running) holds after every request list -/
theorem ginv_reachable (o : O) (hs : SpaceOK o.alg.space) (g : GInv o) (ops : List Op) :
    GInv (run alg o ops) ∧ (run alg o ops).alg.space = o.alg.space := by
  induction ops generalizing o with
  | nil => exact ⟨g, rfl⟩
  | cons op ops ih =>
    simp only [run]
    have hsp := step_space o op
    split
    · exact ⟨ginv_step o hs g op, hsp⟩
    · have := ih (step alg o op).1 (by rw [hsp]; exact hs) (ginv_step o hs g op)
      exact ⟨this.1, this.2.trans hsp⟩

theorem ginv_init (space : List GHP) : GInv (init space) := by
  refine ⟨?_, rfl, ?_, ?_⟩
  · intro i t h; simp [init, Core.init] at h
  · intro i h; simp [init, Core.init] at h
  · intro h; simp [init, Core.init] at h

end Grid
#print axioms Grid.ginv_reachable
