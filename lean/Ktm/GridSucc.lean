-- feasibility prototype for C09: the odometer `next` is the successor function of the enumeration
namespace GridSucc

structure GHP where
  name : Nat
  vals : List Nat                   -- value list, default first
  conds : List (Nat × List Nat)     -- (parent name, admissible parent values)

abbrev Env := List (Nat × Nat)

def condOk (env : Env) (c : Nat × List Nat) : Bool :=
  match env.lookup c.1 with
  | some v => c.2.contains v
  | none => false

def active (env : Env) (h : GHP) : Bool := h.conds.all (condOk env)

/-- all assignments of the remaining entries extending `pre`, in grid order -/
def enum : List GHP → Env → List Env
  | [], pre => [pre]
  | h :: hs, pre =>
    if active pre h then h.vals.flatMap (fun v => enum hs (pre ++ [(h.name, v)]))
    else enum hs pre

/-- all-defaults completion -/
def first : List GHP → Env → Env
  | [], pre => pre
  | h :: hs, pre =>
    if active pre h then
      match h.vals with
      | [] => pre            -- unreachable for well-formed entries
      | v :: _ => first hs (pre ++ [(h.name, v)])
    else first hs pre

/-- value after `v` in `l` -/
def succVal : List Nat → Nat → Option Nat
  | [], _ => none
  | [_], _ => none
  | a :: b :: rest, v => if a = v then some b else succVal (b :: rest) v

/-- forward formulation of `_get_next_combination`: bump the last bumpable active entry,
    reset everything after it to defaults -/
def next : List GHP → Env → Env → Option Env
  | [], _, _ => none
  | h :: hs, pre, old =>
    if active pre h then
      match old.lookup h.name with
      | none => none
      | some v =>
        match next hs (pre ++ [(h.name, v)]) old with
        | some r => some r
        | none =>
          match succVal h.vals v with
          | some v' => some (first hs (pre ++ [(h.name, v')]))
          | none => none
    else next hs pre old

/-- successor of `e` in a list -/
def succIn (l : List Env) (e : Env) : Option Env :=
  match l with
  | [] => none
  | [_] => none
  | a :: b :: rest => if a = e then some b else succIn (b :: rest) e


/-! ### list lemmas about `succIn` -/

theorem succIn_append_mem (A B : List Env) (e : Env) (h : e ∈ A) :
    succIn (A ++ B) e = (succIn A e).orElse (fun _ => B.head?) := by
  induction A with
  | nil => simp at h
  | cons a as ih =>
    cases as with
    | nil =>
      have : a = e := by simp at h; exact h.symm
      subst this
      cases B with
      | nil => simp [succIn]
      | cons b bs => simp [succIn]
    | cons a2 as2 =>
      by_cases hae : a = e
      · subst hae; simp [succIn]
      · have h' : e ∈ a2 :: as2 := by
          rcases List.mem_cons.mp h with h | h
          · exact absurd h.symm hae
          · exact h
        have := ih h'
        simp only [List.cons_append] at this ⊢
        simp only [succIn, hae, if_false]
        exact this

theorem succIn_append_not_mem (A B : List Env) (e : Env) (h : e ∉ A) :
    succIn (A ++ B) e = succIn B e := by
  induction A with
  | nil => simp
  | cons a as ih =>
    have hae : a ≠ e := fun hh => h (hh ▸ List.mem_cons_self)
    have has : e ∉ as := fun hh => h (List.mem_cons_of_mem _ hh)
    have := ih has
    cases hAB : as ++ B with
    | nil =>
      have hB : B = [] := by
        cases as <;> simp_all
      have has' : as = [] := by cases as <;> simp_all
      subst hB; subst has'
      simp [succIn]
    | cons x xs =>
      simp only [List.cons_append, hAB, succIn, hae, if_false]
      rw [hAB] at this; exact this

theorem head?_append_ne_nil {α} (l l' : List α) (h : l ≠ []) : (l ++ l').head? = l.head? := by
  cases l with
  | nil => exact absurd rfl h
  | cons a as => simp

/-! ### structure of `enum` -/

def names (hs : List GHP) : List Nat := hs.map (·.name)

theorem enum_ne_nil (hs : List GHP) (hv : ∀ h ∈ hs, h.vals ≠ []) (pre : Env) : enum hs pre ≠ [] := by
  induction hs generalizing pre with
  | nil => simp [enum]
  | cons h hs ih =>
    have hv' : ∀ h ∈ hs, h.vals ≠ [] := fun x hx => hv x (List.mem_cons_of_mem _ hx)
    simp only [enum]
    split
    · have hne := hv h List.mem_cons_self
      cases hvals : h.vals with
      | nil => exact absurd hvals hne
      | cons v vs =>
        simp only [List.flatMap_cons]
        intro hcontra
        have := List.append_eq_nil_iff.mp hcontra
        exact ih hv' _ this.1
    · exact ih hv' pre

theorem enum_head (hs : List GHP) (hv : ∀ h ∈ hs, h.vals ≠ []) (pre : Env) :
    (enum hs pre).head? = some (first hs pre) := by
  induction hs generalizing pre with
  | nil => simp [enum, first]
  | cons h hs ih =>
    have hv' : ∀ h ∈ hs, h.vals ≠ [] := fun x hx => hv x (List.mem_cons_of_mem _ hx)
    simp only [enum, first]
    split
    · have hne := hv h List.mem_cons_self
      cases hvals : h.vals with
      | nil => exact absurd hvals hne
      | cons v vs =>
        simp only [List.flatMap_cons]
        have hne2 := enum_ne_nil hs hv' (pre ++ [(h.name, v)])
        rw [head?_append_ne_nil _ _ hne2]
        exact ih hv' _
    · exact ih hv' pre

/-- every element of `enum hs pre` extends `pre` -/
theorem mem_enum_prefix (hs : List GHP) (pre e : Env) (h : e ∈ enum hs pre) :
    ∃ s, e = pre ++ s := by
  induction hs generalizing pre with
  | nil => simp [enum] at h; exact ⟨[], by simp [h]⟩
  | cons g gs ih =>
    simp only [enum] at h
    split at h
    · obtain ⟨v, _, hv⟩ := List.mem_flatMap.mp h
      obtain ⟨s, hs⟩ := ih _ hv
      exact ⟨(g.name, v) :: s, by simp [hs]⟩
    · exact ih _ h

theorem lookup_append_not_mem (pre s : Env) (n : Nat) (h : n ∉ pre.map (·.1)) :
    (pre ++ s).lookup n = s.lookup n := by
  induction pre with
  | nil => simp
  | cons p ps ih =>
    obtain ⟨k, v⟩ := p
    have hk : n ≠ k := fun hh => h (by simp [hh])
    have : n ∉ ps.map (·.1) := fun hh => h (by simp [hh])
    simp only [List.cons_append, List.lookup_cons]
    have : (n == k) = false := by simpa using hk
    simp [this, ih ‹_›]

theorem lookup_of_mem_block (hs : List GHP) (pre e : Env) (n v : Nat)
    (hn : n ∉ pre.map (·.1)) (h : e ∈ enum hs (pre ++ [(n, v)])) : e.lookup n = some v := by
  obtain ⟨s, hs'⟩ := mem_enum_prefix hs _ e h
  subst hs'
  rw [List.append_assoc, lookup_append_not_mem _ _ _ hn]
  simp

/-! ### the block lemma and the main theorem -/

theorem block_lemma (h : GHP) (hs : List GHP) (pre e : Env) (hv : ∀ g ∈ hs, g.vals ≠ [])
    (hn : h.name ∉ pre.map (·.1)) (vs : List Nat) (v : Nat) (hvin : v ∈ vs)
    (he : e ∈ enum hs (pre ++ [(h.name, v)])) :
    succIn (vs.flatMap (fun w => enum hs (pre ++ [(h.name, w)]))) e =
      (succIn (enum hs (pre ++ [(h.name, v)])) e).orElse
        (fun _ => (succVal vs v).map (fun v' => first hs (pre ++ [(h.name, v')]))) := by
  induction vs with
  | nil => simp at hvin
  | cons a rest ih =>
    simp only [List.flatMap_cons]
    by_cases hav : a = v
    · subst hav
      rw [succIn_append_mem _ _ _ he]
      congr 1
      funext _
      cases rest with
      | nil => simp [succVal]
      | cons b bs =>
        simp only [List.flatMap_cons, succVal, if_true, Option.map_some]
        rw [head?_append_ne_nil _ _ (enum_ne_nil hs hv _)]
        exact enum_head hs hv _
    · have hvr : v ∈ rest := by
        rcases List.mem_cons.mp hvin with h' | h'
        · exact absurd h'.symm hav
        · exact h'
      have hnot : e ∉ enum hs (pre ++ [(h.name, a)]) := by
        intro hmem
        have h1 := lookup_of_mem_block hs pre e h.name a hn hmem
        have h2 := lookup_of_mem_block hs pre e h.name v hn he
        rw [h1] at h2; exact hav (by simpa using h2)
      rw [succIn_append_not_mem _ _ _ hnot, ih hvr]
      congr 1
      funext _
      cases rest with
      | nil => simp at hvr
      | cons b bs => simp [succVal, hav]

theorem next_is_succ (hs : List GHP) (pre e : Env)
    (hv : ∀ g ∈ hs, g.vals ≠ [])
    (hnd : (pre.map (·.1) ++ names hs).Nodup)
    (he : e ∈ enum hs pre) :
    next hs pre e = succIn (enum hs pre) e := by
  induction hs generalizing pre with
  | nil =>
    simp only [enum, List.mem_singleton] at he
    simp [next, enum, succIn]
  | cons h hs ih =>
    have hv' : ∀ g ∈ hs, g.vals ≠ [] := fun x hx => hv x (List.mem_cons_of_mem _ hx)
    have hn : h.name ∉ pre.map (·.1) := by
      intro hmem
      have := (List.nodup_append.mp hnd).2.2 h.name hmem h.name (by simp [names])
      exact this rfl
    simp only [enum] at he ⊢
    simp only [next]
    by_cases hact : active pre h = true
    · -- active
      simp only [hact, if_true] at he ⊢
      obtain ⟨v, hvin, hve⟩ := List.mem_flatMap.mp he
      have hlk := lookup_of_mem_block hs pre e h.name v hn hve
      have hnd' : ((pre ++ [(h.name, v)]).map (·.1) ++ names hs).Nodup := by
        simpa [names, List.append_assoc] using hnd
      rw [hlk]
      simp only
      rw [block_lemma h hs pre e hv' hn h.vals v hvin hve, ← ih _ hv' hnd' hve]
      cases next hs (pre ++ [(h.name, v)]) e with
      | some r => simp
      | none =>
        simp only [Option.orElse_none]
        cases succVal h.vals v <;> simp
    · simp only [hact, if_false] at he ⊢
      have hnd' : (pre.map (·.1) ++ names hs).Nodup := by
        have : (pre.map (·.1) ++ (h.name :: names hs)).Nodup := by simpa [names] using hnd
        exact (List.nodup_append.mpr ⟨(List.nodup_append.mp this).1,
          ((List.nodup_append.mp this).2.1).of_cons,
          fun a ha b hb => (List.nodup_append.mp this).2.2 a ha b (List.mem_cons_of_mem _ hb)⟩)
      exact ih _ hv' hnd' he

end GridSucc
#print axioms GridSucc.next_is_succ
