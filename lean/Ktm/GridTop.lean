import Ktm.GridInv
namespace Grid
open Core GridSucc

/-- bookkeeping-only changes: same values per id, same number of trials, same algorithm state,
    ongoing ids only grow -/
theorem ginv_same (o o' : O) (g : GInv o)
    (hlen : o'.trials.length = o.trials.length)
    (hvals : ∀ (i : Nat) (t' : Trial Env), o'.trials[i]? = some t' → ∃ t, o.trials[i]? = some t ∧ t.vals = t'.vals)
    (halg : o'.alg = o.alg)
    (hon : ∀ i ∈ o.ongoing.map (·.2), i ∈ o'.ongoing.map (·.2)) : GInv o' := by
  constructor
  · intro i t' ht'
    obtain ⟨t, ht, hv⟩ := hvals i t' ht'
    rw [halg, ← hv]; exact g.vals i t ht
  · rw [halg, hlen]; exact g.ordered
  · intro i hi; rw [halg] at hi; rw [hlen]; exact g.queue_lt i hi
  · intro h0 hlt
    rw [hlen] at h0 hlt ⊢; rw [halg] at hlt ⊢
    rcases g.last_pending h0 hlt with h | h
    · exact Or.inl h
    · exact Or.inr (hon _ h)

theorem setTrial_vals (ts : List (Trial Env)) (id : Nat) (f : Trial Env → Trial Env) (hf : ∀ t, (f t).vals = t.vals)
    (i : Nat) (t' : Trial Env) (h : (setTrial ts id f)[i]? = some t') : ∃ t, ts[i]? = some t ∧ t.vals = t'.vals := by
  rw [getElem?_setTrial] at h
  split at h
  · cases hti : ts[i]? with
    | none => simp [hti] at h
    | some t => simp [hti] at h; subst h; exact ⟨t, rfl, (hf t).symm⟩
  · exact ⟨t', h, rfl⟩

theorem setTrial_vals' {ts : List (Trial Env)} {id : Nat} {f : Trial Env → Trial Env} {i : Nat} {t' : Trial Env}
    (h : (setTrial ts id f)[i]? = some t') (hf : ∀ t, (f t).vals = t.vals) : ∃ t, ts[i]? = some t ∧ t.vals = t'.vals :=
  setTrial_vals ts id f hf i t' h

theorem ginv_update (o : O) (g : GInv o) (id : Nat) (r : Option Int) : GInv (update o id r).1 := by
  unfold update
  split
  · exact ginv_same o _ g (by simp [length_setTrial])
      (fun i t' h => setTrial_vals o.trials id (fun t => { t with reports := t.reports ++ [r] }) (fun _ => rfl) i t' h) rfl (fun i hi => hi)
  · exact g

end Grid

namespace Grid
open Core GridSucc

theorem ginv_end (o : O) (g : GInv o) (id : Nat) (oc : Outcome) : GInv (endT alg o id oc).1 := by
  unfold endT
  cases hti : o.trials[id]? with
  | none => exact g
  | some t =>
    simp only
    have hidlt : id < o.trials.length := (List.getElem?_eq_some_iff.mp hti).1
    by_cases hon : isOngoing o id = true
    · simp only [hon, Bool.not_true, Bool.false_eq_true, if_false]
      -- both non-abort branches: vals kept, id pushed on the queue, id removed from ongoing
      have common : ∀ (ts' : List (Trial Env)) (rq eo : List Nat), ts'.length = o.trials.length →
          (∀ (i : Nat) (t' : Trial Env), ts'[i]? = some t' → ∃ t, o.trials[i]? = some t ∧ t.vals = t'.vals) →
          GInv ({ o with trials := ts', retryQ := rq, endOrder := eo,
                         ongoing := o.ongoing.filter (fun p => p.2 != id), alg := alg.onEnd o.alg id } : O) := by
        intro ts' rq eo hlen hv
        constructor
        · intro i t' ht'
          obtain ⟨t0, ht0, hv0⟩ := hv i t' ht'
          simp only [alg]; rw [← hv0]; exact g.vals i t0 ht0
        · simp only [alg, hlen]; exact g.ordered
        · intro i hi
          simp only [alg, List.mem_append, List.mem_singleton] at hi
          simp only [hlen]
          rcases hi with hi | hi
          · exact g.queue_lt i hi
          · omega
        · intro h0 hlt
          simp only [hlen, alg] at h0 hlt ⊢
          rcases g.last_pending h0 hlt with h | h
          · exact Or.inl (List.mem_append.mpr (Or.inl h))
          · by_cases he : o.trials.length - 1 = id
            · left; rw [he]; simp
            · right; exact (mem_filter_ids _ _ _).mpr ⟨h, he⟩
      split
      · exact common _ _ _ (by simp [length_setTrial]) (fun i t' h => setTrial_vals' h (fun _ => rfl))
      · split
        · -- abort: nothing the grid looks at changes except trial records
          exact ginv_same o _ g (by simp [length_setTrial])
            (fun i t' h => setTrial_vals' h (fun _ => rfl)) rfl (fun i hi => hi)
        · exact common _ _ _ (by simp [length_setTrial]) (fun i t' h => setTrial_vals' h (fun _ => rfl))
    · simp only [hon, Bool.not_false, if_true]; exact g

theorem ginv_create (o : O) (hs : SpaceOK o.alg.space) (g : GInv o) (tuner c : Nat) :
    GInv (create alg o tuner c).1 := by
  unfold create
  split
  · split <;> exact g
  · simp only
    split
    · -- retry path
      split
      · exact ginv_same o _ g (by simp [length_setTrial])
          (fun i t' h => setTrial_vals' h (fun _ => rfl)) rfl
          (fun i hi => by simp only [List.map_append, List.mem_append]; exact Or.inl hi)
      · exact ginv_same o _ g rfl (fun i t' h => ⟨t', h, rfl⟩) rfl (fun i hi => hi)
    · split
      · exact ginv_same o _ g rfl (fun i t' h => ⟨t', h, rfl⟩) rfl (fun i hi => hi)
      · -- populate
        have hpop : alg.populate { o with tunerIds := addTuner o.tunerIds tuner } c
            = populate { o with tunerIds := addTuner o.tunerIds tuner } c := rfl
        rw [hpop]
        unfold populate
        simp only
        by_cases hn0 : o.trials.length = 0
        · -- first trial: all defaults
          simp only [hn0, if_true]
          have hnil : o.trials = [] := List.eq_nil_of_length_eq_zero hn0
          have hq : o.alg.queue = [] := by
            cases hqq : o.alg.queue with
            | nil => rfl
            | cons a as => have := g.queue_lt a (by simp [hqq]); omega
          have hord : o.alg.ordered = [] := by rw [g.ordered, hn0]; rfl
          constructor
          · intro i t ht
            simp only [hnil, List.nil_append] at ht
            cases i with
            | zero =>
              simp at ht; subst ht
              have := enum_head o.alg.space hs.vals_ne []
              simp only [List.head?_eq_getElem?] at this
              exact this
            | succ j => simp at ht
          · simp [hord, hn0, hnil, List.range_succ]
          · intro i hi; simp [hq, hn0] at hi; simp [hnil, hi]
          · intro _ _; left; simp [hnil, hn0, hq]
        · simp only [hn0, if_false]
          have hspec := scanQueue_spec o hs g o.alg.queue g.queue_lt
          have hsq : scanQueue { o with tunerIds := addTuner o.tunerIds tuner } o.alg o.alg.queue
              = scanQueue o o.alg o.alg.queue := by
            -- `scanQueue` only reads `trials`
            have : ∀ q, scanQueue { o with tunerIds := addTuner o.tunerIds tuner } o.alg q = scanQueue o o.alg q := by
              intro q; induction q with
              | nil => rfl
              | cons i q ih => simp only [scanQueue, valsOf, ih]
            exact this _
          rw [hsq]
          cases hres : scanQueue o o.alg o.alg.queue with
          | mk q' r =>
            cases r with
            | some p =>
              obtain ⟨i, new⟩ := p
              obtain ⟨hi1, hnew, hsub⟩ := hspec.1 q' i new hres
              simp only
              constructor
              · intro j t ht
                by_cases hj : j < o.trials.length
                · rw [List.getElem?_append_left hj] at ht; exact g.vals j t ht
                · rw [List.getElem?_append_right (by omega)] at ht
                  by_cases hj0 : j - o.trials.length = 0
                  · simp [hj0] at ht; subst ht
                    have : j = o.trials.length := by omega
                    subst this; exact hnew
                  · simp [hj0] at ht
              · simp only [List.length_append, List.length_cons, List.length_nil]
                have : i = o.trials.length - 1 := by omega
                rw [this, g.ordered]
                exact insertAfter_range _ (by omega)
              · intro j hj
                simp only [List.length_append, List.length_cons, List.length_nil]
                have := g.queue_lt j (hsub j hj); omega
              · intro _ _
                right
                simp
            | none =>
              obtain ⟨hq', hlast⟩ := hspec.2 q' hres
              have key : GInv ({ o with tunerIds := addTuner o.tunerIds tuner, alg := { o.alg with queue := q' } } : O) := by
                constructor
                · exact g.vals
                · exact g.ordered
                · intro j hj
                  have hj' : j ∈ q' := hj
                  rw [hq'] at hj'; simp at hj'
                · intro h0 hlt
                  have h0' : o.trials.length ≠ 0 := h0
                  have hlt' : o.trials.length < (enum o.alg.space []).length := hlt
                  show o.trials.length - 1 ∈ q' ∨ o.trials.length - 1 ∈ o.ongoing.map (·.2)
                  rcases g.last_pending h0' hlt' with h | h
                  · have := hlast h h0'; omega
                  · exact Or.inr h
              by_cases he : o.ongoing.isEmpty = true
              · simp only [he, if_true]
                exact ginv_same _ _ key rfl (fun i t' h => ⟨t', h, rfl⟩) rfl (fun i hi => hi)
              · simp only [he]
                exact ginv_same _ _ key rfl (fun i t' h => ⟨t', h, rfl⟩) rfl (fun i hi => hi)

end Grid

namespace Grid
open Core GridSucc

/-- C09 (static space): when grid search answers STOPPED with nothing running and no retry pending,
    the trials are exactly the enumeration of all active combinations, in order, each once. -/
theorem grid_complete (o : O) (hs : SpaceOK o.alg.space) (g : GInv o)
    (hmax : o.maxTrials = none) (hon : o.ongoing = []) (hrq : o.retryQ = [])
    (tuner c : Nat) (hout : (create alg o tuner c).2 = .stopped) :
    o.trials.map (·.vals) = enum o.alg.space [] := by
  -- the number of trials equals the size of the enumeration
  have hle : o.trials.length ≤ (enum o.alg.space []).length := by
    cases hn : o.trials.length with
    | zero => omega
    | succ k =>
      have hk : k < o.trials.length := by omega
      have := g.vals k _ (List.getElem?_eq_getElem hk)
      have := (List.getElem?_eq_some_iff.mp this).1
      omega
  have hge : (enum o.alg.space []).length ≤ o.trials.length := by
    have hholds : holds o tuner = none := by simp [holds, hon]
    have hq' : o.retryQ.getLast? = none := by simp [hrq]
    have hb : budgetReached { o with tunerIds := addTuner o.tunerIds tuner } = false := by
      simp [budgetReached, hmax]
    simp only [create, hholds, hq', hb] at hout
    have hpop : alg.populate { o with tunerIds := addTuner o.tunerIds tuner } c
        = populate { o with tunerIds := addTuner o.tunerIds tuner } c := rfl
    rw [hpop] at hout
    unfold populate at hout
    simp only at hout
    by_cases hn0 : o.trials.length = 0
    · simp [hn0] at hout
    · simp only [hn0, if_false] at hout
      have hsq : scanQueue { o with tunerIds := addTuner o.tunerIds tuner } o.alg o.alg.queue
          = scanQueue o o.alg o.alg.queue := by
        have : ∀ q, scanQueue { o with tunerIds := addTuner o.tunerIds tuner } o.alg q = scanQueue o o.alg q := by
          intro q; induction q with
          | nil => rfl
          | cons i q ih => simp only [scanQueue, valsOf, ih]
        exact this _
      rw [hsq] at hout
      have hspec := scanQueue_spec o hs g o.alg.queue g.queue_lt
      cases hres : scanQueue o o.alg o.alg.queue with
      | mk q' r =>
        rw [hres] at hout
        cases r with
        | some p => obtain ⟨i, new⟩ := p; simp at hout
        | none =>
          obtain ⟨_, hlast⟩ := hspec.2 q' hres
          cases hlt : decide (o.trials.length < (enum o.alg.space []).length) with
          | false => simpa using hlt
          | true =>
            have hlt' : o.trials.length < (enum o.alg.space []).length := by simpa using hlt
            rcases g.last_pending hn0 hlt' with h | h
            · exact hlast h hn0
            · simp [hon] at h
  have hlen : o.trials.length = (enum o.alg.space []).length := by omega
  apply List.ext_getElem?
  intro i
  by_cases hi : i < o.trials.length
  · have ht : o.trials[i]? = some (o.trials[i]'hi) := List.getElem?_eq_getElem hi
    rw [List.getElem?_map, ht, g.vals i _ ht]; rfl
  · rw [List.getElem?_eq_none (by simp; omega), List.getElem?_eq_none (by omega)]

end Grid
#print axioms Grid.grid_complete
