import Ktm.Random
import Ktm.Exact
/-! C06 / C01 — the search space grows while the search runs.

`end_trial` begins with `old_trial.hyperparameters = trial.hyperparameters; update_space(...)` and, after
scoring, `_record_values(trial)` ("record the values again in case of new hps appeared"). The generic model
`Core.endT` leaves the stored values alone; this file adds the missing step as `syncVals` (the stored trial takes
the values the tuner reports, the algorithm records them again) and the request kind `endWith id v oc`
(= `syncVals` followed by `endT`). Facts proved:

* the lifecycle invariant `Inv` is insensitive to the stored values, so C01–C03 hold verbatim for request lists
  that contain `endWith` (`inv_greachable`);
* `_record_values` as the code has it: the new hash joins `_tried_so_far`; when it differs from the hash recorded
  for that trial before (`_id_to_hash`) and new entries are tuned, the old hash is *removed*. For a sampling
  oracle the invariant *every trial's current values are in the tried list, or among the removed (stale) ones*
  survives every request, including `endWith` with arbitrary reported values; hence a freshly started trial differs
  from the **current** values of every earlier trial unless it is a stale configuration
  (`fresh_differs_unless_stale`); with `tune_new_entries = False` nothing is ever removed, the tried list only grows
  and a fresh trial differs from everything any trial ever held (`fresh_differs_not_tuned`, the repaired defect F21:
  the code used to remove the old hash in that mode too, and `stale_sampled_again` below is the counter-example on
  the unrepaired rule); in tuned mode a stale configuration leaves an entry of the grown space unbound that is
  active under it, and such an assignment is never enumerated/sampled from the grown space
  (`stale_not_enumerated`, from `enum_exact`).
  Pairwise distinctness of the *final* values is not preserved by growth (a trial started as `{x:1}` may end as
  `{x:1, y:d}` after a later trial was started as `{x:1, y:d}`); the code does not prevent that and the property
  does not ask for it (nothing is *started* twice). -/
namespace Growth
open Core
variable {V A : Type}

/-- `setTrial` with a function that keeps status and score keeps the lifecycle invariant -/
theorem inv_setTrial_same (o : Oracle V A) (id : Nat) (f : Trial V → Trial V) (a : A)
    (hst : ∀ t, (f t).status = t.status) (hsc : ∀ t, (f t).score = t.score) (h : Inv o) :
    Inv { o with trials := setTrial o.trials id f, alg := a } := by
  have key : ∀ (i : Nat) (t : Trial V), (setTrial o.trials id f)[i]? = some t →
      ∃ t', o.trials[i]? = some t' ∧ t'.status = t.status ∧ t'.score = t.score := by
    intro i t ht
    simp only [getElem?_setTrial] at ht
    split at ht
    · cases hti : o.trials[i]? with
      | none => simp [hti] at ht
      | some t' => simp [hti] at ht; subst ht; exact ⟨t', rfl, (hst t').symm, (hsc t').symm⟩
    · exact ⟨t, ht, rfl, rfl⟩
  have key2 : ∀ (i : Nat) (t : Trial V), o.trials[i]? = some t →
      ∃ t', (setTrial o.trials id f)[i]? = some t' ∧ t'.status = t.status := by
    intro i t ht
    simp only [getElem?_setTrial]
    split
    · exact ⟨f t, by rw [ht]; rfl, hst t⟩
    · exact ⟨t, ht, rfl⟩
  have hstat : ∀ i, statusOf (setTrial o.trials id f) i = statusOf o.trials i := by
    intro i
    by_cases hidi : id = i
    · simp only [statusOf, getElem?_setTrial, hidi, if_true]
      cases hti : o.trials[i]? <;> simp [hst]
    · simp only [statusOf, getElem?_setTrial, hidi, if_false]
  constructor
  · intro p hp
    obtain ⟨t, ht, hs⟩ := h.ongoing_run p hp
    obtain ⟨t', ht', hs'⟩ := key2 _ _ ht
    exact ⟨t', ht', hs'.trans hs⟩
  · exact h.ongoing_tuners
  · exact h.ongoing_ids
  · intro i hi
    obtain ⟨t, ht⟩ := h.retry_ok i hi
    obtain ⟨t', ht', _⟩ := key2 _ _ ht
    exact ⟨t', ht'⟩
  · exact h.retry_nodup
  · exact h.retry_not_ongoing
  · exact h.retry_not_end
  · intro i hi
    obtain ⟨t, ht, hs⟩ := h.end_ok i hi
    obtain ⟨t', ht', hs'⟩ := key2 _ _ ht
    exact ⟨t', ht', by rw [hs']; exact hs⟩
  · exact h.end_nodup
  · intro i t ht
    obtain ⟨t', ht', _, _⟩ := key i t ht
    exact h.cover i t' ht'
  · intro i hi t ht hs
    obtain ⟨t', ht', hs', hsc'⟩ := key i t ht
    rw [← hsc']; exact h.scored i hi t' ht' (hs'.trans hs)
  · intro m hm; simpa [length_setTrial] using h.budget m hm
  · have : (o.endOrder.map (statusOf (setTrial o.trials id f))) = o.endOrder.map (statusOf o.trials) :=
      List.map_congr_left (fun i _ => hstat i)
    simp only [this]; exact h.no_streak
  · exact h.not_aborted

/-- the first lines of `end_trial`: the stored trial takes the reported values; `_record_values` again -/
def syncVals (record : A → V → V → A) (o : Oracle V A) (id : Nat) (v : V) : Oracle V A :=
  match o.trials[id]? with
  | none => o
  | some t => { o with trials := setTrial o.trials id (fun t => { t with vals := v }), alg := record o.alg t.vals v }

theorem inv_syncVals (record : A → V → V → A) (o : Oracle V A) (id : Nat) (v : V) (h : Inv o) :
    Inv (syncVals record o id v) := by
  unfold syncVals
  split
  · exact h
  · exact inv_setTrial_same o id _ _ (fun _ => rfl) (fun _ => rfl) h

/-- requests of a search whose tuners may report changed hyperparameters at `end_trial` -/
inductive GOp (V : Type) | base (op : Op) | endWith (id : Nat) (v : V) (oc : Outcome)

def gstep (alg : Alg V A) (record : A → V → V → A) (o : Oracle V A) : GOp V → Oracle V A × Out V
  | .base op => step alg o op
  | .endWith id v oc => endT alg (syncVals record o id v) id oc

def grun (alg : Alg V A) (record : A → V → V → A) : Oracle V A → List (GOp V) → Oracle V A
  | o, [] => o
  | o, op :: ops =>
    let r := gstep alg record o op
    match r.2 with
    | .abort => r.1
    | _ => grun alg record r.1 ops

theorem inv_gstep (alg : Alg V A) (record : A → V → V → A) (o : Oracle V A) (op : GOp V) (h : Inv o)
    (hna : (gstep alg record o op).2 ≠ .abort) : Inv (gstep alg record o op).1 := by
  cases op with
  | base op => exact inv_step alg o op h hna
  | endWith id v oc => exact inv_end alg _ id oc (inv_syncVals record o id v h) hna

/-- C01 for growing spaces: the lifecycle invariant holds in every state reachable by any request list in which
    tuners may report arbitrary new values when they end a trial — or the search was aborted -/
theorem inv_greachable (alg : Alg V A) (record : A → V → V → A) (o : Oracle V A) (ops : List (GOp V)) (h : Inv o) :
    Inv (grun alg record o ops) ∨ (grun alg record o ops).aborted = true := by
  induction ops generalizing o with
  | nil => exact Or.inl h
  | cons op ops ih =>
    simp only [grun]
    cases hout : (gstep alg record o op).2 with
    | abort =>
      right
      cases op with
      | base op =>
        cases op with
        | create t c => exact absurd hout (create_not_abort alg o t c)
        | update id r => exact absurd hout (update_not_abort o id r)
        | endT id oc => exact endT_abort_aborted alg o id oc hout
      | endWith id v oc => exact endT_abort_aborted alg _ id oc hout
    | trial id v => exact ih _ (inv_gstep alg record o op h (by rw [hout]; intro hc; cases hc))
    | idle => exact ih _ (inv_gstep alg record o op h (by rw [hout]; intro hc; cases hc))
    | stopped => exact ih _ (inv_gstep alg record o op h (by rw [hout]; intro hc; cases hc))
    | ok => exact ih _ (inv_gstep alg record o op h (by rw [hout]; intro hc; cases hc))
    | bad => exact ih _ (inv_gstep alg record o op h (by rw [hout]; intro hc; cases hc))

/-! ### sampling oracles: the tried set follows the current values -/

section sampling
set_option linter.unusedSectionVars false
variable {W : Type} [DecidableEq W]

/-- tried set of a sampling oracle; `stale` is a ghost field (the hashes `_record_values` removed so far) -/
structure SSt (W : Type) where
  tried : List W
  maxCollisions : Nat
  stale : List W

def populateS (cands : Nat → List W) (o : Oracle W (SSt W)) (choice : Nat) : SSt W × Pop W :=
  match RandomAlg.pick o.alg.tried ((cands choice).take (o.alg.maxCollisions + 1)) with
  | some v => ({ o.alg with tried := o.alg.tried ++ [v] }, .run v)
  | none => (o.alg, .stop)

def algS (cands : Nat → List W) : Alg W (SSt W) :=
  { populate := populateS cands, onEnd := fun s _ => s, scoreOf := fun l => l.getLast?.join }

/-- `_record_values` at `end_trial`. `old` = what was recorded for this trial before (`_id_to_hash`), `new` = the
    reported values. `removeOld` is the condition under which the old hash is dropped when it differs:
    the repaired code drops it only when new entries are tuned. -/
def recordS (removeOld : Bool) (s : SSt W) (old new : W) : SSt W :=
  if removeOld && decide (old ≠ new) then
    { s with tried := s.tried.filter (fun w => decide (w ≠ old)) ++ [new], stale := s.stale ++ [old] }
  else { s with tried := s.tried ++ [new] }

/-- every stored trial's *current* values are in the tried set or among the removed ones -/
def Recorded (o : Oracle W (SSt W)) : Prop :=
  ∀ (i : Nat) (t : Trial W), o.trials[i]? = some t → t.vals ∈ o.alg.tried ∨ t.vals ∈ o.alg.stale

/-- a step that keeps every trial's values and only extends the tried / stale lists keeps `Recorded` -/
theorem recorded_of_same (o o' : Oracle W (SSt W)) (r : Recorded o)
    (hv : ∀ (i : Nat) (t' : Trial W), o'.trials[i]? = some t' → ∃ t, o.trials[i]? = some t ∧ t.vals = t'.vals)
    (ht : ∀ v, v ∈ o.alg.tried → v ∈ o'.alg.tried) (hs : ∀ v, v ∈ o.alg.stale → v ∈ o'.alg.stale) : Recorded o' := by
  intro i t' h'
  obtain ⟨t, h1, h2⟩ := hv i t' h'
  rw [← h2]
  rcases r i t h1 with h | h
  · exact Or.inl (ht _ h)
  · exact Or.inr (hs _ h)

theorem setTrial_vals_same (ts : List (Trial W)) (id : Nat) (f : Trial W → Trial W)
    (i : Nat) (t' : Trial W) (h : (setTrial ts id f)[i]? = some t') (hf : ∀ t, (f t).vals = t.vals) :
    ∃ t, ts[i]? = some t ∧ t.vals = t'.vals := by
  rw [getElem?_setTrial] at h
  split at h
  · cases hti : ts[i]? with
    | none => simp [hti] at h
    | some t => simp [hti] at h; subst h; exact ⟨t, rfl, (hf t).symm⟩
  · exact ⟨t', h, rfl⟩

theorem recorded_create (cands : Nat → List W) (o : Oracle W (SSt W)) (r : Recorded o) (tuner c : Nat) :
    Recorded (create (algS cands) o tuner c).1 := by
  unfold create
  split
  · split <;> exact r
  · simp only
    split
    · split
      · exact recorded_of_same o _ r (fun i t' h => setTrial_vals_same _ _ _ i t' h (fun _ => rfl)) (fun _ h => h) (fun _ h => h)
      · exact recorded_of_same o _ r (fun i t' h => ⟨t', h, rfl⟩) (fun _ h => h) (fun _ h => h)
    · split
      · exact recorded_of_same o _ r (fun i t' h => ⟨t', h, rfl⟩) (fun _ h => h) (fun _ h => h)
      · have hpop : (algS cands).populate { o with tunerIds := addTuner o.tunerIds tuner } c
            = populateS cands { o with tunerIds := addTuner o.tunerIds tuner } c := rfl
        rw [hpop]
        unfold populateS
        simp only
        cases hp : RandomAlg.pick o.alg.tried ((cands c).take (o.alg.maxCollisions + 1)) with
        | none => simp only; exact recorded_of_same o _ r (fun i t' h => ⟨t', h, rfl⟩) (fun _ h => h) (fun _ h => h)
        | some v =>
          simp only
          intro i t ht
          simp only [List.mem_append, List.mem_singleton]
          by_cases hi : i < o.trials.length
          · rw [List.getElem?_append_left hi] at ht
            rcases r i t ht with h | h
            · exact Or.inl (Or.inl h)
            · exact Or.inr h
          · rw [List.getElem?_append_right (by omega)] at ht
            by_cases h0 : i - o.trials.length = 0
            · simp [h0] at ht; subst ht; exact Or.inl (Or.inr rfl)
            · simp [h0] at ht

theorem recorded_update (o : Oracle W (SSt W)) (r : Recorded o) (id : Nat) (x : Option Int) :
    Recorded (update o id x).1 := by
  unfold update
  split
  · exact recorded_of_same o _ r (fun i t' h => setTrial_vals_same _ _ _ i t' h (fun _ => rfl)) (fun _ h => h) (fun _ h => h)
  · exact r

theorem recorded_endT (cands : Nat → List W) (o : Oracle W (SSt W)) (r : Recorded o) (id : Nat) (oc : Outcome) :
    Recorded (endT (algS cands) o id oc).1 := by
  unfold endT
  split
  · exact r
  · split
    · exact r
    · simp only
      split
      · exact recorded_of_same o _ r (fun i t' h => setTrial_vals_same _ _ _ i t' h (fun _ => rfl)) (fun _ h => h) (fun _ h => h)
      · split
        · exact recorded_of_same o _ r (fun i t' h => setTrial_vals_same _ _ _ i t' h (fun _ => rfl)) (fun _ h => h) (fun _ h => h)
        · exact recorded_of_same o _ r (fun i t' h => setTrial_vals_same _ _ _ i t' h (fun _ => rfl)) (fun _ h => h) (fun _ h => h)

/-- the reported values replace the stored ones and join the tried set; whatever is removed becomes stale -/
theorem recorded_syncVals (removeOld : Bool) (o : Oracle W (SSt W)) (r : Recorded o) (id : Nat) (v : W) :
    Recorded (syncVals (recordS removeOld) o id v) := by
  unfold syncVals
  split
  · exact r
  · rename_i t0 _
    intro i t' ht'
    simp only [getElem?_setTrial] at ht'
    have hnew : v ∈ (recordS removeOld o.alg t0.vals v).tried := by
      unfold recordS; split <;> simp
    split at ht'
    · cases hti : o.trials[i]? with
      | none => simp [hti] at ht'
      | some t => simp [hti] at ht'; subst ht'; exact Or.inl hnew
    · rcases r i t' ht' with h | h
      · unfold recordS
        split
        · by_cases hw : t'.vals = t0.vals
          · right; simp [hw]
          · left; simp [List.mem_filter, h, hw]
        · left; simp [h]
      · right
        unfold recordS
        split <;> simp [h]

theorem recorded_gstep (removeOld : Bool) (cands : Nat → List W) (o : Oracle W (SSt W)) (r : Recorded o) (op : GOp W) :
    Recorded (gstep (algS cands) (recordS removeOld) o op).1 := by
  cases op with
  | base op =>
    cases op with
    | create t c => exact recorded_create cands o r t c
    | update id x => exact recorded_update o r id x
    | endT id oc => exact recorded_endT cands o r id oc
  | endWith id v oc => exact recorded_endT cands _ (recorded_syncVals removeOld o r id v) id oc

theorem recorded_greachable (removeOld : Bool) (cands : Nat → List W) (o : Oracle W (SSt W)) (r : Recorded o) (ops : List (GOp W)) :
    Recorded (grun (algS cands) (recordS removeOld) o ops) := by
  induction ops generalizing o with
  | nil => exact r
  | cons op ops ih =>
    simp only [grun]
    split
    · exact recorded_gstep removeOld cands o r op
    · exact ih _ (recorded_gstep removeOld cands o r op)

/-- a fresh trial's values are outside the tried set -/
theorem fresh_not_tried (cands : Nat → List W) (o : Oracle W (SSt W)) (tuner c : Nat) (v : W)
    (hnew : (create (algS cands) o tuner c).2 = .trial o.trials.length v) : v ∉ o.alg.tried := by
  unfold create at hnew
  split at hnew
  · rename_i id hh
    split at hnew
    · rename_i t' ht'
      simp only [Out.trial.injEq] at hnew
      have : id < o.trials.length := (List.getElem?_eq_some_iff.mp ht').1
      omega
    · cases hnew
  · simp only at hnew
    split at hnew
    · rename_i id hl
      split at hnew
      · rename_i t' ht'
        simp only [Out.trial.injEq] at hnew
        have : id < o.trials.length := (List.getElem?_eq_some_iff.mp ht').1
        omega
      · cases hnew
    · split at hnew
      · cases hnew
      · have hpop : (algS cands).populate { o with tunerIds := addTuner o.tunerIds tuner } c
            = populateS cands { o with tunerIds := addTuner o.tunerIds tuner } c := rfl
        rw [hpop] at hnew
        unfold populateS at hnew
        simp only at hnew
        cases hp : RandomAlg.pick o.alg.tried ((cands c).take (o.alg.maxCollisions + 1)) with
        | none => simp [hp] at hnew
        | some w =>
          simp only [hp, Out.trial.injEq, true_and] at hnew
          subst hnew
          exact (RandomAlg.pick_spec _ _ _ hp).2

/-- **C06 incl. growth**: in every state reachable by any request list — tuners reporting arbitrary new values when
    ending trials, old hashes removed or not — a freshly started trial differs from the current values of every
    stored trial, unless it is one of the removed (stale) configurations -/
theorem fresh_differs_unless_stale (removeOld : Bool) (cands : Nat → List W) (o0 : Oracle W (SSt W)) (r0 : Recorded o0)
    (ops : List (GOp W)) (tuner c : Nat) (v : W)
    (hnew : (create (algS cands) (grun (algS cands) (recordS removeOld) o0 ops) tuner c).2
              = .trial (grun (algS cands) (recordS removeOld) o0 ops).trials.length v)
    (hstale : v ∉ (grun (algS cands) (recordS removeOld) o0 ops).alg.stale) :
    ∀ (i : Nat) (t : Trial W), (grun (algS cands) (recordS removeOld) o0 ops).trials[i]? = some t → t.vals ≠ v := by
  generalize hgo : grun (algS cands) (recordS removeOld) o0 ops = o at hnew hstale ⊢
  have r : Recorded o := hgo ▸ recorded_greachable removeOld cands o0 r0 ops
  intro i t ht hEq
  rcases r i t ht with h | h
  · exact fresh_not_tried cands o tuner c v hnew (hEq ▸ h)
  · exact hstale (hEq ▸ h)

/-- nothing becomes stale when old hashes are kept (`tune_new_entries = False` on the repaired code) -/
theorem stale_unchanged_not_tuned (cands : Nat → List W) (o : Oracle W (SSt W)) (ops : List (GOp W)) :
    (grun (algS cands) (recordS false) o ops).alg.stale = o.alg.stale := by
  have hstep : ∀ (o : Oracle W (SSt W)) (op : GOp W), (gstep (algS cands) (recordS false) o op).1.alg.stale = o.alg.stale := by
    intro o op
    have hend : ∀ (o : Oracle W (SSt W)) (id : Nat) (oc : Outcome), (endT (algS cands) o id oc).1.alg.stale = o.alg.stale := by
      intro o id oc
      unfold endT
      split
      · rfl
      · split
        · rfl
        · simp only
          split
          · rfl
          · split <;> rfl
    cases op with
    | base op =>
      cases op with
      | create t c =>
        simp only [gstep, step]
        unfold create
        split
        · split <;> rfl
        · simp only
          split
          · split <;> rfl
          · split
            · rfl
            · have hpop : (algS cands).populate { o with tunerIds := addTuner o.tunerIds t } c
                  = populateS cands { o with tunerIds := addTuner o.tunerIds t } c := rfl
              rw [hpop]
              unfold populateS
              simp only
              cases RandomAlg.pick o.alg.tried ((cands c).take (o.alg.maxCollisions + 1)) <;> rfl
      | update id x => simp only [gstep, step]; unfold update; split <;> rfl
      | endT id oc => exact hend o id oc
    | endWith id v oc =>
      simp only [gstep]
      rw [hend]
      unfold syncVals
      split
      · rfl
      · simp [recordS]
  induction ops generalizing o with
  | nil => rfl
  | cons op ops ih =>
    simp only [grun]
    split
    · exact hstep o op
    · rw [ih, hstep]

/-- **the not-tuned case (F21 repaired)**: the tried set only grows, so a fresh trial differs from the current
    values of every stored trial, without any side condition -/
theorem fresh_differs_not_tuned (cands : Nat → List W) (o0 : Oracle W (SSt W)) (r0 : Recorded o0) (h0 : o0.alg.stale = [])
    (ops : List (GOp W)) (tuner c : Nat) (v : W)
    (hnew : (create (algS cands) (grun (algS cands) (recordS false) o0 ops) tuner c).2
              = .trial (grun (algS cands) (recordS false) o0 ops).trials.length v) :
    ∀ (i : Nat) (t : Trial W), (grun (algS cands) (recordS false) o0 ops).trials[i]? = some t → t.vals ≠ v :=
  fresh_differs_unless_stale false cands o0 r0 ops tuner c v hnew
    (by rw [stale_unchanged_not_tuned, h0]; simp)

end sampling

/-- **tuned growth**: a stale configuration — one that leaves unbound an entry of the (grown) space that is active
    under it — is not among the assignments enumerated, hence sampled, from that space -/
theorem stale_not_enumerated (hs : List GridSucc.GHP) (old : GridSucc.Env) (hnd : (GridSucc.names hs).Nodup)
    (hpf : GridSucc.ParentsFirst [] hs) (g : GridSucc.GHP) (hg : g ∈ hs) (hact : GridSucc.active old g = true)
    (hunbound : old.lookup g.name = none) : old ∉ GridSucc.enum hs [] := by
  intro hmem
  obtain ⟨v, _, hv⟩ := (GridSucc.enum_exact hs [] old [] (by simp [GridSucc.keys]) (by simpa using hnd) hpf hmem g hg).1 hact
  rw [hunbound] at hv; cases hv

/-- non-vacuity (tuned): trial 0 is started as `1`, ended reporting `10`: `1` becomes stale, `10` is tried -/
example :
    let alg := algS (fun _ => [10, 1, 7])
    let o0 : Oracle Nat (SSt Nat) := init ⟨[], 5, []⟩ none 0 3
    let o1 := (create (algS (fun _ => [1])) o0 0 0).1
    let o2 := grun alg (recordS true) o1 [.base (.update 0 (some 3)), .endWith 0 10 .completed]
    o2.alg.tried = [10] ∧ o2.alg.stale = [1] ∧ (o2.trials.map (·.vals)) = [10] := by
  refine ⟨?_, ?_, ?_⟩ <;> decide

/-- the unrepaired rule (old hash removed although new entries are not tuned): the stale configuration `1` is what
    the unchanged space yields again — trial 1 starts the configuration trial 0 was started with (defect F21) -/
theorem stale_sampled_again :
    let alg := algS (fun _ => [1, 7])
    let o0 : Oracle Nat (SSt Nat) := init ⟨[], 5, []⟩ none 0 3
    let o1 := (create alg o0 0 0).1
    let o2 := grun alg (recordS true) o1 [.base (.update 0 (some 3)), .endWith 0 10 .completed]
    (match (create alg o1 1 0).2 with | .trial _ v => v | _ => 0) = 7 ∧      -- while trial 0 holds `1`, a fresh trial gets `7`
    (match (create alg o2 0 0).2 with | .trial _ v => v | _ => 0) = 1 := by   -- after the removal `1` is started again
  refine ⟨?_, ?_⟩ <;> decide

/-- the repaired rule on the same history: `1` stays tried, the fresh trial gets `7` -/
example :
    let alg := algS (fun _ => [1, 7])
    let o0 : Oracle Nat (SSt Nat) := init ⟨[], 5, []⟩ none 0 3
    let o1 := (create alg o0 0 0).1
    let o2 := grun alg (recordS false) o1 [.base (.update 0 (some 3)), .endWith 0 10 .completed]
    (match (create alg o2 0 0).2 with | .trial _ v => v | _ => 0) = 7 ∧ o2.alg.tried = [1, 10] := by
  refine ⟨?_, ?_⟩ <;> decide

end Growth
#print axioms Growth.fresh_differs_unless_stale
#print axioms Growth.fresh_differs_not_tuned
#print axioms Growth.stale_not_enumerated
#print axioms Growth.inv_greachable
