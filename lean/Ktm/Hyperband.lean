import Ktm.CoreProps
/-! C10 prototype: Hyperband as an `Alg` over the core oracle. `size`/`epochs` are parameters here
    (the real model defines them with exact integer arithmetic). -/
namespace HB
open Core

structure HV where
  base : Nat                 -- the (abstract) sampled hyperparameter values
  epochs : Nat
  initialEpoch : Nat
  bracket : Nat
  round : Nat
  parent : Option Nat        -- tuner/trial_id
  deriving Repr, DecidableEq

structure Entry where
  id : Nat
  past : Option Nat
  deriving Repr, DecidableEq

structure Bracket where
  num : Nat
  rounds : List (List Entry)
  deriving Repr

structure Cfg where
  size : Nat → Nat → Nat
  epochs : Nat → Nat → Nat
  numBrackets : Nat
  iterations : Nat
  minimize : Bool

structure St where
  cfg : Cfg
  currentBracket : Nat
  currentIteration : Nat
  brackets : List Bracket

abbrev O := Oracle HV St

def completeBracket (cfg : Cfg) (b : Bracket) : Bool :=
  match b.rounds.getLast? with
  | some r => r.length == cfg.size b.num (b.rounds.length - 1)
  | none => true

def better (minimize : Bool) (a b : Int) : Bool := if minimize then a < b else b < a

/-- candidates for promotion into round `r` (r ≥ 1) of bracket `b`: COMPLETED trials of round r-1
    that are not already selected -/
def candOf (o : O) (cur : List Entry) (e : Entry) : Option (Nat × Int) :=
  if cur.any (fun c => c.past == some e.id) then none else
  match o.trials[e.id]? with
  | some t => if t.status = .completed then t.score.map (fun s => (e.id, s)) else none
  | none => none

def candidates (o : O) (prev cur : List Entry) : List (Nat × Int) := prev.filterMap (candOf o cur)

/-- first element of the stable sort by score in the objective's direction = first optimum -/
def bestOf (minimize : Bool) : List (Nat × Int) → Option (Nat × Int)
  | [] => none
  | x :: xs => match bestOf minimize xs with
    | none => some x
    | some y => if better minimize y.2 x.2 then some y else some x

/-- try rounds 1.. of one bracket; returns the round index and the chosen parent -/
def tryPromote (o : O) (cfg : Cfg) (b : Bracket) : Nat → List (List Entry) → Option (Nat × Nat)
  | _, [] => none
  | _, [_] => none
  | r, prev :: cur :: rest =>
    let cands := candidates o prev cur
    if cfg.size b.num r - cfg.size b.num (r + 1) < cands.length then
      match bestOf cfg.minimize cands with
      | some (pid, _) => some (r + 1, pid)
      | none => tryPromote o cfg b (r + 1) (cur :: rest)
    else tryPromote o cfg b (r + 1) (cur :: rest)

def addEntry (b : Bracket) (r : Nat) (e : Entry) : Bracket :=
  { b with rounds := b.rounds.modify r (fun l => l ++ [e]) }

inductive Act
  | random (bi : Nat)                     -- fill round 0 of bracket index bi
  | promote (bi r pid : Nat)
  | none

/-- scan the brackets in order (the `for bracket in self._brackets` loop) -/
def scan (o : O) (cfg : Cfg) : Nat → List Bracket → Act
  | _, [] => .none
  | i, b :: bs =>
    match b.rounds with
    | [] => scan o cfg (i + 1) bs
    | r0 :: _ =>
      if r0.length < cfg.size b.num 0 then .random i
      else match tryPromote o cfg b 0 b.rounds with
        | some (r, pid) => .promote i r pid
        | none => scan o cfg (i + 1) bs

def newBracket (num : Nat) : Bracket := { num := num, rounds := List.replicate (num + 1) [] }

/-- `_random_trial`: `choice = 0` means the sampler gave up, `k+1` a fresh configuration `k` -/
def randomIn (o : O) (choice : Nat) (s' : St) (bi num : Nat) : St × Pop HV :=
  match choice with
  | 0 => (s', if o.ongoing.isEmpty then .stop else .idle)
  | k + 1 =>
    ({ s' with brackets := s'.brackets.modify bi (fun b => addEntry b 0 ⟨o.trials.length, none⟩) },
     .run ⟨k, s'.cfg.epochs num 0, 0, num, 0, none⟩)

def nextBracket (s : St) : Nat × Nat :=
  if s.currentBracket = 0 then (s.cfg.numBrackets - 1, s.currentIteration + 1)
  else (s.currentBracket - 1, s.currentIteration)

def populate (o : O) (choice : Nat) : St × Pop HV :=
  let s := o.alg
  let brs := s.brackets.filter (fun b => !completeBracket s.cfg b)
  match scan o s.cfg 0 brs with
  | .random bi =>
    match brs[bi]? with
    | some b => randomIn o choice { s with brackets := brs } bi b.num
    | none => ({ s with brackets := brs }, .stop)
  | .promote bi r pid =>
    match brs[bi]?, o.trials[pid]? with
    | some b, some pt =>
      ({ s with brackets := brs.modify bi (fun b => addEntry b r ⟨o.trials.length, some pid⟩) },
       .run ⟨pt.vals.base, s.cfg.epochs b.num r, s.cfg.epochs b.num (r - 1), b.num, r, some pid⟩)
    | _, _ => ({ s with brackets := brs }, .stop)
  | .none =>
    if s.currentBracket = 0 ∧ s.currentIteration + 1 = s.cfg.iterations then
      ({ s with brackets := brs }, if o.ongoing.isEmpty then .stop else .idle)
    else
      let nb := nextBracket s
      randomIn o choice { s with brackets := brs ++ [newBracket nb.1], currentBracket := nb.1, currentIteration := nb.2 }
        brs.length nb.1

def alg : Alg HV St :=
  { populate := populate, onEnd := fun s _ => s, scoreOf := fun l => l.getLast?.join }

def init (cfg : Cfg) : O :=
  Core.init (V := HV) { cfg := cfg, currentBracket := cfg.numBrackets - 1, currentIteration := 0,
                        brackets := [newBracket (cfg.numBrackets - 1)] } none 0 3

-- smoke test: max_epochs 4, factor 2  (sizes [[3],[3,2],[4,2,1]], epochs ceil(4/2^(b-r)))
def cfg42 : Cfg :=
  { size := fun b r => match b, r with
      | 0, _ => 3 | 1, 0 => 3 | 1, _ => 2 | 2, 0 => 4 | 2, 1 => 2 | _, _ => 1
    epochs := fun b r => (4 + 2 ^ (b - r) - 1) / 2 ^ (b - r)
    numBrackets := 3, iterations := 1, minimize := true }

def demo : List (Option HV) :=
  let ops : List Op := [.create 0 1, .create 1 2, .create 2 3, .create 3 4,
    .update 0 (some 5), .endT 0 .completed, .update 1 (some 3), .endT 1 .completed,
    .update 2 (some 4), .endT 2 .completed, .create 0 9, .create 1 10, .create 2 11]
  let rec go (o : O) (ops : List Op) (acc : List (Option HV)) : List (Option HV) :=
    match ops with
    | [] => acc.reverse
    | op :: rest =>
      let r := Core.step alg o op
      let acc := match r.2 with | .trial _ v => some v :: acc | _ => none :: acc
      go r.1 rest acc
  go (init cfg42) ops []
#eval demo

end HB
