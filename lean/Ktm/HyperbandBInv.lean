import Ktm.HyperbandSpec
namespace HB
open Core

structure BInv (cfg : Cfg) (n : Nat) (b : Bracket) : Prop where
  len : b.rounds.length = b.num + 1
  size_ok : ∀ (r : Nat) (l : List Entry), b.rounds[r]? = some l → l.length ≤ cfg.size b.num r
  ids_lt : ∀ (r : Nat) (l : List Entry), b.rounds[r]? = some l → ∀ e ∈ l, e.id < n
  ids_nodup : ∀ (r : Nat) (l : List Entry), b.rounds[r]? = some l → (l.map (·.id)).Nodup
  past_nodup : ∀ (r : Nat) (l : List Entry), b.rounds[r]? = some l → (pasts l).Nodup
  past_sub : ∀ (r : Nat) (prev cur : List Entry), b.rounds[r]? = some prev → b.rounds[r + 1]? = some cur →
      ∀ i ∈ pasts cur, i ∈ prev.map (·.id)
  past_len : ∀ (r : Nat) (cur : List Entry), b.rounds[r + 1]? = some cur → (pasts cur).length = cur.length

theorem BInv.mono {cfg : Cfg} {n : Nat} {b : Bracket} (h : BInv cfg n b) : BInv cfg (n + 1) b :=
  { h with ids_lt := fun r l hl e he => Nat.lt_succ_of_lt (h.ids_lt r l hl e he) }

theorem binv_new (cfg : Cfg) (n num : Nat) : BInv cfg n (newBracket num) := by
  have key : ∀ (r : Nat) (l : List Entry), (newBracket num).rounds[r]? = some l → l = [] := by
    intro r l hl
    simp only [newBracket, List.getElem?_replicate] at hl
    split at hl
    · exact (Option.some.inj hl).symm
    · cases hl
  constructor
  · simp [newBracket]
  · intro r l hl; rw [key r l hl]; simp
  · intro r l hl; rw [key r l hl]; simp
  · intro r l hl; rw [key r l hl]; simp
  · intro r l hl; rw [key r l hl]; simp [pasts]
  · intro r prev cur _ hc; rw [key _ cur hc]; simp [pasts]
  · intro r cur hc; rw [key _ cur hc]; simp [pasts]

theorem getElem?_addEntry (b : Bracket) (r j : Nat) (e : Entry) :
    (addEntry b r e).rounds[j]? = if r = j then (b.rounds[j]?).map (fun l => l ++ [e]) else b.rounds[j]? := by
  simp only [addEntry, List.getElem?_modify]
  split <;> simp_all

@[simp] theorem addEntry_num (b : Bracket) (r : Nat) (e : Entry) : (addEntry b r e).num = b.num := rfl

theorem pasts_append (l : List Entry) (e : Entry) :
    pasts (l ++ [e]) = pasts l ++ (match e.past with | some p => [p] | none => []) := by
  simp only [pasts, List.filterMap_append, List.filterMap_cons, List.filterMap_nil]
  cases e.past <;> simp

/-- adding a fresh random trial to round 0 -/
theorem binv_add_random (cfg : Cfg) (n : Nat) (b : Bracket) (h : BInv cfg n b) (r0 : List Entry) (rest : List (List Entry))
    (hr : b.rounds = r0 :: rest) (hlt : r0.length < cfg.size b.num 0) :
    BInv cfg (n + 1) (addEntry b 0 ⟨n, none⟩) := by
  have h0 : b.rounds[0]? = some r0 := by simp [hr]
  have get : ∀ (j : Nat) (l : List Entry), (addEntry b 0 ⟨n, none⟩).rounds[j]? = some l →
      (j = 0 ∧ l = r0 ++ [⟨n, none⟩]) ∨ (j ≠ 0 ∧ b.rounds[j]? = some l) := by
    intro j l hl
    rw [getElem?_addEntry] at hl
    by_cases hj : 0 = j
    · subst hj; simp [h0] at hl; exact Or.inl ⟨rfl, hl.symm⟩
    · simp only [hj, if_false] at hl; exact Or.inr ⟨fun e => hj e.symm, hl⟩
  constructor
  · simp [addEntry]; exact h.len
  · intro r l hl
    rcases get r l hl with ⟨hj, hl'⟩ | ⟨_, hl'⟩
    · subst hj; subst hl'; simp; exact hlt
    · exact h.size_ok r l hl'
  · intro r l hl e he
    rcases get r l hl with ⟨hj, hl'⟩ | ⟨_, hl'⟩
    · subst hl'
      simp only [List.mem_append, List.mem_singleton] at he
      rcases he with he | he
      · exact Nat.lt_succ_of_lt (h.ids_lt 0 r0 h0 e he)
      · subst he; exact Nat.lt_succ_self n
    · exact Nat.lt_succ_of_lt (h.ids_lt r l hl' e he)
  · intro r l hl
    rcases get r l hl with ⟨hj, hl'⟩ | ⟨_, hl'⟩
    · subst hl'
      simp only [List.map_append, List.map_cons, List.map_nil]
      refine (nodup_append_singleton _ _).mpr ⟨h.ids_nodup 0 r0 h0, ?_⟩
      intro hm
      obtain ⟨e, he, hid⟩ := List.mem_map.mp hm
      have := h.ids_lt 0 r0 h0 e he
      omega
    · exact h.ids_nodup r l hl'
  · intro r l hl
    rcases get r l hl with ⟨hj, hl'⟩ | ⟨_, hl'⟩
    · subst hl'; rw [pasts_append]; simpa using h.past_nodup 0 r0 h0
    · exact h.past_nodup r l hl'
  · intro r prev cur hp hc i hi
    rcases get (r + 1) cur hc with ⟨hj, _⟩ | ⟨_, hc'⟩
    · omega
    · rcases get r prev hp with ⟨hj, hp'⟩ | ⟨_, hp'⟩
      · subst hj; subst hp'
        have := h.past_sub 0 r0 cur h0 hc' i hi
        simp only [List.map_append, List.mem_append]; exact Or.inl this
      · exact h.past_sub r prev cur hp' hc' i hi
  · intro r cur hc
    rcases get (r + 1) cur hc with ⟨hj, _⟩ | ⟨_, hc'⟩
    · omega
    · exact h.past_len r cur hc'

end HB
#print axioms HB.binv_add_random

namespace HB
open Core

/-- promoting `pid` from round `j` into round `j+1` -/
theorem binv_add_promote (o : O) (cfg : Cfg) (n : Nat) (b : Bracket) (h : BInv cfg n b)
    (j pid : Nat) (prev cur : List Entry)
    (hp : b.rounds[j]? = some prev) (hc : b.rounds[j + 1]? = some cur)
    (hsz : cfg.size b.num j - cfg.size b.num (j + 1) < (candidates o prev cur).length)
    (sc : Int) (hb : bestOf cfg.minimize (candidates o prev cur) = some (pid, sc)) :
    BInv cfg (n + 1) (addEntry b (j + 1) ⟨n, some pid⟩) := by
  have hmem := bestOf_mem _ _ _ hb
  obtain ⟨⟨e0, he0, hid0⟩, hnsel, _⟩ := mem_candidates o prev cur _ hmem
  simp only at hid0 hnsel
  have hcnt := candidates_count o prev cur (h.ids_nodup j prev hp) (h.past_nodup (j + 1) cur hc)
    (h.past_sub j prev cur hp hc)
  have hplen := h.past_len j cur hc
  have hprevsz := h.size_ok j prev hp
  have hcur_lt : cur.length < cfg.size b.num (j + 1) := by omega
  have hpid_not : pid ∉ pasts cur := by
    intro hm
    simp only [pasts, List.mem_filterMap] at hm
    obtain ⟨c, hcm, hcp⟩ := hm
    exact hnsel c hcm hcp
  have get : ∀ (i : Nat) (l : List Entry), (addEntry b (j + 1) ⟨n, some pid⟩).rounds[i]? = some l →
      (i = j + 1 ∧ l = cur ++ [⟨n, some pid⟩]) ∨ (i ≠ j + 1 ∧ b.rounds[i]? = some l) := by
    intro i l hl
    rw [getElem?_addEntry] at hl
    by_cases hj : j + 1 = i
    · subst hj; simp [hc] at hl; exact Or.inl ⟨rfl, hl.symm⟩
    · simp only [hj, if_false] at hl; exact Or.inr ⟨fun e => hj e.symm, hl⟩
  constructor
  · simp [addEntry]; exact h.len
  · intro r l hl
    rcases get r l hl with ⟨hj, hl'⟩ | ⟨_, hl'⟩
    · subst hj; subst hl'; simp only [addEntry_num, List.length_append, List.length_cons, List.length_nil]; omega
    · exact h.size_ok r l hl'
  · intro r l hl e he
    rcases get r l hl with ⟨hj, hl'⟩ | ⟨_, hl'⟩
    · subst hl'
      simp only [List.mem_append, List.mem_singleton] at he
      rcases he with he | he
      · exact Nat.lt_succ_of_lt (h.ids_lt (j + 1) cur hc e he)
      · subst he; exact Nat.lt_succ_self n
    · exact Nat.lt_succ_of_lt (h.ids_lt r l hl' e he)
  · intro r l hl
    rcases get r l hl with ⟨hj, hl'⟩ | ⟨_, hl'⟩
    · subst hl'
      simp only [List.map_append, List.map_cons, List.map_nil]
      refine (nodup_append_singleton _ _).mpr ⟨h.ids_nodup (j + 1) cur hc, ?_⟩
      intro hm
      obtain ⟨e, he, hid⟩ := List.mem_map.mp hm
      have := h.ids_lt (j + 1) cur hc e he
      omega
    · exact h.ids_nodup r l hl'
  · intro r l hl
    rcases get r l hl with ⟨hj, hl'⟩ | ⟨_, hl'⟩
    · subst hl'; rw [pasts_append]
      exact (nodup_append_singleton _ _).mpr ⟨h.past_nodup (j + 1) cur hc, hpid_not⟩
    · exact h.past_nodup r l hl'
  · intro r prev' cur' hp' hc' i hi
    rcases get (r + 1) cur' hc' with ⟨hj, hcl⟩ | ⟨hne, hc''⟩
    · have hrj : r = j := by omega
      subst hrj; subst hcl
      rcases get r prev' hp' with ⟨hj2, _⟩ | ⟨_, hp''⟩
      · omega
      · rw [hp] at hp''; cases hp''
        rw [pasts_append] at hi
        simp only [List.mem_append, List.mem_singleton] at hi
        rcases hi with hi | hi
        · exact h.past_sub r prev cur hp hc i hi
        · subst hi; exact List.mem_map.mpr ⟨e0, he0, hid0⟩
    · rcases get r prev' hp' with ⟨hj2, hpl⟩ | ⟨_, hp''⟩
      · -- prev' is the extended round j+1, cur' is round j+2 (unchanged)
        subst hj2; subst hpl
        have := h.past_sub (j + 1) cur cur' hc hc'' i hi
        simp only [List.map_append, List.mem_append]; exact Or.inl this
      · exact h.past_sub r prev' cur' hp'' hc'' i hi
  · intro r cur' hc'
    rcases get (r + 1) cur' hc' with ⟨hj, hcl⟩ | ⟨_, hc''⟩
    · subst hcl; rw [pasts_append]; simp; exact hplen
    · exact h.past_len r cur' hc''

theorem mem_modify {α} (l : List α) (i : Nat) (f : α → α) (x : α) (h : x ∈ l.modify i f) :
    x ∈ l ∨ ∃ y, l[i]? = some y ∧ x = f y := by
  obtain ⟨k, hk⟩ := List.getElem?_of_mem h
  rw [List.getElem?_modify] at hk
  split at hk
  · rename_i hik; subst hik
    cases hy : l[i]? with
    | none => simp [hy] at hk
    | some y => simp [hy] at hk; exact Or.inr ⟨y, rfl, hk.symm⟩
  · simp at hk; exact Or.inl (List.mem_of_getElem? hk)

end HB
#print axioms HB.binv_add_promote
