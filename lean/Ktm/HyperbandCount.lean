import Ktm.HyperbandInv
import Ktm.Rank
namespace HB
open Core

/-- ids of the previous round that are already selected by the current round -/
def pasts (cur : List Entry) : List Nat := cur.filterMap (·.past)

theorem candidates_ids_sublist (o : O) (prev cur : List Entry) :
    ((candidates o prev cur).map (·.1)).Sublist
      ((prev.map (·.id)).filter (fun i => !((pasts cur).contains i))) := by
  induction prev with
  | nil => simp [candidates]
  | cons e es ih =>
    simp only [candidates, List.filterMap_cons, List.map_cons, List.filter_cons] at ih ⊢
    cases hc : candOf o cur e with
    | none =>
      simp only []
      split
      · exact List.Sublist.cons _ ih
      · exact ih
    | some x =>
      obtain ⟨h1, h2, _⟩ := candOf_some o cur e x hc
      have hnin : (pasts cur).contains e.id = false := by
        cases hcc : (pasts cur).contains e.id with
        | false => rfl
        | true =>
          exfalso
          simp only [List.contains_eq_mem, pasts, List.mem_filterMap, decide_eq_true_eq] at hcc
          obtain ⟨c, hcm, hp⟩ := hcc
          exact h2 c hcm hp
      simp only [hnin, Bool.not_false, if_true, List.map_cons, h1]
      exact List.Sublist.cons_cons _ ih

/-- counting: candidates + already selected ≤ size of the previous round -/
theorem candidates_count (o : O) (prev cur : List Entry)
    (hprev : (prev.map (·.id)).Nodup) (hp : (pasts cur).Nodup) (hsub : ∀ i ∈ pasts cur, i ∈ prev.map (·.id)) :
    (candidates o prev cur).length + (pasts cur).length ≤ prev.length := by
  have h1 := (candidates_ids_sublist o prev cur).length_le
  have h2 := Rank.filter_outside_len (prev.map (·.id)) (pasts cur) hp hprev hsub
  simp only [List.length_map] at h1 h2
  omega

end HB
#print axioms HB.candidates_count
