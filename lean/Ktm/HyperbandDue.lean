import Ktm.HyperbandCount
/-! C11 ("a search never ends early while work it was asked to do remains"), Hyperband: a promotion that is due is found.
If round `r` of a bracket is full, every one of its trials is COMPLETED with a score, and round `r + 1` holds fewer parents than it
has places, then `tryPromote` returns a promotion into round `r + 1` — so `populate_space` neither opens a new bracket nor answers
IDLE / STOPPED on behalf of this bracket (the `liveness` suite evaluates the same statement on finished searches: `round0_account`). -/
namespace HB
open Core

/-- every trial of the round is COMPLETED with a score -/
def AllReady (o : O) (prev : List Entry) : Prop :=
  ∀ e ∈ prev, ∃ t s, o.trials[e.id]? = some t ∧ t.status = .completed ∧ t.score = some s

theorem any_past_iff (cur : List Entry) (i : Nat) :
    cur.any (fun c => c.past == some i) = (pasts cur).contains i := by
  induction cur with
  | nil => simp [pasts]
  | cons c cs ih =>
    simp only [List.any_cons, ih, pasts, List.filterMap_cons]
    cases hp : c.past with
    | none => simp [pasts]
    | some j =>
      simp only [List.contains_cons, pasts]
      by_cases hji : j = i
      · subst hji; simp
      · have : (i == j) = false := by simp; exact fun e => hji e.symm
        simp [hji, this]

/-- with every trial of the previous round ready, the candidates are exactly the not yet selected ones -/
theorem candidates_ids_ready (o : O) (prev cur : List Entry) (h : AllReady o prev) :
    (candidates o prev cur).map (·.1) = (prev.map (·.id)).filter (fun i => !((pasts cur).contains i)) := by
  induction prev with
  | nil => simp [candidates]
  | cons e es ih =>
    have hes : AllReady o es := fun x hx => h x (List.mem_cons_of_mem _ hx)
    obtain ⟨t, s, ht, hst, hsc⟩ := h e (List.mem_cons_self ..)
    have ih' := ih hes
    simp only [candidates, List.filterMap_cons, List.map_cons, List.filter_cons] at ih' ⊢
    cases hc : (pasts cur).contains e.id with
    | true =>
      have hce : candOf o cur e = none := by
        unfold candOf; rw [any_past_iff, hc]; simp
      simpa [hce] using ih'
    | false =>
      have hce : candOf o cur e = some (e.id, s) := by
        unfold candOf; rw [any_past_iff, hc]; simp [ht, hst, hsc]
      simp only [hce, List.map_cons, Bool.not_false, if_true]
      rw [ih']

theorem bestOf_isSome (m : Bool) (l : List (Nat × Int)) (h : l ≠ []) : ∃ x, bestOf m l = some x := by
  cases l with
  | nil => exact absurd rfl h
  | cons x xs =>
    unfold bestOf
    cases bestOf m xs with
    | none => exact ⟨x, rfl⟩
    | some y => by_cases hb : better m y.2 x.2 = true <;> simp [hb]

/-- **a due promotion is found** -/
theorem due_promotion_found (o : O) (cfg : Cfg) (b : Bracket) (r : Nat) (prev cur : List Entry) (rest : List (List Entry))
    (hready : AllReady o prev)
    (hfull : prev.length = cfg.size b.num r)
    (hroom : (pasts cur).length < cfg.size b.num (r + 1))
    (hmono : cfg.size b.num (r + 1) ≤ cfg.size b.num r)
    (hprev : (prev.map (·.id)).Nodup) (hp : (pasts cur).Nodup) (hsub : ∀ i ∈ pasts cur, i ∈ prev.map (·.id)) :
    ∃ pid, tryPromote o cfg b r (prev :: cur :: rest) = some (r + 1, pid) := by
  have hids := candidates_ids_ready o prev cur hready
  have hlen : (candidates o prev cur).length + (pasts cur).length = prev.length := by
    have h2 := Rank.filter_outside_len (prev.map (·.id)) (pasts cur) hp hprev hsub
    have h1 : (candidates o prev cur).length = ((prev.map (·.id)).filter (fun i => !((pasts cur).contains i))).length := by
      rw [← hids, List.length_map]
    simp only [List.length_map] at h2
    omega
  have hmany : cfg.size b.num r - cfg.size b.num (r + 1) < (candidates o prev cur).length := by omega
  have hne : candidates o prev cur ≠ [] := by
    intro e; rw [e] at hmany; simp at hmany
  obtain ⟨x, hx⟩ := bestOf_isSome cfg.minimize _ hne
  refine ⟨x.1, ?_⟩
  simp only [tryPromote, hmany, if_true, hx]

/-- a promotion found further down the rounds is found from the top as well (an earlier round may win) -/
theorem tryPromote_isSome_cons (o : O) (cfg : Cfg) (b : Bracket) (r : Nat) (prev cur : List Entry) (rest : List (List Entry))
    (h : (tryPromote o cfg b (r + 1) (cur :: rest)).isSome) : (tryPromote o cfg b r (prev :: cur :: rest)).isSome := by
  simp only [tryPromote]
  split
  · split
    · simp
    · exact h
  · exact h

theorem tryPromote_isSome_append (o : O) (cfg : Cfg) (b : Bracket) (pre : List (List Entry)) (r : Nat) (prev cur : List Entry)
    (rest : List (List Entry)) (h : (tryPromote o cfg b (r + pre.length) (prev :: cur :: rest)).isSome) :
    (tryPromote o cfg b r (pre ++ prev :: cur :: rest)).isSome := by
  induction pre generalizing r with
  | nil => simpa using h
  | cons p ps ih =>
    have h' : (tryPromote o cfg b (r + 1 + ps.length) (prev :: cur :: rest)).isSome := by
      have : r + 1 + ps.length = r + (p :: ps).length := by simp; omega
      rw [this]; exact h
    have := ih (r + 1) h'
    cases hps : ps ++ prev :: cur :: rest with
    | nil => cases ps <;> simp at hps
    | cons q qs =>
      rw [hps] at this
      simp only [List.cons_append, hps]
      exact tryPromote_isSome_cons o cfg b r p q qs this

/-- a bracket in which some promotion is due: round `j` full and ready, round `j + 1` with room -/
def Due (o : O) (cfg : Cfg) (b : Bracket) : Prop :=
  ∃ (pre : List (List Entry)) (prev cur : List Entry) (rest : List (List Entry)),
    b.rounds = pre ++ prev :: cur :: rest ∧ AllReady o prev ∧ prev.length = cfg.size b.num pre.length ∧
    (pasts cur).length < cfg.size b.num (pre.length + 1) ∧ cfg.size b.num (pre.length + 1) ≤ cfg.size b.num pre.length ∧
    (prev.map (·.id)).Nodup ∧ (pasts cur).Nodup ∧ (∀ i ∈ pasts cur, i ∈ prev.map (·.id))

theorem due_tryPromote (o : O) (cfg : Cfg) (b : Bracket) (h : Due o cfg b) : (tryPromote o cfg b 0 b.rounds).isSome := by
  obtain ⟨pre, prev, cur, rest, hr, hready, hfull, hroom, hmono, h1, h2, h3⟩ := h
  rw [hr]
  apply tryPromote_isSome_append
  obtain ⟨pid, hp⟩ := due_promotion_found o cfg b (0 + pre.length) prev cur rest hready (by simpa using hfull) (by simpa using hroom)
    (by simpa using hmono) h1 h2 h3
  rw [hp]; rfl

/-- **no early stop while a promotion is due**: the scan of the open brackets does not come back empty-handed when one of them
    has a due promotion — `populate_space` then fills a first round or promotes; it neither opens a new bracket nor answers
    IDLE / STOPPED for lack of work -/
theorem scan_finds_due (o : O) (cfg : Cfg) (bs : List Bracket) (i : Nat) (h : ∃ b ∈ bs, Due o cfg b) : scan o cfg i bs ≠ .none := by
  induction bs generalizing i with
  | nil => obtain ⟨b, hb, _⟩ := h; cases hb
  | cons b bs ih =>
    simp only [scan]
    cases hr : b.rounds with
    | nil =>
      simp only []
      obtain ⟨b', hb', hd⟩ := h
      rcases List.mem_cons.mp hb' with rfl | hin
      · obtain ⟨pre, prev, cur, rest, hrr, _⟩ := hd
        rw [hr] at hrr
        cases pre <;> simp at hrr
      · exact ih (i + 1) ⟨b', hin, hd⟩
    | cons r0 rs =>
      simp only []
      split
      · intro hc; cases hc
      · cases htp : tryPromote o cfg b 0 (r0 :: rs) with
        | some x => intro hc; cases hc
        | none =>
          simp only []
          obtain ⟨b', hb', hd⟩ := h
          rcases List.mem_cons.mp hb' with rfl | hin
          · have := due_tryPromote o cfg b' hd
            rw [hr, htp] at this
            cases this
          · exact ih (i + 1) ⟨b', hin, hd⟩

def dueOps : List Op := [.create 0 1, .create 1 2, .create 2 3, .create 3 4,
    .update 0 (some 5), .endT 0 .completed, .update 1 (some 3), .endT 1 .completed,
    .update 2 (some 4), .endT 2 .completed, .update 3 (some 6), .endT 3 .completed]

def dueState : O := run alg (init cfg42) dueOps

/-- non-vacuity of `scan_finds_due`: four workers fill round 0 of bracket 2 (max_epochs 4, factor 2) and all four trials complete:
    a promotion into round 1 is due -/
example : ∃ b ∈ dueState.alg.brackets, Due dueState cfg42 b := by
  refine ⟨⟨2, [[⟨0, none⟩, ⟨1, none⟩, ⟨2, none⟩, ⟨3, none⟩], [], []]⟩, (by
    have hb : dueState.alg.brackets = [⟨2, [[⟨0, none⟩, ⟨1, none⟩, ⟨2, none⟩, ⟨3, none⟩], [], []]⟩] := rfl
    rw [hb]; exact List.mem_singleton.mpr rfl), ?_⟩
  refine ⟨[], [⟨0, none⟩, ⟨1, none⟩, ⟨2, none⟩, ⟨3, none⟩], [], [[]], rfl, ?_, by decide, by decide, by decide, by decide, by decide, by decide⟩
  intro e he
  simp only [List.mem_cons, List.not_mem_nil, or_false] at he
  rcases he with rfl | rfl | rfl | rfl
  · exact ⟨_, 5, rfl, rfl, rfl⟩
  · exact ⟨_, 3, rfl, rfl, rfl⟩
  · exact ⟨_, 4, rfl, rfl, rfl⟩
  · exact ⟨_, 6, rfl, rfl, rfl⟩

example : scan dueState cfg42 0 dueState.alg.brackets ≠ .none :=
  scan_finds_due dueState cfg42 _ 0 (by
    refine ⟨⟨2, [[⟨0, none⟩, ⟨1, none⟩, ⟨2, none⟩, ⟨3, none⟩], [], []]⟩, (by
      have hb : dueState.alg.brackets = [⟨2, [[⟨0, none⟩, ⟨1, none⟩, ⟨2, none⟩, ⟨3, none⟩], [], []]⟩] := rfl
      rw [hb]; exact List.mem_singleton.mpr rfl), ?_⟩
    refine ⟨[], [⟨0, none⟩, ⟨1, none⟩, ⟨2, none⟩, ⟨3, none⟩], [], [[]], rfl, ?_, by decide, by decide, by decide, by decide, by decide, by decide⟩
    intro e he
    simp only [List.mem_cons, List.not_mem_nil, or_false] at he
    rcases he with rfl | rfl | rfl | rfl
    · exact ⟨_, 5, rfl, rfl, rfl⟩
    · exact ⟨_, 3, rfl, rfl, rfl⟩
    · exact ⟨_, 4, rfl, rfl, rfl⟩
    · exact ⟨_, 6, rfl, rfl, rfl⟩)

end HB
#print axioms HB.due_promotion_found
#print axioms HB.scan_finds_due
