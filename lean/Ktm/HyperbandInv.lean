import Ktm.Hyperband
namespace HB
open Core

/-! ### `bestOf` picks a member that nobody strictly beats -/

theorem bestOf_mem (m : Bool) (l : List (Nat × Int)) (x : Nat × Int) (h : bestOf m l = some x) : x ∈ l := by
  induction l generalizing x with
  | nil => simp [bestOf] at h
  | cons a as ih =>
    simp only [bestOf] at h
    cases hb : bestOf m as with
    | none => simp [hb] at h; subst h; simp
    | some y =>
      simp only [hb] at h
      split at h
      · cases h; exact List.mem_cons_of_mem _ (ih _ hb)
      · cases h; simp

theorem bestOf_ne_none (m : Bool) (l : List (Nat × Int)) (h : l ≠ []) : bestOf m l ≠ none := by
  cases l with
  | nil => exact absurd rfl h
  | cons a as =>
    simp only [bestOf]
    cases bestOf m as with
    | none => simp
    | some y => simp only; split <;> simp

theorem better_irrefl (m : Bool) (a : Int) : better m a a = false := by
  unfold better; split <;> simp

theorem better_trans_not (m : Bool) (a b c : Int) (h1 : better m a b = false) (h2 : better m b c = false) :
    better m a c = false := by
  unfold better at *
  split at h1 <;> simp_all <;> omega

/-- nobody in the list is strictly better than the chosen one -/
theorem bestOf_best (m : Bool) (l : List (Nat × Int)) (x : Nat × Int) (h : bestOf m l = some x) :
    ∀ c ∈ l, better m c.2 x.2 = false := by
  induction l generalizing x with
  | nil => simp
  | cons a as ih =>
    simp only [bestOf] at h
    cases hb : bestOf m as with
    | none =>
      simp [hb] at h; subst h
      have has : as = [] := by
        cases as with
        | nil => rfl
        | cons b bs => exact absurd hb (bestOf_ne_none m _ (by simp))
      subst has
      intro c hc; simp at hc; subst hc; exact better_irrefl m _
    | some y =>
      simp only [hb] at h
      have ihy := ih y hb
      split at h
      · rename_i hyx
        cases h
        intro c hc
        rcases List.mem_cons.mp hc with hc | hc
        · subst hc
          -- y strictly better than a ⇒ a not better than y
          unfold better at hyx ⊢
          split at hyx <;> simp_all <;> omega
        · exact ihy c hc
      · rename_i hyx
        cases h
        have hyx' : better m y.2 a.2 = false := by simpa using hyx
        intro c hc
        rcases List.mem_cons.mp hc with hc | hc
        · subst hc; exact better_irrefl m _
        · exact better_trans_not m _ _ _ (ihy c hc) hyx'

/-! ### candidates -/

theorem candOf_some (o : O) (cur : List Entry) (e : Entry) (x : Nat × Int) (hx : candOf o cur e = some x) :
    x.1 = e.id ∧ (∀ c ∈ cur, c.past ≠ some e.id) ∧
    ∃ t, o.trials[e.id]? = some t ∧ t.status = .completed ∧ t.score = some x.2 := by
  unfold candOf at hx
  split at hx
  · cases hx
  · rename_i hsel
    split at hx
    · rename_i t ht
      split at hx
      · rename_i hst
        cases hsc : t.score with
        | none => simp [hsc] at hx
        | some s =>
          simp [hsc] at hx; subst hx
          refine ⟨rfl, ?_, t, ht, hst, hsc⟩
          intro c hc hp
          apply hsel
          simp only [List.any_eq_true]
          exact ⟨c, hc, by simp [hp]⟩
      · cases hx
    · cases hx

theorem mem_candidates (o : O) (prev cur : List Entry) (x : Nat × Int) (h : x ∈ candidates o prev cur) :
    (∃ e ∈ prev, e.id = x.1) ∧ (∀ c ∈ cur, c.past ≠ some x.1) ∧
    ∃ t, o.trials[x.1]? = some t ∧ t.status = .completed ∧ t.score = some x.2 := by
  simp only [candidates, List.mem_filterMap] at h
  obtain ⟨e, he, hx⟩ := h
  obtain ⟨h1, h2, h3⟩ := candOf_some o cur e x hx
  rw [h1]; exact ⟨⟨e, he, rfl⟩, h2, h3⟩

end HB
#print axioms HB.bestOf_best
