import Ktm.Live
import Ktm.HyperbandTrials
/-! C11 — liveness for Hyperband: the schedule is the budget. -/
namespace Live
open Core

/-- Hyperband with finite iterations: along every interleaving of workers, finishing orders and outcomes at most
    `2 · (iterations · numBrackets · M) · (max_retries + 1)` steps hand out or end a trial (`M` bounds the places of one bracket) -/
theorem hyperband_productive_bounded (cfg : HB.Cfg) (M : Nat) (hnb : 0 < cfg.numBrackets) (hit : 0 < cfg.iterations)
    (hpos : ∀ b, 0 < cfg.size b 0) (hM : ∀ num, num < cfg.numBrackets → HB.cap cfg (HB.newBracket num) ≤ M) (as : List Act) :
    productiveCount HB.alg ⟨HB.init cfg, [], false⟩ as ≤
      2 * (cfg.iterations * cfg.numBrackets * M * ((HB.init cfg).maxRetries + 1)) := by
  have hB : ∀ as', (srun HB.alg ⟨HB.init cfg, [], false⟩ as').o.trials.length ≤ cfg.iterations * cfg.numBrackets * M := by
    intro as'
    obtain ⟨ops, hops⟩ := srun_run HB.alg as' ⟨HB.init cfg, [], false⟩
    rw [hops]
    exact HB.trials_bounded cfg M hnb hit hpos hM ops
  have h := productive_le_phi HB.alg (cfg.iterations * cfg.numBrackets * M) as ⟨HB.init cfg, [], false⟩
    (by exact inv_init _ none 0 3) (by exact kinv_init _ none 0 3) hB
  have hphi : phi (cfg.iterations * cfg.numBrackets * M) (HB.init cfg) =
      2 * (cfg.iterations * cfg.numBrackets * M * ((HB.init cfg).maxRetries + 1)) := by
    simp [phi, HB.init, Core.init, psi]
  rw [hphi] at h
  exact h

end Live
#print axioms Live.hyperband_productive_bounded
