import Ktm.HyperbandTop
namespace HB
open Core

/-- a trial of the previous round beats the promoted parent (in some later state `o'`) -/
def beats (o' : O) (minimize : Bool) (ps : Int) (u : Nat) : Bool :=
  match o'.trials[u]? with
  | some t => t.status == .completed && (match t.score with | some su => better minimize su ps | none => false)
  | none => false

/-- C10 promotion soundness, at the moment of promotion and for every future:
    let `prev`/`cur` be rounds `j`/`j+1` when `pid` is chosen, `R` the ids of round `j` in any later state
    (it only grows and never exceeds its scheduled size), and `o'` any later oracle state in which the
    trials that were COMPLETED at promotion time still have the same status and score. Then fewer
    trials of round `j` beat the promoted parent than round `j+1` has places. -/
theorem promote_rank (o o' : O) (cfg : Cfg) (bnum j pid : Nat) (sc : Int) (prev cur : List Entry)
    (hprev_nodup : (prev.map (·.id)).Nodup)
    (hsz : cfg.size bnum j - cfg.size bnum (j + 1) < (candidates o prev cur).length)
    (hbest : bestOf cfg.minimize (candidates o prev cur) = some (pid, sc))
    (R : List Nat) (hRn : R.Nodup) (hRlen : R.length ≤ cfg.size bnum j)
    (hgrow : ∀ i ∈ prev.map (·.id), i ∈ R)
    (hfrozen : ∀ (i : Nat) (t : Trial HV), o.trials[i]? = some t → t.status = .completed →
        ∃ t', o'.trials[i]? = some t' ∧ t'.status = .completed ∧ t'.score = t.score) :
    R.countP (beats o' cfg.minimize sc) < cfg.size bnum (j + 1) := by
  -- C = ids of the candidates
  let C := (candidates o prev cur).map (·.1)
  have hCsub : ∀ c ∈ C, c ∈ R := by
    intro c hc
    obtain ⟨x, hx, hxc⟩ := List.mem_map.mp hc
    obtain ⟨⟨e, he, hid⟩, _, _⟩ := mem_candidates o prev cur x hx
    exact hgrow c (List.mem_map.mpr ⟨e, he, by rw [hid, hxc]⟩)
  have hCn : C.Nodup := by
    have hsub := candidates_ids_sublist o prev cur
    exact (hprev_nodup.sublist (List.filter_sublist)).sublist hsub
  have hCbeat : ∀ c ∈ C, beats o' cfg.minimize sc c = false := by
    intro c hc
    obtain ⟨x, hx, hxc⟩ := List.mem_map.mp hc
    obtain ⟨_, _, t, ht, hst, hscore⟩ := mem_candidates o prev cur x hx
    obtain ⟨t', ht', hst', hsc'⟩ := hfrozen x.1 t ht hst
    have hb := bestOf_best cfg.minimize _ _ hbest x hx
    simp only at hb
    subst hxc
    simp [beats, ht', hst', hsc', hscore, hb]
  have hpos : 0 < cfg.size bnum (j + 1) ∨ cfg.size bnum (j + 1) = 0 := by omega
  have hlen : cfg.size bnum j - cfg.size bnum (j + 1) < C.length := by simpa [C] using hsz
  rcases hpos with hp | hp
  · exact Rank.promotion_rank R C (beats o' cfg.minimize sc) (cfg.size bnum j) (cfg.size bnum (j + 1))
      hRlen hRn hCn hCsub hlen hp hCbeat
  · -- no places at all: impossible, since then more candidates than the round can hold
    exfalso
    have h1 := (Rank.filter_outside_len R C hCn hRn hCsub)
    omega

end HB
#print axioms HB.promote_rank
