import Ktm.HyperbandRank
/-! C10/C11: the bracket invariant holds in every reachable state of the Hyperband oracle, and every
    freshly issued trial carries the labels of the round it was recorded in. -/
namespace HB
open Core

/-- the Hyperband-specific invariant: configuration fixed, every bracket well-formed -/
structure HInv (cfg : Cfg) (o : O) : Prop where
  cfg_eq : o.alg.cfg = cfg
  allB : AllB cfg o.trials.length o.alg.brackets

/-- facts about a freshly created trial (its id is the next free one) -/
theorem create_fresh_spec (o : O) (cfg : Cfg) (h : HInv cfg o) (hpos : ∀ b, 0 < cfg.size b 0) (tuner c : Nat) :
    HInv cfg (create alg o tuner c).1 ∧
    (∀ v, (create alg o tuner c).2 = .trial o.trials.length v →
      PopSpec { o with tunerIds := addTuner o.tunerIds tuner } ((create alg o tuner c).1.alg, .run v)) ∧
    ((create alg o tuner c).2 = .idle → o.ongoing ≠ []) := by
  have hcfg := h.cfg_eq
  unfold create
  cases hh : holds o tuner with
  | some id =>
    simp only []
    cases ht : o.trials[id]? with
    | some t =>
      refine ⟨h, ?_, by intro hc; simp at hc⟩
      intro v hv
      simp only [Out.trial.injEq] at hv
      have := (List.getElem?_eq_some_iff.mp ht).1
      omega
    | none => exact ⟨h, by intro v hv; simp at hv, by intro hc; simp at hc⟩
  | none =>
    simp only []
    cases hq : o.retryQ.getLast? with
    | some rid =>
      simp only []
      cases ht : o.trials[rid]? with
      | some t =>
        refine ⟨⟨hcfg, by simpa [length_setTrial] using h.allB⟩, ?_, by intro hc; simp at hc⟩
        intro v hv
        simp only [Out.trial.injEq] at hv
        have := (List.getElem?_eq_some_iff.mp ht).1
        omega
      | none => exact ⟨⟨h.cfg_eq, h.allB⟩, by intro v hv; simp at hv, by intro hc; simp at hc⟩
    | none =>
      simp only []
      split
      · exact ⟨⟨h.cfg_eq, h.allB⟩, by intro v hv; simp at hv, by intro hc; simp at hc⟩
      · have hspec := populate_spec { o with tunerIds := addTuner o.tunerIds tuner } c
          (by simpa [hcfg] using h.allB) (by intro b; simpa [hcfg] using hpos b)
        have halg : alg.populate { o with tunerIds := addTuner o.tunerIds tuner } c =
            populate { o with tunerIds := addTuner o.tunerIds tuner } c := rfl
        rw [halg]
        cases hp : populate { o with tunerIds := addTuner o.tunerIds tuner } c with
        | mk a pop =>
          rw [hp] at hspec
          cases pop with
          | run v =>
            simp only []
            refine ⟨?_, ?_, by intro hc; cases hc⟩
            · cases hspec with
              | random s' v' b hc hall _ _ _ _ _ => exact ⟨by simpa [hcfg] using hc, by simpa [hcfg] using hall⟩
              | promote s' v' pid hc hall _ _ _ _ _ _ => exact ⟨by simpa [hcfg] using hc, by simpa [hcfg] using hall⟩
            · intro v' hv'
              simp only [Out.trial.injEq] at hv'
              obtain ⟨_, rfl⟩ := hv'
              exact hspec
          | idle =>
            simp only []
            cases hspec with
            | idle s' hc hall hne =>
              exact ⟨⟨by simpa [hcfg] using hc, by simpa [hcfg] using hall⟩, by intro v hv; simp at hv, fun _ => hne⟩
          | stop =>
            simp only []
            cases hspec with
            | stop s' hc hall =>
              exact ⟨⟨by simpa [hcfg] using hc, by simpa [hcfg] using hall⟩, by intro v hv; simp at hv, by intro hc'; simp at hc'⟩

theorem hinv_step (cfg : Cfg) (o : O) (h : HInv cfg o) (hpos : ∀ b, 0 < cfg.size b 0) (op : Op) :
    HInv cfg (step alg o op).1 := by
  cases op with
  | create t c => exact (create_fresh_spec o cfg h hpos t c).1
  | update id r =>
    simp only [step, update]
    split
    · exact ⟨h.cfg_eq, by simpa [length_setTrial] using h.allB⟩
    · exact h
  | endT id oc =>
    simp only [step, endT]
    split
    · exact h
    · split
      · exact h
      · split
        · exact ⟨h.cfg_eq, by simpa [length_setTrial, alg] using h.allB⟩
        · split
          · exact ⟨h.cfg_eq, by simpa [length_setTrial] using h.allB⟩
          · exact ⟨h.cfg_eq, by simpa [length_setTrial, alg] using h.allB⟩

/-- the bracket invariant holds in every state reachable by any request list -/
theorem hinv_reachable (cfg : Cfg) (o : O) (h : HInv cfg o) (hpos : ∀ b, 0 < cfg.size b 0) (ops : List Op) :
    HInv cfg (run alg o ops) := by
  induction ops generalizing o with
  | nil => exact h
  | cons op ops ih =>
    simp only [run]
    split
    · exact hinv_step cfg o h hpos op
    · exact ih _ (hinv_step cfg o h hpos op)

theorem hinv_init (cfg : Cfg) : HInv cfg (init cfg) := by
  refine ⟨rfl, ?_⟩
  intro b hb
  simp [init, Core.init] at hb
  subst hb
  exact binv_new _ _ _

end HB
#print axioms HB.hinv_reachable
