import Ktm.HyperbandReach
/-! C10: the successive-halving schedule with exact integer arithmetic (the code computes the same
    numbers with floats; the `hyperband` suite compares the two tables for every generated
    configuration). -/
namespace HB

/-- least `j` with `f^j ≥ m` (`⌈log_f m⌉`), by bounded search -/
def clogAux (f m : Nat) : Nat → Nat → Nat → Nat
  | 0, j, _ => j
  | fuel + 1, j, p => if m ≤ p then j else clogAux f m fuel (j + 1) (p * f)
def clog (f m : Nat) : Nat := clogAux f m m 0 1

/-- number of `j ≥ 0` with `f^j ≤ m` (`_get_num_brackets`) -/
def nbAux (f m : Nat) : Nat → Nat → Nat → Nat
  | 0, j, _ => j
  | fuel + 1, j, p => if m < p then j else nbAux f m fuel (j + 1) (p * f)
def numBracketsOf (f m : Nat) : Nat := nbAux f m (m + 1) 0 1

/-- `_get_epochs`: `⌈max_epochs / factor^(bracket − round)⌉` -/
def epochsOf (m f b r : Nat) : Nat := (m + f ^ (b - r) - 1) / f ^ (b - r)

/-- `_get_size`: `⌈ ⌈1 + log_f m⌉ / (b + 1) · f^(b − r) ⌉` -/
def sizeOf (m f b r : Nat) : Nat := ((1 + clog f m) * f ^ (b - r) + b) / (b + 1)

def mkCfg (maxEpochs factor iterations : Nat) (minimize : Bool) : Cfg :=
  { size := sizeOf maxEpochs factor, epochs := epochsOf maxEpochs factor,
    numBrackets := numBracketsOf factor maxEpochs, iterations := iterations, minimize := minimize }

theorem pow_pos' (f k : Nat) (hf : 1 ≤ f) : 0 < f ^ k := Nat.pow_pos (by omega)

/-- every bracket's first round has room for at least one trial -/
theorem size_pos (m f b : Nat) (hf : 1 ≤ f) : 0 < sizeOf m f b 0 := by
  unfold sizeOf
  have hp := pow_pos' f (b - 0) hf
  apply Nat.div_pos
  · have : 1 * 1 ≤ (1 + clog f m) * f ^ (b - 0) := Nat.mul_le_mul (by omega) hp
    omega
  · omega

/-- `epochsOf` is the ceiling of `m / f^(b−r)`: the least `e` with `m ≤ e · f^(b−r)` -/
theorem epochs_is_ceil (m f b r : Nat) (hf : 1 ≤ f) :
    m ≤ epochsOf m f b r * f ^ (b - r) ∧ ∀ e, m ≤ e * f ^ (b - r) → epochsOf m f b r ≤ e := by
  have hp := pow_pos' f (b - r) hf
  unfold epochsOf
  generalize f ^ (b - r) = p at hp ⊢
  constructor
  · have h1 := Nat.div_add_mod (m + p - 1) p
    have h2 := Nat.mod_lt (m + p - 1) hp
    rw [Nat.mul_comm] at h1
    generalize (m + p - 1) / p * p = qp at h1 ⊢
    generalize (m + p - 1) % p = rem at h1 h2
    omega
  · intro e he
    apply Nat.le_of_lt_succ
    rw [Nat.div_lt_iff_lt_mul hp, Nat.succ_mul]
    omega

/-- the last round of every bracket trains up to `max_epochs` -/
theorem epochs_last (m f b : Nat) (hf : 1 ≤ f) : epochsOf m f b b = m := by
  unfold epochsOf
  simp

/-- a later round never has a smaller epoch budget: a promoted trial starts where its parent stopped
    (`initial_epoch = epochs b (r−1) ≤ epochs b r`) -/
theorem epochs_mono (m f b r : Nat) (hf : 1 ≤ f) (hr : r + 1 ≤ b) :
    epochsOf m f b r ≤ epochsOf m f b (r + 1) := by
  apply (epochs_is_ceil m f b r hf).2
  have h1 := (epochs_is_ceil m f b (r + 1) hf).1
  have hpow : f ^ (b - r) = f ^ (b - (r + 1)) * f := by
    have : b - r = (b - (r + 1)) + 1 := by omega
    rw [this, Nat.pow_succ]
  rw [hpow]
  have hp := pow_pos' f (b - (r + 1)) hf
  calc m ≤ epochsOf m f b (r + 1) * f ^ (b - (r + 1)) := h1
    _ ≤ epochsOf m f b (r + 1) * (f ^ (b - (r + 1)) * f) := by
        apply Nat.mul_le_mul_left
        exact Nat.le_mul_of_pos_right _ (by omega)

example : (List.range 3).map (fun b => (List.range (b + 1)).map (fun r => (sizeOf 4 2 b r, epochsOf 4 2 b r))) =
    [[(3, 4)], [(3, 2), (2, 4)], [(4, 1), (2, 2), (1, 4)]] ∧ numBracketsOf 2 4 = 3 := by decide

end HB
#print axioms HB.epochs_is_ceil
