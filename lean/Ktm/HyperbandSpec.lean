import Ktm.HyperbandCount
namespace HB
open Core

theorem tryPromote_spec (o : O) (cfg : Cfg) (b : Bracket) (rs : List (List Entry)) :
    ∀ (k r pid : Nat), tryPromote o cfg b k rs = some (r, pid) →
    ∃ j prev cur, r = k + j + 1 ∧ rs[j]? = some prev ∧ rs[j + 1]? = some cur ∧
      cfg.size b.num (k + j) - cfg.size b.num (k + j + 1) < (candidates o prev cur).length ∧
      ∃ sc, bestOf cfg.minimize (candidates o prev cur) = some (pid, sc) := by
  induction rs with
  | nil => intro k r pid h; simp [tryPromote] at h
  | cons prev rest ih =>
    intro k r pid h
    cases rest with
    | nil => simp [tryPromote] at h
    | cons cur rest' =>
      simp only [tryPromote] at h
      have shift : (∃ j prev' cur', r = (k + 1) + j + 1 ∧ (cur :: rest')[j]? = some prev' ∧ (cur :: rest')[j + 1]? = some cur' ∧
          cfg.size b.num (k + 1 + j) - cfg.size b.num (k + 1 + j + 1) < (candidates o prev' cur').length ∧
          ∃ sc, bestOf cfg.minimize (candidates o prev' cur') = some (pid, sc)) →
          ∃ j prev' cur', r = k + j + 1 ∧ (prev :: cur :: rest')[j]? = some prev' ∧ (prev :: cur :: rest')[j + 1]? = some cur' ∧
          cfg.size b.num (k + j) - cfg.size b.num (k + j + 1) < (candidates o prev' cur').length ∧
          ∃ sc, bestOf cfg.minimize (candidates o prev' cur') = some (pid, sc) := by
        rintro ⟨j, p', c', hr, hp, hc, hsz, hb⟩
        refine ⟨j + 1, p', c', by omega, by simpa using hp, by simpa using hc, ?_, hb⟩
        have e1 : k + (j + 1) = k + 1 + j := by omega
        rw [e1]; exact hsz
      split at h
      · rename_i hlt
        cases hb : bestOf cfg.minimize (candidates o prev cur) with
        | none => simp only [hb] at h; exact shift (ih (k + 1) r pid h)
        | some x =>
          obtain ⟨pid', sc⟩ := x
          simp only [hb, Option.some.injEq, Prod.mk.injEq] at h
          obtain ⟨h1, h2⟩ := h
          subst h1; subst h2
          exact ⟨0, prev, cur, by omega, by simp, by simp, by simpa using hlt, sc, hb⟩
      · exact shift (ih (k + 1) r pid h)

theorem scan_random_spec (o : O) (cfg : Cfg) (brs : List Bracket) :
    ∀ (i bi : Nat), scan o cfg i brs = .random bi →
    ∃ j b r0 rest, bi = i + j ∧ brs[j]? = some b ∧ b.rounds = r0 :: rest ∧ r0.length < cfg.size b.num 0 := by
  induction brs with
  | nil => intro i bi h; simp [scan] at h
  | cons b bs ih =>
    intro i bi h
    simp only [scan] at h
    have shift : (∃ j b' r0 rest, bi = (i + 1) + j ∧ bs[j]? = some b' ∧ b'.rounds = r0 :: rest ∧ r0.length < cfg.size b'.num 0) →
        ∃ j b' r0 rest, bi = i + j ∧ (b :: bs)[j]? = some b' ∧ b'.rounds = r0 :: rest ∧ r0.length < cfg.size b'.num 0 := by
      rintro ⟨j, b', r0, rest, h1, h2, h3, h4⟩
      exact ⟨j + 1, b', r0, rest, by omega, by simpa using h2, h3, h4⟩
    split at h
    · exact shift (ih _ _ h)
    · rename_i r0 rest hr
      split at h
      · rename_i hlt
        cases h
        exact ⟨0, b, r0, rest, by omega, by simp, hr, hlt⟩
      · split at h
        · cases h
        · exact shift (ih _ _ h)

theorem scan_promote_spec (o : O) (cfg : Cfg) (brs : List Bracket) :
    ∀ (i bi r pid : Nat), scan o cfg i brs = .promote bi r pid →
    ∃ j b, bi = i + j ∧ brs[j]? = some b ∧ tryPromote o cfg b 0 b.rounds = some (r, pid) := by
  induction brs with
  | nil => intro i bi r pid h; simp [scan] at h
  | cons b bs ih =>
    intro i bi r pid h
    simp only [scan] at h
    have shift : (∃ j b', bi = (i + 1) + j ∧ bs[j]? = some b' ∧ tryPromote o cfg b' 0 b'.rounds = some (r, pid)) →
        ∃ j b', bi = i + j ∧ (b :: bs)[j]? = some b' ∧ tryPromote o cfg b' 0 b'.rounds = some (r, pid) := by
      rintro ⟨j, b', h1, h2, h3⟩
      exact ⟨j + 1, b', by omega, by simpa using h2, h3⟩
    split at h
    · exact shift (ih _ _ _ _ h)
    · split at h
      · cases h
      · split at h
        · rename_i r' pid' htp
          cases h
          exact ⟨0, b, by omega, by simp, htp⟩
        · exact shift (ih _ _ _ _ h)

end HB
