import Ktm.HyperbandReach
/-! C11 / C08 — the sweep position of the Hyperband oracle. `(_current_iteration, _current_bracket)` starts at
`(0, numBrackets − 1)`, is changed by `populate_space` only, and only by one step of `_increment_bracket_num` taken when the
stop test `_current_bracket == 0 and _current_iteration + 1 == hyperband_iterations` is false. Hence, in every reachable state,
`_current_iteration < hyperband_iterations` and `_current_bracket < numBrackets`, the position `iteration · numBrackets +
(numBrackets − 1 − bracket)` never decreases and grows by at most one per request: at most `iterations · numBrackets` brackets are
ever opened (the seeded changes C08-F / C11-F restore the counter wrongly after a reload and leave exactly this bound). -/
namespace HB
open Core

def pos (s : St) : Nat := s.currentIteration * s.cfg.numBrackets + (s.cfg.numBrackets - 1 - s.currentBracket)

structure SweepInv (cfg : Cfg) (s : St) : Prop where
  cfg_eq : s.cfg = cfg
  br : s.currentBracket < cfg.numBrackets
  it : s.currentIteration < cfg.iterations

theorem randomIn_fields (o : O) (c : Nat) (s' : St) (bi num : Nat) :
    (randomIn o c s' bi num).1.cfg = s'.cfg ∧ (randomIn o c s' bi num).1.currentBracket = s'.currentBracket ∧
    (randomIn o c s' bi num).1.currentIteration = s'.currentIteration := by
  cases c <;> simp [randomIn]

/-- what one `populate_space` does to the sweep position -/
theorem populate_sweep (o : O) (c : Nat) :
    (populate o c).1.cfg = o.alg.cfg ∧
    (((populate o c).1.currentBracket = o.alg.currentBracket ∧ (populate o c).1.currentIteration = o.alg.currentIteration) ∨
     (¬(o.alg.currentBracket = 0 ∧ o.alg.currentIteration + 1 = o.alg.cfg.iterations) ∧
      (populate o c).1.currentBracket = (nextBracket o.alg).1 ∧ (populate o c).1.currentIteration = (nextBracket o.alg).2)) := by
  unfold populate
  simp only []
  split
  · -- random in an open bracket
    split
    · rename_i b _
      obtain ⟨h1, h2, h3⟩ := randomIn_fields o c { o.alg with brackets := o.alg.brackets.filter (fun b => !completeBracket o.alg.cfg b) } ‹Nat› b.num
      exact ⟨h1, Or.inl ⟨h2, h3⟩⟩
    · exact ⟨rfl, Or.inl ⟨rfl, rfl⟩⟩
  · -- promotion
    split
    · exact ⟨rfl, Or.inl ⟨rfl, rfl⟩⟩
    · exact ⟨rfl, Or.inl ⟨rfl, rfl⟩⟩
  · -- nothing to run in the open brackets
    split
    · exact ⟨rfl, Or.inl ⟨rfl, rfl⟩⟩
    · rename_i hstop
      obtain ⟨h1, h2, h3⟩ := randomIn_fields o c
        { o.alg with brackets := o.alg.brackets.filter (fun b => !completeBracket o.alg.cfg b) ++ [newBracket (nextBracket o.alg).1],
                     currentBracket := (nextBracket o.alg).1, currentIteration := (nextBracket o.alg).2 }
        (o.alg.brackets.filter (fun b => !completeBracket o.alg.cfg b)).length (nextBracket o.alg).1
      exact ⟨h1, Or.inr ⟨hstop, h2, h3⟩⟩

theorem nextBracket_pos (s : St) (cfg : Cfg) (h : SweepInv cfg s)
    (hgo : ¬(s.currentBracket = 0 ∧ s.currentIteration + 1 = s.cfg.iterations)) :
    (nextBracket s).1 < cfg.numBrackets ∧ (nextBracket s).2 < cfg.iterations ∧
    (nextBracket s).2 * cfg.numBrackets + (cfg.numBrackets - 1 - (nextBracket s).1) =
      s.currentIteration * cfg.numBrackets + (cfg.numBrackets - 1 - s.currentBracket) + 1 := by
  obtain ⟨hc, hb, hi⟩ := h
  unfold nextBracket
  by_cases h0 : s.currentBracket = 0
  · have hne : s.currentIteration + 1 ≠ cfg.iterations := by
      intro e; exact hgo ⟨h0, by rw [hc]; exact e⟩
    simp only [h0, if_true, hc]
    refine ⟨by omega, by omega, ?_⟩
    have : cfg.numBrackets - 1 - (cfg.numBrackets - 1) = 0 := by omega
    rw [this, Nat.add_mul]
    omega
  · simp only [h0, if_false]
    refine ⟨by omega, hi, ?_⟩
    omega

/-- the invariant and the one-step movement of the position, for one populate -/
theorem populate_sweep_inv (o : O) (c : Nat) (cfg : Cfg) (h : SweepInv cfg o.alg) :
    SweepInv cfg (populate o c).1 ∧ (pos (populate o c).1 = pos o.alg ∨ pos (populate o c).1 = pos o.alg + 1) := by
  obtain ⟨hcfg, hmove⟩ := populate_sweep o c
  rcases hmove with ⟨hb, hi⟩ | ⟨hgo, hb, hi⟩
  · refine ⟨⟨hcfg.trans h.cfg_eq, by rw [hb]; exact h.br, by rw [hi]; exact h.it⟩, Or.inl ?_⟩
    simp [pos, hcfg, hb, hi]
  · obtain ⟨h1, h2, h3⟩ := nextBracket_pos o.alg cfg h hgo
    refine ⟨⟨hcfg.trans h.cfg_eq, by rw [hb]; exact h1, by rw [hi]; exact h2⟩, Or.inr ?_⟩
    simp only [pos, hcfg, hb, hi, h.cfg_eq]
    exact h3

/-- the position is bounded: fewer than `iterations · numBrackets` steps can ever be taken -/
theorem pos_bound (cfg : Cfg) (s : St) (h : SweepInv cfg s) : pos s < cfg.iterations * cfg.numBrackets := by
  obtain ⟨hc, hb, hi⟩ := h
  unfold pos
  rw [hc]
  have h1 : (s.currentIteration + 1) * cfg.numBrackets ≤ cfg.iterations * cfg.numBrackets := Nat.mul_le_mul_right _ hi
  rw [Nat.add_mul] at h1
  omega

end HB

namespace HB
open Core

/-- `create_trial` changes the algorithm state through one `populate_space` or not at all -/
theorem create_alg (o : O) (tuner c : Nat) :
    (create alg o tuner c).1.alg = o.alg ∨
    (create alg o tuner c).1.alg = (populate { o with tunerIds := addTuner o.tunerIds tuner } c).1 := by
  unfold create
  cases holds o tuner with
  | some id =>
    simp only []
    cases o.trials[id]? <;> exact Or.inl rfl
  | none =>
    simp only []
    cases ({ o with tunerIds := addTuner o.tunerIds tuner } : O).retryQ.getLast? with
    | some rid =>
      simp only []
      cases ({ o with tunerIds := addTuner o.tunerIds tuner } : O).trials[rid]? <;> exact Or.inl rfl
    | none =>
      simp only []
      split
      · exact Or.inl rfl
      · have halg : alg.populate { o with tunerIds := addTuner o.tunerIds tuner } c =
            populate { o with tunerIds := addTuner o.tunerIds tuner } c := rfl
        rw [halg]
        cases hp : populate { o with tunerIds := addTuner o.tunerIds tuner } c with
        | mk a pop => cases pop <;> exact Or.inr rfl

theorem step_alg (o : O) (op : Op) :
    (step alg o op).1.alg = o.alg ∨
    ∃ o' : O, o'.alg = o.alg ∧ ∃ c, (step alg o op).1.alg = (populate o' c).1 := by
  cases op with
  | create t c =>
    rcases create_alg o t c with h | h
    · exact Or.inl h
    · exact Or.inr ⟨{ o with tunerIds := addTuner o.tunerIds t }, rfl, c, h⟩
  | update id r =>
    left
    simp only [step, update]
    split <;> rfl
  | endT id oc =>
    left
    simp only [step, endT]
    split
    · rfl
    · split
      · rfl
      · split
        · simp [alg]
        · split
          · rfl
          · simp [alg]

/-- one request: the sweep invariant is kept and the position moves forward by at most one -/
theorem sweep_step (cfg : Cfg) (o : O) (h : SweepInv cfg o.alg) (op : Op) :
    SweepInv cfg (step alg o op).1.alg ∧
    (pos (step alg o op).1.alg = pos o.alg ∨ pos (step alg o op).1.alg = pos o.alg + 1) := by
  rcases step_alg o op with he | ⟨o', ho', c, he⟩
  · rw [he]; exact ⟨h, Or.inl rfl⟩
  · rw [he, ← ho']
    exact populate_sweep_inv o' c cfg (ho' ▸ h)

/-- **every reachable state**: the sweep counter stays below `hyperband_iterations`, the bracket number below the number of
    brackets, and the position is at least where it started -/
theorem sweep_reachable (cfg : Cfg) (o : O) (h : SweepInv cfg o.alg) (ops : List Op) :
    SweepInv cfg (run alg o ops).alg ∧ pos o.alg ≤ pos (run alg o ops).alg := by
  induction ops generalizing o with
  | nil => exact ⟨h, Nat.le_refl _⟩
  | cons op ops ih =>
    obtain ⟨h1, hmove⟩ := sweep_step cfg o h op
    simp only [run]
    split
    · exact ⟨h1, by rcases hmove with e | e <;> omega⟩
    · obtain ⟨h2, hle⟩ := ih _ h1
      exact ⟨h2, by rcases hmove with e | e <;> omega⟩

theorem sweep_init (cfg : Cfg) (hnb : 0 < cfg.numBrackets) (hit : 0 < cfg.iterations) : SweepInv cfg (init cfg).alg := by
  refine ⟨rfl, ?_, ?_⟩
  · simp [init, Core.init]; omega
  · simpa [init, Core.init] using hit

/-- from the start of a search: in every state any request list can reach, fewer than `iterations · numBrackets` forward steps of the
    sweep position have been taken — at most `iterations · numBrackets` brackets are ever opened, the initial one included -/
theorem brackets_opened_bounded (cfg : Cfg) (hnb : 0 < cfg.numBrackets) (hit : 0 < cfg.iterations) (ops : List Op) :
    pos (run alg (init cfg) ops).alg < cfg.iterations * cfg.numBrackets ∧
    (run alg (init cfg) ops).alg.currentIteration < cfg.iterations :=
  let h := (sweep_reachable cfg (init cfg) (sweep_init cfg hnb hit) ops).1
  ⟨pos_bound cfg _ h, h.it⟩

end HB
#print axioms HB.brackets_opened_bounded
