import Ktm.HyperbandBInv
namespace HB
open Core

def AllB (cfg : Cfg) (n : Nat) (brs : List Bracket) : Prop := ∀ b ∈ brs, BInv cfg n b

theorem allB_mono {cfg n brs} (h : AllB cfg n brs) : AllB cfg (n + 1) brs := fun b hb => (h b hb).mono

theorem allB_filter {cfg n brs} (p : Bracket → Bool) (h : AllB cfg n brs) : AllB cfg n (brs.filter p) :=
  fun b hb => h b (List.mem_filter.mp hb).1

/-- what a call of `populate` may answer, with the facts the C10 theorems need -/
inductive PopSpec (o : O) : St × Pop HV → Prop
  | random (s' : St) (v : HV) (b : Bracket) :
      s'.cfg = o.alg.cfg → AllB o.alg.cfg (o.trials.length + 1) s'.brackets →
      v.round = 0 → v.initialEpoch = 0 → v.parent = none → v.epochs = o.alg.cfg.epochs v.bracket 0 →
      (∃ b' ∈ s'.brackets, b'.num = v.bracket ∧ ∃ l, b'.rounds[0]? = some l ∧ ⟨o.trials.length, none⟩ ∈ l) →
      PopSpec o (s', .run v)
  | promote (s' : St) (v : HV) (pid : Nat) :
      s'.cfg = o.alg.cfg → AllB o.alg.cfg (o.trials.length + 1) s'.brackets →
      1 ≤ v.round → v.parent = some pid →
      v.epochs = o.alg.cfg.epochs v.bracket v.round → v.initialEpoch = o.alg.cfg.epochs v.bracket (v.round - 1) →
      (∃ pt, o.trials[pid]? = some pt ∧ pt.status = .completed ∧ pt.vals.base = v.base) →
      (∃ b' ∈ s'.brackets, b'.num = v.bracket ∧ ∃ l, b'.rounds[v.round]? = some l ∧ ⟨o.trials.length, some pid⟩ ∈ l) →
      PopSpec o (s', .run v)
  | idle (s' : St) : s'.cfg = o.alg.cfg → AllB o.alg.cfg o.trials.length s'.brackets →
      o.ongoing ≠ [] → PopSpec o (s', .idle)
  | stop (s' : St) : s'.cfg = o.alg.cfg → AllB o.alg.cfg o.trials.length s'.brackets → PopSpec o (s', .stop)

theorem randomIn_spec (o : O) (choice : Nat) (s' : St) (bi : Nat) (b : Bracket)
    (hcfg : s'.cfg = o.alg.cfg) (hall : AllB o.alg.cfg o.trials.length s'.brackets)
    (hb : s'.brackets[bi]? = some b) (r0 : List Entry) (rest : List (List Entry))
    (hr : b.rounds = r0 :: rest) (hlt : r0.length < o.alg.cfg.size b.num 0) :
    PopSpec o (randomIn o choice s' bi b.num) := by
  unfold randomIn
  cases choice with
  | zero =>
    simp only
    by_cases he : o.ongoing.isEmpty = true
    · simp only [he, if_true]; exact .stop s' hcfg hall
    · simp only [he]
      exact .idle s' hcfg hall (by intro h; apply he; simp [h])
  | succ k =>
    simp only
    refine .random _ _ b hcfg ?_ rfl rfl rfl (by simp [hcfg]) ?_
    · intro b' hb'
      rcases mem_modify _ _ _ _ hb' with h | ⟨y, hy, hx⟩
      · exact (hall b' h).mono
      · rw [hb] at hy; cases hy; subst hx
        exact binv_add_random _ _ _ (hall b (List.mem_of_getElem? hb)) r0 rest hr hlt
    · refine ⟨addEntry b 0 ⟨o.trials.length, none⟩, ?_, rfl, r0 ++ [⟨o.trials.length, none⟩], ?_, by simp⟩
      · have : (s'.brackets.modify bi fun b => addEntry b 0 ⟨o.trials.length, none⟩)[bi]? =
            some (addEntry b 0 ⟨o.trials.length, none⟩) := by
          rw [List.getElem?_modify]; simp [hb]
        exact List.mem_of_getElem? this
      · rw [getElem?_addEntry]; simp [hr]

end HB

namespace HB
open Core

theorem populate_spec (o : O) (choice : Nat) (hall : AllB o.alg.cfg o.trials.length o.alg.brackets)
    (hpos : ∀ b, 0 < o.alg.cfg.size b 0) :
    PopSpec o (populate o choice) := by
  unfold populate
  simp only
  have hall' := allB_filter (fun b => !completeBracket o.alg.cfg b) hall
  generalize hbrs : o.alg.brackets.filter (fun b => !completeBracket o.alg.cfg b) = brs at hall'
  cases hscan : scan o o.alg.cfg 0 brs with
  | random bi =>
    simp only
    obtain ⟨j, b, r0, rest, hbi, hb, hr, hlt⟩ := scan_random_spec o o.alg.cfg brs 0 bi hscan
    have hbi' : bi = j := by omega
    subst hbi'
    simp only [hb]
    exact randomIn_spec o choice { o.alg with brackets := brs } bi b rfl hall' hb r0 rest hr hlt
  | promote bi r pid =>
    simp only
    obtain ⟨j, b, hbi, hb, htp⟩ := scan_promote_spec o o.alg.cfg brs 0 bi r pid hscan
    have hbi' : bi = j := by omega
    subst hbi'
    obtain ⟨j', prev, cur, hr, hp, hc, hsz, sc, hbest⟩ := tryPromote_spec o o.alg.cfg b b.rounds 0 r pid htp
    have hr' : r = j' + 1 := by omega
    subst hr'
    have hmem := bestOf_mem _ _ _ hbest
    obtain ⟨_, _, pt, hpt, hst, _⟩ := mem_candidates o prev cur _ hmem
    simp only at hpt
    simp only [hb, hpt]
    have hsz' : o.alg.cfg.size b.num j' - o.alg.cfg.size b.num (j' + 1) < (candidates o prev cur).length := by
      simpa using hsz
    have hbinv := binv_add_promote o o.alg.cfg o.trials.length b (hall' b (List.mem_of_getElem? hb)) j' pid prev cur hp hc hsz' sc hbest
    refine .promote _ _ pid rfl ?_ (by simp) rfl rfl (by simp) ⟨pt, hpt, hst, rfl⟩ ?_
    · intro b' hb'
      rcases mem_modify _ _ _ _ hb' with h | ⟨y, hy, hx⟩
      · exact (hall' b' h).mono
      · rw [hb] at hy; cases hy; subst hx; exact hbinv
    · refine ⟨addEntry b (j' + 1) ⟨o.trials.length, some pid⟩, ?_, rfl, cur ++ [⟨o.trials.length, some pid⟩], ?_, by simp⟩
      · have : (brs.modify bi fun b => addEntry b (j' + 1) ⟨o.trials.length, some pid⟩)[bi]? =
            some (addEntry b (j' + 1) ⟨o.trials.length, some pid⟩) := by
          rw [List.getElem?_modify]; simp [hb]
        exact List.mem_of_getElem? this
      · rw [getElem?_addEntry]; simp [hc]
  | none =>
    simp only
    split
    · by_cases he : o.ongoing.isEmpty = true
      · simp only [he, if_true]; exact .stop _ rfl hall'
      · simp only [he]
        exact .idle _ rfl hall' (by intro h; apply he; simp [h])
    · -- new bracket
      have hnew : AllB o.alg.cfg o.trials.length (brs ++ [newBracket (nextBracket o.alg).1]) := by
        intro b hb
        rcases List.mem_append.mp hb with hb | hb
        · exact hall' b hb
        · simp at hb; subst hb; exact binv_new _ _ _
      have hget : (brs ++ [newBracket (nextBracket o.alg).1])[brs.length]? = some (newBracket (nextBracket o.alg).1) := by
        simp
      have := randomIn_spec o choice
        { o.alg with brackets := brs ++ [newBracket (nextBracket o.alg).1],
                     currentBracket := (nextBracket o.alg).1, currentIteration := (nextBracket o.alg).2 }
        brs.length (newBracket (nextBracket o.alg).1) rfl hnew hget [] (List.replicate (nextBracket o.alg).1 [])
        (by simp [newBracket, List.replicate_succ]) ?_
      · simpa [newBracket] using this
      · simpa [newBracket] using hpos (nextBracket o.alg).1

end HB

#print axioms HB.populate_spec
