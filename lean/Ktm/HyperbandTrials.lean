import Ktm.HyperbandSweep
import Ktm.HyperbandSpec
/-! C11 — the number of trials of a Hyperband search is bounded by its schedule: a potential argument.
`cap b` = free places of bracket `b` (scheduled sizes minus entries, over its rounds); the potential of a state is
`(T − 1 − pos) · M + Σ cap(open brackets)` with `T = iterations · numBrackets` and `M` a bound on the places of one bracket.
Every trial `populate_space` hands out lowers the potential by at least one; nothing raises it. -/
namespace HB
open Core

def capR (cfg : Cfg) (num : Nat) : Nat → List (List Entry) → Nat
  | _, [] => 0
  | r, x :: xs => (cfg.size num r - x.length) + capR cfg num (r + 1) xs

def cap (cfg : Cfg) (b : Bracket) : Nat := capR cfg b.num 0 b.rounds

def caps (cfg : Cfg) : List Bracket → Nat
  | [] => 0
  | b :: bs => cap cfg b + caps cfg bs

theorem caps_append (cfg : Cfg) (a b : List Bracket) : caps cfg (a ++ b) = caps cfg a + caps cfg b := by
  induction a with
  | nil => simp [caps]
  | cons x xs ih => simp [caps, ih]; omega

theorem caps_filter_le (cfg : Cfg) (p : Bracket → Bool) (bs : List Bracket) : caps cfg (bs.filter p) ≤ caps cfg bs := by
  induction bs with
  | nil => simp [caps]
  | cons b bs ih =>
    simp only [List.filter_cons]
    split
    · simp only [caps]; omega
    · simp only [caps]; omega

/-- one more entry in round `r` (which had room) uses up exactly one place -/
theorem capR_modify (cfg : Cfg) (num : Nat) (e : Entry) (rounds : List (List Entry)) :
    ∀ (k r : Nat) (x : List Entry), rounds[r]? = some x → x.length + 1 ≤ cfg.size num (k + r) →
    capR cfg num k (rounds.modify r (fun l => l ++ [e])) + 1 = capR cfg num k rounds := by
  induction rounds with
  | nil => intro k r x h; simp at h
  | cons y ys ih =>
    intro k r x h hroom
    cases r with
    | zero =>
      simp only [List.getElem?_cons_zero, Option.some.injEq] at h
      subst h
      simp only [List.modify_zero_cons, capR, List.length_append, List.length_cons, List.length_nil]
      simp only [Nat.add_zero] at hroom
      omega
    | succ r =>
      simp only [List.getElem?_cons_succ] at h
      simp only [List.modify_succ_cons, capR]
      have := ih (k + 1) r x h (by have : k + 1 + r = k + (r + 1) := by omega
                                   rw [this]; exact hroom)
      omega

theorem caps_modify (cfg : Cfg) (e : Entry) (r : Nat) (bs : List Bracket) :
    ∀ (bi : Nat) (b : Bracket) (x : List Entry), bs[bi]? = some b → b.rounds[r]? = some x → x.length + 1 ≤ cfg.size b.num r →
    caps cfg (bs.modify bi (fun b => addEntry b r e)) + 1 = caps cfg bs := by
  induction bs with
  | nil => intro bi b x h; simp at h
  | cons y ys ih =>
    intro bi b x h hx hroom
    cases bi with
    | zero =>
      simp only [List.getElem?_cons_zero, Option.some.injEq] at h
      subst h
      simp only [List.modify_zero_cons, caps, cap, addEntry]
      have := capR_modify cfg y.num e y.rounds 0 r x hx (by simpa using hroom)
      omega
    | succ bi =>
      simp only [List.getElem?_cons_succ] at h
      simp only [List.modify_succ_cons, caps]
      have := ih bi b x h hx hroom
      omega


def phi (cfg : Cfg) (M : Nat) (s : St) : Nat :=
  (cfg.iterations * cfg.numBrackets - 1 - pos s) * M + caps cfg s.brackets

theorem cap_new_round0 (cfg : Cfg) (num : Nat) : (newBracket num).rounds[0]? = some [] := by
  simp [newBracket]

/-- what one `populate_space` does to the potential -/
theorem populate_phi (o : O) (c : Nat) (cfg : Cfg) (M : Nat) (h : HInv cfg o) (hs : SweepInv cfg o.alg)
    (hpos : ∀ b, 0 < cfg.size b 0) (hM : ∀ num, num < cfg.numBrackets → cap cfg (newBracket num) ≤ M) :
    phi cfg M (populate o c).1 ≤ phi cfg M o.alg ∧
    (∀ v, (populate o c).2 = .run v → phi cfg M (populate o c).1 + 1 ≤ phi cfg M o.alg) := by
  have hcfg : o.alg.cfg = cfg := h.cfg_eq
  have hall : AllB cfg o.trials.length (o.alg.brackets.filter (fun b => !completeBracket cfg b)) := allB_filter _ h.allB
  have hfil : caps cfg (o.alg.brackets.filter (fun b => !completeBracket cfg b)) ≤ caps cfg o.alg.brackets := caps_filter_le _ _ _
  unfold populate
  simp only [hcfg]
  split
  · -- .random bi
    rename_i bi hscan
    obtain ⟨j, b', r0, rest, hbi, hb', hr, hlt⟩ := scan_random_spec o cfg _ 0 bi hscan
    have hbi' : bi = j := by omega
    subst hbi'
    rw [hb']
    simp only []
    cases c with
    | zero =>
      simp only [randomIn]
      refine ⟨?_, ?_⟩
      · simp only [phi, pos, hcfg]; omega
      · intro v hv; split at hv <;> cases hv
    | succ k =>
      simp only [randomIn]
      have hx : b'.rounds[0]? = some r0 := by rw [hr]; rfl
      have hm := caps_modify cfg ⟨o.trials.length, none⟩ 0 _ bi b' r0 hb' hx (by omega)
      refine ⟨?_, ?_⟩
      · simp only [phi, pos, hcfg]; omega
      · intro v _; simp only [phi, pos, hcfg]; omega
  · -- .promote bi r pid
    rename_i bi r pid hscan
    obtain ⟨j, b, hbi, hb, htp⟩ := scan_promote_spec o cfg _ 0 bi r pid hscan
    have hbi' : bi = j := by omega
    subst hbi'
    obtain ⟨jj, prev, cur, hr, hprev, hcur, hsz, _⟩ := tryPromote_spec o cfg b b.rounds 0 r pid htp
    rw [hb]
    cases hpt : o.trials[pid]? with
    | none =>
      simp only []
      refine ⟨?_, ?_⟩
      · simp only [phi, pos, hcfg]; omega
      · intro v hv; cases hv
    | some pt =>
      simp only []
      have hB : BInv cfg o.trials.length b := hall b (List.mem_of_getElem? hb)
      have hcnt := candidates_count o prev cur (hB.ids_nodup jj prev hprev) (hB.past_nodup (jj + 1) cur hcur)
        (hB.past_sub jj prev cur hprev hcur)
      have hplen := hB.past_len jj cur hcur
      have hpsz := hB.size_ok jj prev hprev
      have hr' : r = jj + 1 := by omega
      subst hr'
      have hroom : cur.length + 1 ≤ cfg.size b.num (jj + 1) := by
        simp only [Nat.zero_add] at hsz
        omega
      have hm := caps_modify cfg ⟨o.trials.length, some pid⟩ (jj + 1) _ bi b cur hb hcur hroom
      refine ⟨?_, ?_⟩
      · simp only [phi, pos, hcfg]; omega
      · intro v _; simp only [phi, pos, hcfg]; omega
  · -- nothing to run in the open brackets
    split
    · refine ⟨?_, ?_⟩
      · simp only [phi, pos, hcfg]; omega
      · intro v hv; split at hv <;> cases hv
    · rename_i hstop
      obtain ⟨h1, h2, h3⟩ := nextBracket_pos o.alg cfg hs (by rw [hcfg]; exact hstop)
      have hcapnew := hM _ h1
      -- position of the state with the new bracket
      have hposlt : o.alg.currentIteration * cfg.numBrackets + (cfg.numBrackets - 1 - o.alg.currentBracket) + 1 <
          cfg.iterations * cfg.numBrackets := by
        have hinv' : SweepInv cfg { o.alg with currentBracket := (nextBracket o.alg).1, currentIteration := (nextBracket o.alg).2 } :=
          ⟨hcfg, h1, h2⟩
        have := pos_bound cfg _ hinv'
        simp only [pos, hcfg] at this
        omega
      have hmul : (cfg.iterations * cfg.numBrackets - 1 - (o.alg.currentIteration * cfg.numBrackets + (cfg.numBrackets - 1 - o.alg.currentBracket) + 1)) * M + M =
          (cfg.iterations * cfg.numBrackets - 1 - (o.alg.currentIteration * cfg.numBrackets + (cfg.numBrackets - 1 - o.alg.currentBracket))) * M := by
        have : cfg.iterations * cfg.numBrackets - 1 - (o.alg.currentIteration * cfg.numBrackets + (cfg.numBrackets - 1 - o.alg.currentBracket)) =
            (cfg.iterations * cfg.numBrackets - 1 - (o.alg.currentIteration * cfg.numBrackets + (cfg.numBrackets - 1 - o.alg.currentBracket) + 1)) + 1 := by omega
        rw [this, Nat.add_mul]; omega
      cases c with
      | zero =>
        simp only [randomIn]
        refine ⟨?_, ?_⟩
        · simp only [phi, pos, hcfg, caps_append, caps, h3]
          omega
        · intro v hv; split at hv <;> cases hv
      | succ k =>
        simp only [randomIn]
        have hget : (o.alg.brackets.filter (fun b => !completeBracket cfg b) ++ [newBracket (nextBracket o.alg).1])[
            (o.alg.brackets.filter (fun b => !completeBracket cfg b)).length]? = some (newBracket (nextBracket o.alg).1) := by
          simp
        have hm := caps_modify cfg ⟨o.trials.length, none⟩ 0 _ _ _ [] hget (cap_new_round0 cfg _) (by
          have := hpos (newBracket (nextBracket o.alg).1).num
          simp only [List.length_nil]; omega)
        rw [caps_append] at hm
        simp only [caps] at hm
        refine ⟨?_, ?_⟩
        · simp only [phi, pos, hcfg, h3]; omega
        · intro v _; simp only [phi, pos, hcfg, h3]; omega

/-- trials handed out so far plus the potential never grows -/
def J (cfg : Cfg) (M B : Nat) (o : O) : Prop := o.trials.length + phi cfg M o.alg ≤ B

theorem create_J (o : O) (tuner c : Nat) (cfg : Cfg) (M B : Nat) (h : HInv cfg o) (hs : SweepInv cfg o.alg)
    (hpos : ∀ b, 0 < cfg.size b 0) (hM : ∀ num, num < cfg.numBrackets → cap cfg (newBracket num) ≤ M)
    (hj : J cfg M B o) : J cfg M B (create alg o tuner c).1 := by
  unfold create
  cases holds o tuner with
  | some id =>
    simp only []
    cases o.trials[id]? <;> exact hj
  | none =>
    simp only []
    cases ({ o with tunerIds := addTuner o.tunerIds tuner } : O).retryQ.getLast? with
    | some rid =>
      simp only []
      cases ({ o with tunerIds := addTuner o.tunerIds tuner } : O).trials[rid]? with
      | some t => simpa [J, length_setTrial] using hj
      | none => exact hj
    | none =>
      simp only []
      split
      · exact hj
      · have halg : alg.populate { o with tunerIds := addTuner o.tunerIds tuner } c =
            populate { o with tunerIds := addTuner o.tunerIds tuner } c := rfl
        rw [halg]
        have hp := populate_phi { o with tunerIds := addTuner o.tunerIds tuner } c cfg M ⟨h.cfg_eq, h.allB⟩ hs hpos hM
        cases hpop : populate { o with tunerIds := addTuner o.tunerIds tuner } c with
        | mk a pop =>
          rw [hpop] at hp
          cases pop with
          | run v =>
            have := hp.2 v rfl
            dsimp only at this
            simp only [J, List.length_append, List.length_cons, List.length_nil] at hj ⊢
            omega
          | idle =>
            have := hp.1
            dsimp only at this
            simp only [J] at hj ⊢
            omega
          | stop =>
            have := hp.1
            dsimp only at this
            simp only [J] at hj ⊢
            omega

theorem step_J (o : O) (op : Op) (cfg : Cfg) (M B : Nat) (h : HInv cfg o) (hs : SweepInv cfg o.alg)
    (hpos : ∀ b, 0 < cfg.size b 0) (hM : ∀ num, num < cfg.numBrackets → cap cfg (newBracket num) ≤ M)
    (hj : J cfg M B o) : J cfg M B (step alg o op).1 := by
  cases op with
  | create t c => exact create_J o t c cfg M B h hs hpos hM hj
  | update id r =>
    simp only [step, update]
    split
    · simpa [J, length_setTrial] using hj
    · exact hj
  | endT id oc =>
    simp only [step, endT]
    split
    · exact hj
    · split
      · exact hj
      · split
        · simpa [J, length_setTrial, alg] using hj
        · split
          · simpa [J, length_setTrial] using hj
          · simpa [J, length_setTrial, alg] using hj

theorem reach_J (cfg : Cfg) (M B : Nat) (hpos : ∀ b, 0 < cfg.size b 0)
    (hM : ∀ num, num < cfg.numBrackets → cap cfg (newBracket num) ≤ M) (ops : List Op) :
    ∀ (o : O), HInv cfg o → SweepInv cfg o.alg → J cfg M B o → J cfg M B (run alg o ops) := by
  induction ops with
  | nil => intro o _ _ hj; exact hj
  | cons op ops ih =>
    intro o h hs hj
    have h1 := hinv_step cfg o h hpos op
    have hs1 := (sweep_step cfg o hs op).1
    have hj1 := step_J o op cfg M B h hs hpos hM hj
    simp only [run]
    split
    · exact hj1
    · exact ih _ h1 hs1 hj1

/-- **the number of trials of a Hyperband search is bounded by its schedule**: with `M` a bound on the places of one bracket
    (`Σ_r size(b, r)`), every state any request list can reach holds at most `iterations · numBrackets · M` trials -/
theorem trials_bounded (cfg : Cfg) (M : Nat) (hnb : 0 < cfg.numBrackets) (hit : 0 < cfg.iterations)
    (hpos : ∀ b, 0 < cfg.size b 0) (hM : ∀ num, num < cfg.numBrackets → cap cfg (newBracket num) ≤ M) (ops : List Op) :
    (run alg (init cfg) ops).trials.length ≤ cfg.iterations * cfg.numBrackets * M := by
  have hj0 : J cfg M (cfg.iterations * cfg.numBrackets * M) (init cfg) := by
    have hc := hM (cfg.numBrackets - 1) (by omega)
    have hT : 0 < cfg.iterations * cfg.numBrackets := Nat.mul_pos hit hnb
    simp only [J, phi, pos, init, Core.init, List.length_nil, caps, Nat.zero_mul, Nat.zero_add, Nat.sub_self, Nat.sub_zero, Nat.add_zero]
    have : cfg.iterations * cfg.numBrackets * M = (cfg.iterations * cfg.numBrackets - 1) * M + M := by
      have : cfg.iterations * cfg.numBrackets = (cfg.iterations * cfg.numBrackets - 1) + 1 := by omega
      rw [this, Nat.add_mul]; simp
    omega
  have := reach_J cfg M _ hpos hM ops (init cfg) (hinv_init cfg) (sweep_init cfg hnb hit) hj0
  simp only [J] at this
  omega

end HB
#print axioms HB.trials_bounded
