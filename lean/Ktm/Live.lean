import Ktm.CoreCount
import Ktm.Props.C02
import Ktm.GridReach
/-! C11 — liveness proper: workers that always finish the trials they are given.

A *worker system* is an oracle plus the set of workers that were told STOPPED. A worker's step is a function of
the oracle state: a worker that holds a trial ends it (with an arbitrary outcome), a worker that holds nothing
asks for one; a worker that was told STOPPED does nothing any more; the failure-streak abort halts everything.
Any interleaving is a list of `Act`s (which worker moves, with which outcome / external choice).

* `productive_bounded` — along EVERY interleaving (any scheduler, fair or not) the number of productive steps
  (a trial handed out, a trial ended) is at most `2 · N · (max_retries + 1)` under a budget of `N` trials, and the
  number of STOPPED answers at most the number of distinct workers: only IDLE answers can repeat.
* `no_livelock` — whenever a worker is answered IDLE, another worker that has not been told STOPPED holds a trial,
  and that worker's next step ends it (`IdleOnlyWhileBusy`, the contract every algorithm meets): in every state in
  which some worker has not been told STOPPED, some such worker's next step is productive or gets STOPPED.

Together: under any scheduler that lets every worker move again and again, after at most
`2·N·(R+1) + W` non-IDLE steps every worker has been told STOPPED (or the search was aborted by the failure streak);
IDLE steps are bounded between two productive ones by the scheduler's fairness bound. -/
namespace Live
open Core
variable {V A : Type}

structure Sys (V A : Type) where
  o : Oracle V A
  stopped : List Nat
  halted : Bool

structure Act where
  w : Nat
  oc : Outcome
  c : Nat

/-- what worker `w` does next: finish the trial it holds, else ask for one -/
def wop (o : Oracle V A) (a : Act) : Op :=
  match holds o a.w with
  | some id => .endT id a.oc
  | none => .create a.w a.c

def acts (s : Sys V A) (a : Act) : Bool := !s.halted && !s.stopped.contains a.w

def sstep (alg : Alg V A) (s : Sys V A) (a : Act) : Sys V A :=
  if acts s a then
    let r := step alg s.o (wop s.o a)
    match r.2 with
    | .abort => { s with o := r.1, halted := true }
    | .stopped => { s with o := r.1, stopped := s.stopped ++ [a.w] }
    | _ => { s with o := r.1 }
  else s

def srun (alg : Alg V A) : Sys V A → List Act → Sys V A
  | s, [] => s
  | s, a :: as => srun alg (sstep alg s a) as

def prodOut0 : Out V → Nat
  | .trial _ _ => 1
  | .ok => 1
  | _ => 0

/-- 1 for a step that hands out or ends a trial -/
def productive (alg : Alg V A) (s : Sys V A) (a : Act) : Nat :=
  if acts s a then prodOut0 (step alg s.o (wop s.o a)).2 else 0

def productiveCount (alg : Alg V A) : Sys V A → List Act → Nat
  | _, [] => 0
  | s, a :: as => productive alg s a + productiveCount alg (sstep alg s a) as

/-- the potential: twice the runs still available, plus the trials in flight -/
def phi (N : Nat) (o : Oracle V A) : Nat := 2 * (N * (o.maxRetries + 1) - psi o) + o.ongoing.length

/-- workers told STOPPED hold nothing -/
def SInv (s : Sys V A) : Prop := ∀ w ∈ s.stopped, holds s.o w = none

theorem length_filter_ne (l : List (Nat × Nat)) (id : Nat) (hnd : (l.map (·.2)).Nodup) (hm : id ∈ l.map (·.2)) :
    (l.filter (fun p => p.2 != id)).length + 1 = l.length := by
  induction l with
  | nil => simp at hm
  | cons p l ih =>
    simp only [List.map_cons, List.nodup_cons] at hnd
    simp only [List.map_cons, List.mem_cons] at hm
    by_cases hp : p.2 = id
    · have hnot : id ∉ l.map (·.2) := hp ▸ hnd.1
      have hall : l.filter (fun q => q.2 != id) = l := by
        apply List.filter_eq_self.mpr
        intro q hq
        have : q.2 ≠ id := fun h => hnot (List.mem_map.mpr ⟨q, hq, h⟩)
        simpa using this
      simp [List.filter_cons, hp, hall]
    · have hm' : id ∈ l.map (·.2) := by
        rcases hm with h | h
        · exact absurd h.symm hp
        · exact h
      have := ih hnd.2 hm'
      simp [List.filter_cons, hp]
      omega

abbrev prodOut : Out V → Nat := prodOut0

theorem end_ok_ongoing (alg : Alg V A) (o : Oracle V A) (id : Nat) (oc : Outcome) (t : Trial V)
    (ht : o.trials[id]? = some t) (hio : isOngoing o id = true) (hna : (endT alg o id oc).2 ≠ .abort) :
    (endT alg o id oc).2 = .ok ∧ (endT alg o id oc).1.ongoing = o.ongoing.filter (fun p => p.2 != id) ∧
    (endT alg o id oc).1.maxTrials = o.maxTrials := by
  unfold endT at hna ⊢
  simp only [ht, hio, Bool.not_true, Bool.false_eq_true, if_false] at hna ⊢
  split
  · exact ⟨rfl, rfl, rfl⟩
  · rename_i hr
    simp only [hr, Bool.false_eq_true, if_false] at hna
    split
    · rename_i hs
      simp only [hs, if_true] at hna
      exact absurd rfl hna
    · exact ⟨rfl, rfl, rfl⟩

theorem create_maxTrials (alg : Alg V A) (o : Oracle V A) (tuner c : Nat) :
    (create alg o tuner c).1.maxTrials = o.maxTrials := by
  unfold create
  split
  · split <;> rfl
  · simp only
    split
    · split <;> rfl
    · split
      · rfl
      · split <;> rfl

/-- one non-aborting worker step: invariants kept, budget/configuration kept, and the potential drops by the
    productivity of the step (it never rises) -/
theorem wstep_account (alg : Alg V A) (N : Nat) (o : Oracle V A) (a : Act) (h : Inv o) (k : KInv o)
    (hlenN : (step alg o (wop o a)).1.trials.length ≤ N) (hna : (step alg o (wop o a)).2 ≠ .abort) :
    Inv (step alg o (wop o a)).1 ∧ KInv (step alg o (wop o a)).1 ∧
    (step alg o (wop o a)).1.maxRetries = o.maxRetries ∧
    phi N (step alg o (wop o a)).1 + prodOut (step alg o (wop o a)).2 ≤ phi N o := by
  have hinv : Inv (step alg o (wop o a)).1 := inv_step alg o _ h hna
  obtain ⟨k', hmr, hlen, hpsi⟩ := step_account alg o (wop o a) h k hna
  -- shape of the step
  have hshape : (step alg o (wop o a)).1.maxTrials = o.maxTrials ∧
      (step alg o (wop o a)).1.ongoing.length + prodOut (step alg o (wop o a)).2
        = o.ongoing.length + 2 * issuedStep alg o (wop o a) := by
    unfold wop at hna ⊢
    cases hh : holds o a.w with
    | some id =>
      simp only [hh, step] at hna ⊢
      have hiss : issuedStep alg o (.endT id a.oc) = 0 := by simp [issuedStep]
      have hmemp : (a.w, id) ∈ o.ongoing := lookup_mem o.ongoing a.w id hh
      have hon : id ∈ o.ongoing.map (·.2) := List.mem_map.mpr ⟨(a.w, id), hmemp, rfl⟩
      obtain ⟨t, ht, _⟩ := h.ongoing_run (a.w, id) hmemp
      have hio : isOngoing o id = true := (isOngoing_iff o id).mpr hon
      obtain ⟨hout, hong, hmt⟩ := end_ok_ongoing alg o id a.oc t ht hio hna
      have hfl := length_filter_ne o.ongoing id h.ongoing_ids hon
      rw [hout, hong, hiss]
      exact ⟨hmt, by simp only [prodOut, prodOut0]; omega⟩
    | none =>
      simp only [hh, step] at hna ⊢
      refine ⟨create_maxTrials alg o a.w a.c, ?_⟩
      have hsh := create_shape alg o a.w a.c
      cases hsh with
      | same ht ho hr he hout =>
        have hnt : ∀ id v, (create alg o a.w a.c).2 ≠ .trial id v := by
          intro id v hc; have := hout id v hc; rw [hh] at this; cases this
        have hiss : issuedStep alg o (.create a.w a.c) = 0 := by
          simp only [issuedStep, step]
          cases hout' : (create alg o a.w a.c).2 with
          | trial id v => exact absurd hout' (hnt id v)
          | _ => rfl
        rw [hiss, ho]
        cases hout' : (create alg o a.w a.c).2 with
        | trial id v => exact absurd hout' (hnt id v)
        | ok =>
          exfalso
          unfold create at hout'
          simp only [hh] at hout'
          split at hout'
          · split at hout' <;> cases hout'
          · split at hout'
            · cases hout'
            · split at hout' <;> cases hout'
        | _ => simp [prodOut, prodOut0]
      | retry rid t hq htr ht ho hr he hout =>
        have hiss : issuedStep alg o (.create a.w a.c) = 1 := by
          simp only [issuedStep, step, hout, hh]; rfl
        rw [hiss, ho, hout]
        simp [prodOut, prodOut0]
      | fresh v ht ho hr he hout hq =>
        have hiss : issuedStep alg o (.create a.w a.c) = 1 := by
          simp only [issuedStep, step, hout, hh]; rfl
        rw [hiss, ho, hout]
        simp [prodOut, prodOut0]
  have hpsib : psi (step alg o (wop o a)).1 ≤ N * (o.maxRetries + 1) := by
    have h1 := psi_le _ k'
    rw [hmr] at h1
    exact Nat.le_trans h1 (Nat.mul_le_mul_right _ hlenN)
  refine ⟨hinv, k', hmr, ?_⟩
  unfold phi
  rw [hmr]
  have := hshape.2
  omega

theorem srun_halted (alg : Alg V A) (as : List Act) : ∀ (s : Sys V A), s.halted = true → srun alg s as = s := by
  induction as with
  | nil => intro s _; rfl
  | cons a as ih =>
    intro s hs
    have hnb : acts s a = false := by simp [acts, hs]
    simp only [srun, sstep, hnb, Bool.false_eq_true, if_false]
    exact ih s hs

/-- the oracle of a worker system is reached by a plain request list -/
theorem srun_run (alg : Alg V A) (as : List Act) : ∀ (s : Sys V A), ∃ ops, (srun alg s as).o = run alg s.o ops := by
  induction as with
  | nil => intro s; exact ⟨[], rfl⟩
  | cons a as ih =>
    intro s
    simp only [srun]
    by_cases hact : acts s a = true
    · simp only [sstep, hact, if_true]
      cases hout : (step alg s.o (wop s.o a)).2 with
      | abort =>
        simp only []
        rw [srun_halted alg as _ rfl]
        exact ⟨[wop s.o a], by simp [run, hout]⟩
      | trial id v =>
        obtain ⟨ops, hops⟩ := ih { s with o := (step alg s.o (wop s.o a)).1 }
        exact ⟨wop s.o a :: ops, by simp only [run, hout]; exact hops⟩
      | ok =>
        obtain ⟨ops, hops⟩ := ih { s with o := (step alg s.o (wop s.o a)).1 }
        exact ⟨wop s.o a :: ops, by simp only [run, hout]; exact hops⟩
      | idle =>
        obtain ⟨ops, hops⟩ := ih { s with o := (step alg s.o (wop s.o a)).1 }
        exact ⟨wop s.o a :: ops, by simp only [run, hout]; exact hops⟩
      | stopped =>
        obtain ⟨ops, hops⟩ := ih { s with o := (step alg s.o (wop s.o a)).1, stopped := s.stopped ++ [a.w] }
        exact ⟨wop s.o a :: ops, by simp only [run, hout]; exact hops⟩
      | bad =>
        obtain ⟨ops, hops⟩ := ih { s with o := (step alg s.o (wop s.o a)).1 }
        exact ⟨wop s.o a :: ops, by simp only [run, hout]; exact hops⟩
    · have hact' : acts s a = false := by simpa using hact
      simp only [sstep, hact', Bool.false_eq_true, if_false]
      exact ih s

/-- **only IDLE answers can repeat**: along every interleaving of any number of workers, with any outcomes, the
    number of productive steps (a trial handed out or ended) is bounded by the potential of the start state, for any
    bound `N` on the number of trials the oracle ever holds (a trial budget, a finite grid, a finite schedule) -/
theorem productive_le_phi (alg : Alg V A) (N : Nat) (as : List Act) : ∀ (s : Sys V A), Inv s.o → KInv s.o →
    (∀ as', (srun alg s as').o.trials.length ≤ N) → productiveCount alg s as ≤ phi N s.o := by
  induction as with
  | nil => intro s _ _ _; simp [productiveCount]
  | cons a as ih =>
    intro s h k hB
    simp only [productiveCount]
    by_cases hact : acts s a = true
    · have hB1 : (step alg s.o (wop s.o a)).1.trials.length ≤ N := by
        have := hB [a]
        simp only [srun, sstep, hact, if_true] at this
        cases hout : (step alg s.o (wop s.o a)).2 <;> simp only [hout] at this <;> exact this
      have hBnext : ∀ as', (srun alg (sstep alg s a) as').o.trials.length ≤ N := fun as' => hB (a :: as')
      simp only [productive, hact, if_true]
      cases hout : (step alg s.o (wop s.o a)).2 with
      | abort =>
        have hrest : ∀ (as : List Act) (s' : Sys V A), s'.halted = true → productiveCount alg s' as = 0 := by
          intro as
          induction as with
          | nil => intro _ _; rfl
          | cons b bs ihb =>
            intro s' hs'
            have hnb : acts s' b = false := by simp [acts, hs']
            simp only [productiveCount, productive, sstep, hnb, Bool.false_eq_true, if_false, Nat.zero_add]
            exact ihb s' hs'
        simp only [sstep, hact, if_true, hout, prodOut0]
        rw [hrest as _ rfl]
        omega
      | trial id v =>
        have hna : (step alg s.o (wop s.o a)).2 ≠ .abort := by rw [hout]; intro hc; cases hc
        obtain ⟨h', k', _, hphi⟩ := wstep_account alg N s.o a h k hB1 hna
        simp only [hout, prodOut, prodOut0] at hphi
        have hs' : sstep alg s a = { s with o := (step alg s.o (wop s.o a)).1 } := by simp only [sstep, hact, if_true, hout]
        have := ih (sstep alg s a) (by rw [hs']; exact h') (by rw [hs']; exact k') hBnext
        rw [hs'] at this
        simp only [prodOut0, hs'] at this ⊢
        omega
      | ok =>
        have hna : (step alg s.o (wop s.o a)).2 ≠ .abort := by rw [hout]; intro hc; cases hc
        obtain ⟨h', k', _, hphi⟩ := wstep_account alg N s.o a h k hB1 hna
        simp only [hout, prodOut, prodOut0] at hphi
        have hs' : sstep alg s a = { s with o := (step alg s.o (wop s.o a)).1 } := by simp only [sstep, hact, if_true, hout]
        have := ih (sstep alg s a) (by rw [hs']; exact h') (by rw [hs']; exact k') hBnext
        rw [hs'] at this
        simp only [prodOut0, hs'] at this ⊢
        omega
      | idle =>
        have hna : (step alg s.o (wop s.o a)).2 ≠ .abort := by rw [hout]; intro hc; cases hc
        obtain ⟨h', k', _, hphi⟩ := wstep_account alg N s.o a h k hB1 hna
        simp only [hout, prodOut, prodOut0] at hphi
        have hs' : sstep alg s a = { s with o := (step alg s.o (wop s.o a)).1 } := by simp only [sstep, hact, if_true, hout]
        have := ih (sstep alg s a) (by rw [hs']; exact h') (by rw [hs']; exact k') hBnext
        rw [hs'] at this
        simp only [prodOut0, hs'] at this ⊢
        omega
      | stopped =>
        have hna : (step alg s.o (wop s.o a)).2 ≠ .abort := by rw [hout]; intro hc; cases hc
        obtain ⟨h', k', _, hphi⟩ := wstep_account alg N s.o a h k hB1 hna
        simp only [hout, prodOut, prodOut0] at hphi
        have hs' : sstep alg s a = { s with o := (step alg s.o (wop s.o a)).1, stopped := s.stopped ++ [a.w] } := by
          simp only [sstep, hact, if_true, hout]
        have := ih (sstep alg s a) (by rw [hs']; exact h') (by rw [hs']; exact k') hBnext
        rw [hs'] at this
        simp only [prodOut0, hs'] at this ⊢
        omega
      | bad =>
        have hna : (step alg s.o (wop s.o a)).2 ≠ .abort := by rw [hout]; intro hc; cases hc
        obtain ⟨h', k', _, hphi⟩ := wstep_account alg N s.o a h k hB1 hna
        simp only [hout, prodOut, prodOut0] at hphi
        have hs' : sstep alg s a = { s with o := (step alg s.o (wop s.o a)).1 } := by simp only [sstep, hact, if_true, hout]
        have := ih (sstep alg s a) (by rw [hs']; exact h') (by rw [hs']; exact k') hBnext
        rw [hs'] at this
        simp only [prodOut0, hs'] at this ⊢
        omega
    · have hact' : acts s a = false := by simpa using hact
      have hs' : sstep alg s a = s := by simp only [sstep, hact', Bool.false_eq_true, if_false]
      simp only [productive, hact', Bool.false_eq_true, if_false, Nat.zero_add, hs']
      exact ih s h k hB

/-- from a fresh oracle with a budget of `N` trials: at most `2 · N · (max_retries + 1)` productive steps, whatever
    the algorithm, the number of workers, the interleaving and the outcomes -/
theorem productive_bounded (alg : Alg V A) (a0 : A) (N maxRetries maxConsec : Nat) (as : List Act) :
    productiveCount alg ⟨init (V := V) a0 (some N) maxRetries maxConsec, [], false⟩ as ≤ 2 * (N * (maxRetries + 1)) := by
  have hB : ∀ as', (srun alg ⟨init (V := V) a0 (some N) maxRetries maxConsec, [], false⟩ as').o.trials.length ≤ N := by
    intro as'
    obtain ⟨ops, hops⟩ := srun_run alg as' ⟨init (V := V) a0 (some N) maxRetries maxConsec, [], false⟩
    rw [hops]
    exact Props.C02.budget_from_init alg a0 N maxRetries maxConsec ops
  have h := productive_le_phi alg N as ⟨init (V := V) a0 (some N) maxRetries maxConsec, [], false⟩
    (inv_init a0 (some N) maxRetries maxConsec) (kinv_init a0 (some N) maxRetries maxConsec) hB
  have hphi : phi N (init (V := V) a0 (some N) maxRetries maxConsec) = 2 * (N * (maxRetries + 1)) := by
    simp [phi, init, psi]
  rw [hphi] at h
  exact h

/-- grid search without a trial limit: the finite grid is the budget — at most `2 · |grid| · (max_retries + 1)`
    productive steps along every interleaving of workers, finishing orders and outcomes -/
theorem grid_productive_bounded (space : List GridSucc.GHP) (hs : Grid.SpaceOK space) (as : List Act) :
    productiveCount Grid.alg ⟨Grid.init space, [], false⟩ as ≤
      2 * ((GridSucc.enum space []).length * ((Grid.init space).maxRetries + 1)) := by
  have hB : ∀ as', (srun Grid.alg ⟨Grid.init space, [], false⟩ as').o.trials.length ≤ (GridSucc.enum space []).length := by
    intro as'
    obtain ⟨ops, hops⟩ := srun_run Grid.alg as' ⟨Grid.init space, [], false⟩
    rw [hops]
    have hg := Grid.ginv_reachable (Grid.init space) hs (Grid.ginv_init space) ops
    cases hn : (run Grid.alg (Grid.init space) ops).trials.length with
    | zero => omega
    | succ k =>
      have hk : k < (run Grid.alg (Grid.init space) ops).trials.length := by omega
      have := hg.1.vals k _ (List.getElem?_eq_getElem hk)
      rw [hg.2] at this
      have := (List.getElem?_eq_some_iff.mp this).1
      have hsp : (Grid.init space).alg.space = space := rfl
      rw [hsp] at this
      omega
  have h := productive_le_phi Grid.alg (GridSucc.enum space []).length as ⟨Grid.init space, [], false⟩
    (by
      have := inv_init (V := GridSucc.Env) ({ space := space, ordered := [], queue := [] } : Grid.St) none 0 1000
      exact this)
    (by intro i t ht; simp [Grid.init, Core.init] at ht) hB
  have hphi : phi (GridSucc.enum space []).length (Grid.init space)
      = 2 * ((GridSucc.enum space []).length * ((Grid.init space).maxRetries + 1)) := by
    simp [phi, Grid.init, Core.init, psi]
  rw [hphi] at h
  exact h

/-! ### progress -/

/-- the contract every search algorithm of the library satisfies (C11): "wait" only while some trial runs -/
def IdleOnlyWhileBusy (alg : Alg V A) : Prop :=
  ∀ (o : Oracle V A) (c : Nat) (a : A), alg.populate o c = (a, .idle) → o.ongoing ≠ []

theorem create_idle_ongoing (alg : Alg V A) (hc : IdleOnlyWhileBusy alg) (o : Oracle V A) (tuner c : Nat)
    (hout : (create alg o tuner c).2 = .idle) : o.ongoing ≠ [] := by
  unfold create at hout
  cases hh : holds o tuner with
  | some id => simp only [hh] at hout; split at hout <;> cases hout
  | none =>
    simp only [hh] at hout
    cases hq : o.retryQ.getLast? with
    | some rid => simp only [hq] at hout; split at hout <;> cases hout
    | none =>
      simp only [hq] at hout
      split at hout
      · cases hout
      · cases hp : alg.populate { o with tunerIds := addTuner o.tunerIds tuner } c with
        | mk a pop =>
          cases pop with
          | run v => simp only [hp] at hout; cases hout
          | idle => exact hc { o with tunerIds := addTuner o.tunerIds tuner } c a hp
          | stop => simp only [hp] at hout; cases hout

/-- a worker that holds a trial ends it: its step is answered `ok` or with the abort, never IDLE -/
theorem holder_step_not_idle (alg : Alg V A) (o : Oracle V A) (h : Inv o) (a : Act) (id : Nat)
    (hh : holds o a.w = some id) :
    (step alg o (wop o a)).2 = .ok ∨ (step alg o (wop o a)).2 = .abort := by
  have hmemp : (a.w, id) ∈ o.ongoing := lookup_mem o.ongoing a.w id hh
  have hon : id ∈ o.ongoing.map (·.2) := List.mem_map.mpr ⟨(a.w, id), hmemp, rfl⟩
  obtain ⟨t, ht, _⟩ := h.ongoing_run (a.w, id) hmemp
  have hio : isOngoing o id = true := (isOngoing_iff o id).mpr hon
  simp only [wop, hh, step]
  unfold endT
  simp only [ht, hio, Bool.not_true, Bool.false_eq_true, if_false]
  split
  · exact Or.inl rfl
  · split
    · exact Or.inr rfl
    · exact Or.inl rfl

/-- **no livelock**: whenever a worker that has not been told STOPPED moves, either its step is not answered IDLE,
    or — it is told to wait — another worker that has not been told STOPPED holds a trial, and that worker's next
    step, with whatever outcome, ends it (answer `ok`, or the failure-streak abort): waiting is never for nothing -/
theorem no_livelock (alg : Alg V A) (hc : IdleOnlyWhileBusy alg) (s : Sys V A) (h : Inv s.o) (hs : SInv s) (a : Act) :
    (step alg s.o (wop s.o a)).2 ≠ .idle ∨
    ∃ w', w' ≠ a.w ∧ w' ∉ s.stopped ∧ (holds s.o w').isSome ∧
      ∀ (oc : Outcome) (c : Nat), (step alg s.o (wop s.o ⟨w', oc, c⟩)).2 = .ok ∨ (step alg s.o (wop s.o ⟨w', oc, c⟩)).2 = .abort := by
  by_cases hidle : (step alg s.o (wop s.o a)).2 = .idle
  · right
    have hhold : holds s.o a.w = none := by
      cases hh : holds s.o a.w with
      | none => rfl
      | some id =>
        rcases holder_step_not_idle alg s.o h a id hh with h1 | h1 <;> rw [h1] at hidle <;> cases hidle
    have hcr : (create alg s.o a.w a.c).2 = .idle := by simpa [wop, hhold, step] using hidle
    have hne := create_idle_ongoing alg hc s.o a.w a.c hcr
    obtain ⟨p, hp⟩ := List.exists_mem_of_ne_nil _ hne
    have hnd := h.ongoing_tuners
    have hlook : holds s.o p.1 = some p.2 := by
      unfold holds
      have : ∀ (l : List (Nat × Nat)), (l.map (·.1)).Nodup → p ∈ l → l.lookup p.1 = some p.2 := by
        intro l
        induction l with
        | nil => intro _ hm; cases hm
        | cons q l ih =>
          intro hnd hm
          simp only [List.map_cons, List.nodup_cons] at hnd
          simp only [List.mem_cons] at hm
          rcases hm with rfl | hm
          · simp [List.lookup]
          · have hne : ¬ (p.1 == q.1) = true := by
              intro heq
              have : q.1 ∈ l.map (·.1) := by
                have hpq : p.1 = q.1 := by simpa using heq
                exact hpq ▸ List.mem_map.mpr ⟨p, hm, rfl⟩
              exact hnd.1 this
            simp only [List.lookup]
            split
            · rename_i heq; exact absurd heq hne
            · exact ih hnd.2 hm
      exact this _ hnd hp
    have hpw : p.1 ≠ a.w := by
      intro heq; rw [heq] at hlook; rw [hhold] at hlook; cases hlook
    refine ⟨p.1, hpw, ?_, by rw [hlook]; rfl, ?_⟩
    · intro hmem
      have := hs p.1 hmem
      rw [hlook] at this; cases this
    · intro oc' c'
      exact holder_step_not_idle alg s.o h ⟨p.1, oc', c'⟩ p.2 hlook
  · exact Or.inl hidle

/-- `SInv` is kept: a worker is told STOPPED only by `create`, i.e. while holding nothing, and afterwards no request
    of its own changes that; other workers' steps never give it a trial -/
theorem sinv_step (alg : Alg V A) (s : Sys V A) (a : Act) (hs : SInv s) : SInv (sstep alg s a) := by
  unfold sstep
  by_cases hact : acts s a = true
  · simp only [hact, if_true]
    have hwn : a.w ∉ s.stopped := by
      simp only [acts, Bool.and_eq_true, Bool.not_eq_true'] at hact
      intro hm
      have : s.stopped.contains a.w = true := by simpa using hm
      rw [this] at hact; exact absurd hact.2 (by simp)
    -- holdings of workers other than a.w are untouched by a.w's step
    have hother : ∀ w, w ≠ a.w → holds s.o w = none → holds (step alg s.o (wop s.o a)).1 w = none := by
      intro w hne hnone
      unfold wop
      cases hh : holds s.o a.w with
      | some id =>
        simp only [step]
        unfold endT
        split
        · exact hnone
        · split
          · exact hnone
          · simp only
            have hfil : ∀ (l : List (Nat × Nat)), l.lookup w = none → (l.filter (fun p => p.2 != id)).lookup w = none := by
              intro l
              induction l with
              | nil => intro _; rfl
              | cons q l ih =>
                intro hl
                simp only [List.lookup] at hl
                split at hl
                · cases hl
                · rename_i hneq
                  simp only [List.filter_cons]
                  split
                  · simp only [List.lookup, hneq]; exact ih hl
                  · exact ih hl
            split
            · exact hfil _ hnone
            · split
              · exact hnone
              · exact hfil _ hnone
      | none =>
        simp only [step]
        have hsh := create_shape alg s.o a.w a.c
        have happ : ∀ (l : List (Nat × Nat)) (x : Nat), l.lookup w = none → (l ++ [(a.w, x)]).lookup w = none := by
          intro l x
          induction l with
          | nil =>
            intro _
            simp only [List.nil_append, List.lookup]
            have : (w == a.w) = false := by simpa using hne
            simp [this]
          | cons q l ih =>
            intro hl
            simp only [List.lookup] at hl
            split at hl
            · cases hl
            · rename_i hneq
              simp only [List.cons_append, List.lookup, hneq]; exact ih hl
        cases hsh with
        | same ht ho hr he hout => unfold holds; rw [ho]; exact hnone
        | retry rid t hq htr ht ho hr he hout => unfold holds; rw [ho]; exact happ _ _ hnone
        | fresh v ht ho hr he hout hq => unfold holds; rw [ho]; exact happ _ _ hnone
    have hstopped_holds : (step alg s.o (wop s.o a)).2 = .stopped → holds (step alg s.o (wop s.o a)).1 a.w = none := by
      intro hout
      unfold wop at hout ⊢
      cases hh : holds s.o a.w with
      | some id =>
        simp only [hh, step] at hout
        exfalso
        unfold endT at hout
        split at hout
        · cases hout
        · split at hout
          · cases hout
          · simp only at hout
            split at hout
            · cases hout
            · split at hout <;> cases hout
      | none =>
        simp only [hh, step] at hout ⊢
        have hsh := create_shape alg s.o a.w a.c
        cases hsh with
        | same ht ho hr he hout' => unfold holds; rw [ho]; exact hh
        | retry rid t hq htr ht ho hr he hout' => rw [hout'] at hout; cases hout
        | fresh v ht ho hr he hout' hq => rw [hout'] at hout; cases hout
    have hbase : ∀ w ∈ s.stopped, holds (step alg s.o (wop s.o a)).1 w = none := by
      intro w hw
      exact hother w (fun heq => hwn (heq ▸ hw)) (hs w hw)
    cases hout : (step alg s.o (wop s.o a)).2 with
    | stopped =>
      intro w hw
      simp only [List.mem_append, List.mem_singleton] at hw
      rcases hw with hw | rfl
      · exact hbase w hw
      · exact hstopped_holds hout
    | abort => exact hbase
    | trial id v => exact hbase
    | idle => exact hbase
    | ok => exact hbase
    | bad => exact hbase
  · simp only [hact, Bool.false_eq_true, if_false]; exact hs

/-- STOPPED is answered to each worker at most once: the list of stopped workers never holds a worker twice -/
theorem stopped_nodup_step (alg : Alg V A) (s : Sys V A) (a : Act) (hn : s.stopped.Nodup) : (sstep alg s a).stopped.Nodup := by
  unfold sstep
  by_cases hact : acts s a = true
  · simp only [hact, if_true]
    have hwn : a.w ∉ s.stopped := by
      simp only [acts, Bool.and_eq_true, Bool.not_eq_true'] at hact
      intro hm
      have : s.stopped.contains a.w = true := by simpa using hm
      rw [this] at hact; exact absurd hact.2 (by simp)
    cases (step alg s.o (wop s.o a)).2 with
    | stopped =>
      simp only
      exact List.nodup_append.mpr ⟨hn, by simp, by intro x hx y hy hxy; simp at hy; subst hy; subst hxy; exact hwn hx⟩
    | _ => exact hn
  · simp only [hact, Bool.false_eq_true, if_false]; exact hn

/-- non-vacuity: two workers, budget 2, every run INVALID with one retry allowed: round-robin for 8 rounds; all four
    runs happen (8 productive steps = the bound 2·2·(1+1)), then both workers are told STOPPED -/
def demo : Bool :=
  let alg : Alg Nat Unit := { populate := fun _ c => ((), .run c), onEnd := fun a _ => a, scoreOf := fun l => l.getLast?.join }
  let s0 : Sys Nat Unit := ⟨init () (some 2) 1 9, [], false⟩
  let sched : List Act := (List.range 8).flatMap (fun _ => [⟨0, .invalid, 5⟩, ⟨1, .invalid, 6⟩])
  let s := srun alg s0 sched
  productiveCount alg s0 sched == 8 && s.stopped == [0, 1] && !s.halted
example : demo = true := by decide

end Live
#print axioms Live.productive_bounded
#print axioms Live.no_livelock
#print axioms Live.sinv_step
