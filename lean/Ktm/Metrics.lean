/-! C18 prototype: per-step observations, executions averaged, best value ignoring NaN. -/
namespace Metrics

inductive FV | nan | fin (q : Rat)
  deriving DecidableEq, Repr

def FV.add : FV → FV → FV
  | .fin a, .fin b => .fin (a + b)
  | _, _ => .nan

def sum : List FV → FV
  | [] => .fin 0
  | x :: xs => FV.add x (sum xs)

def mean (l : List FV) : FV :=
  match sum l with
  | .fin s => .fin (s / (l.length : Rat))
  | .nan => .nan

structure Obs where
  step : Int
  vals : List FV

/-- `MetricHistory.update`: append to the observation of that step, or create it (insertion order kept) -/
def update : List Obs → Int → FV → List Obs
  | [], s, v => [⟨s, [v]⟩]
  | o :: os, s, v => if o.step = s then ⟨s, o.vals ++ [v]⟩ :: os else o :: update os s v

/-- better-or-equal in the metric's direction -/
def leDir (minimize : Bool) (a b : Rat) : Bool := if minimize then decide (a ≤ b) else decide (b ≤ a)

/-- `np.nanmin` / `np.nanmax` over the per-step means: NaN entries are ignored -/
def nanBest (minimize : Bool) : List FV → Option Rat
  | [] => none
  | .nan :: xs => nanBest minimize xs
  | .fin a :: xs =>
    match nanBest minimize xs with
    | none => some a
    | some b => if leDir minimize a b then some a else some b

/-- `get_best_value`: None when nothing was reported, NaN when every mean is NaN -/
def bestValue (minimize : Bool) (h : List Obs) : Option FV :=
  if h = [] then none else
  match nanBest minimize (h.map (fun o => mean o.vals)) with
  | some b => some (.fin b)
  | none => some .nan

/-- `get_best_step`: first observation (insertion order) whose mean equals the best value -/
def bestStep (minimize : Bool) (h : List Obs) : Option Int :=
  match nanBest minimize (h.map (fun o => mean o.vals)) with
  | some b => (h.find? (fun o => mean o.vals == .fin b)).map (·.step)
  | none => none

theorem leDir_total (m : Bool) (a b : Rat) : leDir m a b = true ∨ leDir m b a = true := by
  unfold leDir; cases m <;> simp <;> exact Rat.le_total

theorem leDir_trans (m : Bool) (a b c : Rat) (h1 : leDir m a b = true) (h2 : leDir m b c = true) :
    leDir m a c = true := by
  unfold leDir at *; cases m <;> simp_all <;> exact Rat.le_trans (by assumption) (by assumption)

theorem leDir_refl (m : Bool) (a : Rat) : leDir m a a = true := by
  unfold leDir; cases m <;> simp <;> exact Rat.le_refl

/-- the best value is attained and is at least as good as every non-NaN mean -/
theorem nanBest_spec (m : Bool) (l : List FV) :
    match nanBest m l with
    | some b => FV.fin b ∈ l ∧ ∀ a, FV.fin a ∈ l → leDir m b a = true
    | none => ∀ a, FV.fin a ∉ l := by
  induction l with
  | nil => simp [nanBest]
  | cons x xs ih =>
    cases x with
    | nan =>
      simp only [nanBest]
      cases hb : nanBest m xs with
      | none => simp only [hb] at ih; intro a ha; simp at ha; exact ih a ha
      | some b =>
        simp only [hb] at ih
        exact ⟨List.mem_cons_of_mem _ ih.1, fun a ha => by simp at ha; exact ih.2 a ha⟩
    | fin a =>
      simp only [nanBest]
      cases hb : nanBest m xs with
      | none =>
        simp only [hb] at ih
        refine ⟨by simp, fun a' ha' => ?_⟩
        simp at ha'
        rcases ha' with ha' | ha'
        · subst ha'; exact leDir_refl m _
        · exact absurd ha' (ih a')
      | some b =>
        simp only [hb] at ih
        by_cases hab : leDir m a b = true
        · simp only [hab, if_true]
          refine ⟨by simp, fun a' ha' => ?_⟩
          simp at ha'
          rcases ha' with ha' | ha'
          · subst ha'; exact leDir_refl m _
          · exact leDir_trans m _ _ _ hab (ih.2 a' ha')
        · simp only [hab]
          have hba : leDir m b a = true := by
            rcases leDir_total m a b with h | h
            · exact absurd h hab
            · exact h
          refine ⟨List.mem_cons_of_mem _ ih.1, fun a' ha' => ?_⟩
          simp at ha'
          rcases ha' with ha' | ha'
          · subst ha'; exact hba
          · exact ih.2 a' ha'

/-- the best step attains the best value -/
theorem bestStep_attains (m : Bool) (h : List Obs) (s : Int) (hs : bestStep m h = some s) :
    ∃ o ∈ h, o.step = s ∧ bestValue m h = some (mean o.vals) := by
  unfold bestStep at hs
  cases hb : nanBest m (h.map (fun o => mean o.vals)) with
  | none => simp [hb] at hs
  | some b =>
    simp only [hb, Option.map_eq_some_iff] at hs
    obtain ⟨o, ho, hst⟩ := hs
    have hmem := List.mem_of_find?_eq_some ho
    have hp := List.find?_some ho
    have hne : h ≠ [] := by intro hn; subst hn; simp at hmem
    refine ⟨o, hmem, hst, ?_⟩
    simp only [bestValue, hne, if_false, hb]
    have : mean o.vals = .fin b := by simpa using hp
    rw [this]

end Metrics
#print axioms Metrics.nanBest_spec
#print axioms Metrics.bestStep_attains
