import Ktm.Sc
/-! C18 prototype: per-step observations, executions averaged, best value ignoring NaN. -/
namespace Metrics

inductive FV | nan | val (s : Sc)
  deriving DecidableEq, Repr

/-- IEEE addition as numpy's `mean` performs it: NaN absorbs, `inf + (-inf)` is NaN -/
def FV.add : FV → FV → FV
  | .val a, .val b => match Sc.add a b with | some c => .val c | none => .nan
  | _, _ => .nan

def sum : List FV → FV
  | [] => .val (.fin 0)
  | x :: xs => FV.add x (sum xs)

def mean (l : List FV) : FV :=
  match sum l with
  | .val s => .val (s.divNat l.length)
  | .nan => .nan

structure Obs where
  step : Int
  vals : List FV

/-- `MetricHistory.update`: append to the observation of that step, or create it (insertion order kept) -/
def update : List Obs → Int → FV → List Obs
  | [], s, v => [⟨s, [v]⟩]
  | o :: os, s, v => if o.step = s then ⟨s, o.vals ++ [v]⟩ :: os else o :: update os s v

/-- better-or-equal in the metric's direction -/
def leDir (minimize : Bool) (a b : Sc) : Bool := if minimize then Sc.le a b else Sc.le b a

/-- `np.nanmin` / `np.nanmax` over the per-step means: NaN entries are ignored -/
def nanBest (minimize : Bool) : List FV → Option Sc
  | [] => none
  | .nan :: xs => nanBest minimize xs
  | .val a :: xs =>
    match nanBest minimize xs with
    | none => some a
    | some b => if leDir minimize a b then some a else some b

/-- `get_best_value`: None when nothing was reported, NaN when every mean is NaN -/
def bestValue (minimize : Bool) (h : List Obs) : Option FV :=
  if h = [] then none else
  match nanBest minimize (h.map (fun o => mean o.vals)) with
  | some b => some (.val b)
  | none => some .nan

/-- `get_best_step`: first observation (insertion order) whose mean equals the best value -/
def bestStep (minimize : Bool) (h : List Obs) : Option Int :=
  match nanBest minimize (h.map (fun o => mean o.vals)) with
  | some b => (h.find? (fun o => mean o.vals == .val b)).map (·.step)
  | none => none

theorem leDir_total (m : Bool) (a b : Sc) : leDir m a b = true ∨ leDir m b a = true := by
  unfold leDir; cases m <;> simp
  · exact Sc.le_total' b a
  · exact Sc.le_total' a b

theorem leDir_trans (m : Bool) (a b c : Sc) (h1 : leDir m a b = true) (h2 : leDir m b c = true) :
    leDir m a c = true := by
  unfold leDir at *; cases m <;> simp_all
  · exact Sc.le_trans _ _ _ h2 h1
  · exact Sc.le_trans _ _ _ h1 h2

theorem leDir_refl (m : Bool) (a : Sc) : leDir m a a = true := by
  unfold leDir; cases m <;> simp [Sc.le_refl]

/-- the best value is attained and is at least as good as every non-NaN mean -/
theorem nanBest_spec (m : Bool) (l : List FV) :
    match nanBest m l with
    | some b => FV.val b ∈ l ∧ ∀ a, FV.val a ∈ l → leDir m b a = true
    | none => ∀ a, FV.val a ∉ l := by
  induction l with
  | nil => simp [nanBest]
  | cons x xs ih =>
    cases x with
    | nan =>
      simp only [nanBest]
      cases hb : nanBest m xs with
      | none => simp only [hb] at ih; intro a ha; simp at ha; exact ih a ha
      | some b =>
        simp only [hb] at ih
        exact ⟨List.mem_cons_of_mem _ ih.1, fun a ha => by simp at ha; exact ih.2 a ha⟩
    | val a =>
      simp only [nanBest]
      cases hb : nanBest m xs with
      | none =>
        simp only [hb] at ih
        refine ⟨by simp, fun a' ha' => ?_⟩
        simp at ha'
        rcases ha' with ha' | ha'
        · subst ha'; exact leDir_refl m _
        · exact absurd ha' (ih a')
      | some b =>
        simp only [hb] at ih
        by_cases hab : leDir m a b = true
        · simp only [hab, if_true]
          refine ⟨by simp, fun a' ha' => ?_⟩
          simp at ha'
          rcases ha' with ha' | ha'
          · subst ha'; exact leDir_refl m _
          · exact leDir_trans m _ _ _ hab (ih.2 a' ha')
        · simp only [hab]
          have hba : leDir m b a = true := by
            rcases leDir_total m a b with h | h
            · exact absurd h hab
            · exact h
          refine ⟨List.mem_cons_of_mem _ ih.1, fun a' ha' => ?_⟩
          simp at ha'
          rcases ha' with ha' | ha'
          · subst ha'; exact hba
          · exact ih.2 a' ha'

/-- the best step attains the best value -/
theorem bestStep_attains (m : Bool) (h : List Obs) (s : Int) (hs : bestStep m h = some s) :
    ∃ o ∈ h, o.step = s ∧ bestValue m h = some (mean o.vals) := by
  unfold bestStep at hs
  cases hb : nanBest m (h.map (fun o => mean o.vals)) with
  | none => simp [hb] at hs
  | some b =>
    simp only [hb, Option.map_eq_some_iff] at hs
    obtain ⟨o, ho, hst⟩ := hs
    have hmem := List.mem_of_find?_eq_some ho
    have hp := List.find?_some ho
    have hne : h ≠ [] := by intro hn; subst hn; simp at hmem
    refine ⟨o, hmem, hst, ?_⟩
    simp only [bestValue, hne, if_false, hb]
    have : mean o.vals = .val b := by simpa using hp
    rw [this]

end Metrics
#print axioms Metrics.nanBest_spec
#print axioms Metrics.bestStep_attains

namespace Metrics

theorem add_nan_left (b : FV) : FV.add .nan b = .nan := by cases b <;> rfl
theorem add_nan_right (a : FV) : FV.add a .nan = .nan := by cases a <;> rfl

/-- one NaN among the executions reported at a step makes the sum, hence the mean, of that step NaN (numpy's `mean`, not `nanmean`) -/
theorem sum_nan_of_mem (l : List FV) (h : FV.nan ∈ l) : sum l = .nan := by
  induction l with
  | nil => cases h
  | cons x xs ih =>
    simp only [sum]
    rcases List.mem_cons.mp h with hx | hx
    · rw [← hx]; exact add_nan_left _
    · rw [ih hx]; exact add_nan_right _

theorem mean_nan_of_mem (l : List FV) (h : FV.nan ∈ l) : mean l = .nan := by
  simp [mean, sum_nan_of_mem l h]

end Metrics
