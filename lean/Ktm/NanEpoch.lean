/-! C18 — `_get_best_value_and_best_epoch_from_history` on a curve with NaN epochs (`none` = NaN), already framed so that
smaller is better. The code scans the epochs in order: the first epoch is the initial best; a later epoch replaces it only if it is
strictly better, and `better_than` is false whenever a NaN is involved. Hence: if the first epoch is a number, the result is the FIRST
epoch attaining the minimum over the numeric epochs — a NaN epoch is never chosen; if the first epoch is NaN it stays (nothing compares
better than NaN). (The seeded change C18-H replaced the scan by `argmin`, which returns the first NaN.) -/
namespace NanEpoch

/-- strict `better_than` on framed values; false if either side is NaN -/
def better : Option Int → Option Int → Bool
  | some a, some b => a < b
  | _, _ => false

/-- the scanning loop: `(best index, best value)` so far, next index -/
def scan : List (Option Int) → Nat → Option Int → Nat → Nat × Option Int
  | [], bi, bv, _ => (bi, bv)
  | v :: vs, bi, bv, i => if better v bv then scan vs i v (i + 1) else scan vs bi bv (i + 1)

def bestEpoch : List (Option Int) → Option (Nat × Option Int)
  | [] => none
  | v :: vs => some (scan vs 0 v 1)

/-- `i` is the first index whose value is the minimum of the numeric entries -/
def FirstNumMin (l : List (Option Int)) (i : Nat) (m : Int) : Prop :=
  l[i]? = some (some m) ∧ (∀ (j : Nat) (w : Int), l[j]? = some (some w) → m ≤ w) ∧
  (∀ (j : Nat) (w : Int), j < i → l[j]? = some (some w) → m < w)

theorem scan_spec (pre vs : List (Option Int)) (bi : Nat) (m : Int) (h : FirstNumMin pre bi m) :
    ∃ m', (scan vs bi (some m) pre.length).2 = some m' ∧
      FirstNumMin (pre ++ vs) (scan vs bi (some m) pre.length).1 m' := by
  induction vs generalizing pre bi m with
  | nil => exact ⟨m, rfl, by simp only [List.append_nil, scan]; exact h⟩
  | cons v vs ih =>
    have hpre : pre ++ v :: vs = (pre ++ [v]) ++ vs := by simp
    obtain ⟨hget, hmin, hfirst⟩ := h
    have hbi : bi < pre.length := (List.getElem?_eq_some_iff.mp hget).1
    simp only [scan]
    cases v with
    | none =>
      -- a NaN epoch never replaces the best
      have hb : better none (some m) = false := rfl
      simp only [hb, Bool.false_eq_true, if_false]
      have h' : FirstNumMin (pre ++ [none]) bi m := by
        refine ⟨by rw [List.getElem?_append_left hbi]; exact hget, ?_, ?_⟩
        · intro j w hj
          by_cases hjl : j < pre.length
          · rw [List.getElem?_append_left hjl] at hj; exact hmin j w hj
          · have : j - pre.length = 0 ∨ 0 < j - pre.length := by omega
            rw [List.getElem?_append_right (by omega)] at hj
            rcases this with e | e
            · rw [e] at hj; simp at hj
            · cases hk : j - pre.length with
              | zero => omega
              | succ k => rw [hk] at hj; simp at hj
        · intro j w hj hjw
          have hjl : j < pre.length := by omega
          rw [List.getElem?_append_left hjl] at hjw; exact hfirst j w hj hjw
      have := ih (pre ++ [none]) bi m h'
      rw [List.length_append, List.length_singleton] at this
      rw [hpre]; exact this
    | some x =>
      by_cases hx : x < m
      · have hb : better (some x) (some m) = true := by simp [better, hx]
        simp only [hb, if_true]
        have h' : FirstNumMin (pre ++ [some x]) pre.length x := by
          refine ⟨by simp, ?_, ?_⟩
          · intro j w hj
            by_cases hjl : j < pre.length
            · rw [List.getElem?_append_left hjl] at hj
              have := hmin j w hj; omega
            · rw [List.getElem?_append_right (by omega)] at hj
              cases hk : j - pre.length with
              | zero => rw [hk] at hj; simp at hj; omega
              | succ k => rw [hk] at hj; simp at hj
          · intro j w hj hjw
            rw [List.getElem?_append_left hj] at hjw
            have := hmin j w hjw; omega
        have := ih (pre ++ [some x]) pre.length x h'
        rw [List.length_append, List.length_singleton] at this
        rw [hpre]; exact this
      · have hb : better (some x) (some m) = false := by simp [better, hx]
        simp only [hb, Bool.false_eq_true, if_false]
        have h' : FirstNumMin (pre ++ [some x]) bi m := by
          refine ⟨by rw [List.getElem?_append_left hbi]; exact hget, ?_, ?_⟩
          · intro j w hj
            by_cases hjl : j < pre.length
            · rw [List.getElem?_append_left hjl] at hj; exact hmin j w hj
            · rw [List.getElem?_append_right (by omega)] at hj
              cases hk : j - pre.length with
              | zero => rw [hk] at hj; simp at hj; omega
              | succ k => rw [hk] at hj; simp at hj
          · intro j w hj hjw
            have hjl : j < pre.length := by omega
            rw [List.getElem?_append_left hjl] at hjw; exact hfirst j w hj hjw
        have := ih (pre ++ [some x]) bi m h'
        rw [List.length_append, List.length_singleton] at this
        rw [hpre]; exact this

/-- **a NaN epoch is never the best one**: when the first epoch is a number, the chosen epoch is the first one attaining the minimum
    over the numeric epochs -/
theorem best_epoch_ignores_nan (m : Int) (vs : List (Option Int)) :
    ∃ i m', bestEpoch (some m :: vs) = some (i, some m') ∧ FirstNumMin (some m :: vs) i m' := by
  have h0 : FirstNumMin [some m] 0 m := by
    refine ⟨rfl, ?_, ?_⟩
    · intro j w hj
      cases j with
      | zero => simp at hj; omega
      | succ k => simp at hj
    · intro j w hj; omega
  obtain ⟨m', he, hf⟩ := scan_spec [some m] vs 0 m h0
  have hl : ([some m] : List (Option Int)).length = 1 := rfl
  rw [hl] at he hf
  refine ⟨(scan vs 0 (some m) 1).1, m', ?_, hf⟩
  simp only [bestEpoch]
  rw [← he]

/-- a NaN at the very first epoch stays: nothing compares better than it -/
theorem nan_first_stays (vs : List (Option Int)) : bestEpoch (none :: vs) = some (0, none) := by
  simp only [bestEpoch]
  suffices h : ∀ (vs : List (Option Int)) (i : Nat), scan vs 0 none i = (0, none) from by rw [h]
  intro vs
  induction vs with
  | nil => intro i; rfl
  | cons v vs ih =>
    intro i
    have hb : better v none = false := by cases v <;> rfl
    simp only [scan, hb, Bool.false_eq_true, if_false]
    exact ih (i + 1)

example : bestEpoch [some 0, some (-1), some (-1), some (-1), some 0, none, some (-2)] = some (6, some (-2)) := by decide

end NanEpoch
#print axioms NanEpoch.best_epoch_ignores_nan
