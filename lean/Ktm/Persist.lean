import Ktm.Requeue
/-! C07/C08 prototype: trial files + oracle file, reload, and the disk/oracle consistency relation
    that every prefix of the write sequence of an operation preserves. -/
namespace Core
variable {V A : Type}

structure TFile (V : Type) where
  vals : V
  status : Status
  score : Option Int
  reports : List (Option Int)

structure OFile (A : Type) where
  ongoing : List (Nat × Nat)
  retryQ : List Nat
  endOrder : List Nat
  runs : List Nat               -- `_run_times`, by trial id
  n : Nat                       -- length of `start_order`
  alg : A

structure Disk (V A : Type) where
  tfile : Nat → Option (TFile V)
  ofile : Option (OFile A)

def tfileOf (t : Trial V) : TFile V := ⟨t.vals, t.status, t.score, t.reports⟩

def ofileOf (o : Oracle V A) : OFile A :=
  ⟨o.ongoing, o.retryQ, o.endOrder, o.trials.map (·.runs), o.trials.length, o.alg⟩

def trialOfFile (f : TFile V) (runs : Nat) : Trial V := ⟨f.vals, f.status, runs, f.score, f.reports⟩

/-- trial files known to the oracle file, in id order (`none` if one is missing: reload error) -/
def loadTrials (d : Disk V A) (runs : List Nat) : Nat → Option (List (Trial V))
  | 0 => some []
  | k + 1 =>
    match loadTrials d runs k, d.tfile k with
    | some ts, some f => some (ts ++ [trialOfFile f (runs.getD k 0)])
    | _, _ => none

/-- `Oracle.reload` (repaired: trial files beyond `start_order` are ignored); `cfg` = freshly constructed oracle -/
def reload (cfg : Oracle V A) (d : Disk V A) : Option (Oracle V A) :=
  match d.ofile with
  | none => none
  | some f =>
    match loadTrials d f.runs f.n with
    | none => none
    | some ts =>
      some { cfg with trials := ts, ongoing := [], retryQ := f.retryQ ++ f.ongoing.map (·.2),
                      endOrder := f.endOrder, tunerIds := [], alg := f.alg }

/-- the disk agrees with memory on everything the oracle file holds, and on every trial that is not
    ongoing; for ongoing trials (and for ids not yet known to the oracle file) only the values are fixed -/
structure DiskOK (o : Oracle V A) (d : Disk V A) : Prop where
  ofile : ∃ a, d.ofile = some { ofileOf o with alg := a }
  tfiles : ∀ (i : Nat) (t : Trial V), o.trials[i]? = some t →
      ∃ f, d.tfile i = some f ∧ f.vals = t.vals ∧ (i ∉ o.ongoing.map (·.2) → f = tfileOf t)

theorem loadTrials_spec (o : Oracle V A) (d : Disk V A) (hd : DiskOK o d) :
    ∀ k, k ≤ o.trials.length → ∃ ts, loadTrials d (o.trials.map (·.runs)) k = some ts ∧ ts.length = k ∧
      ∀ (i : Nat), i < k → i ∉ o.ongoing.map (·.2) → ts[i]? = o.trials[i]? := by
  intro k
  induction k with
  | zero => intro _; exact ⟨[], rfl, rfl, fun i hi => by omega⟩
  | succ k ih =>
    intro hk
    obtain ⟨ts, hts, hlen, hsame⟩ := ih (by omega)
    have hklt : k < o.trials.length := by omega
    have htk : o.trials[k]? = some (o.trials[k]'hklt) := List.getElem?_eq_getElem hklt
    obtain ⟨f, hf, _, hfeq⟩ := hd.tfiles k _ htk
    refine ⟨ts ++ [trialOfFile f ((o.trials.map (·.runs)).getD k 0)], by simp [loadTrials, hts, hf], by simp [hlen], ?_⟩
    intro i hi hni
    by_cases hik : i < k
    · rw [List.getElem?_append_left (by omega)]; exact hsame i hik hni
    · have hik' : i = k := by omega
      subst hik'
      rw [List.getElem?_append_right (by omega)]
      have hruns : (o.trials.map (·.runs)).getD i 0 = (o.trials[i]'hklt).runs := by
        simp [List.getD, List.getElem?_map, htk]
      simp only [hlen, Nat.sub_self, List.getElem?_cons_zero, htk, hruns, hfeq hni, trialOfFile, tfileOf]

/-- C07/C08: reloading a consistent disk yields the requeued state -/
theorem reload_eq_requeue (o cfg : Oracle V A) (d : Disk V A) (hd : DiskOK o d)
    (hcfg : cfg.maxTrials = o.maxTrials ∧ cfg.maxRetries = o.maxRetries ∧ cfg.maxConsec = o.maxConsec ∧ cfg.aborted = o.aborted) :
    ∃ ts' a, reload cfg d = some (requeueWith o ts' a) ∧ ts'.length = o.trials.length ∧
      ∀ (i : Nat), i ∉ o.ongoing.map (·.2) → ts'[i]? = o.trials[i]? := by
  obtain ⟨a, ha⟩ := hd.ofile
  obtain ⟨ts, hts, hlen, hsame⟩ := loadTrials_spec o d hd o.trials.length (Nat.le_refl _)
  refine ⟨ts, a, ?_, hlen, ?_⟩
  · obtain ⟨h1, h2, h3, h4⟩ := hcfg
    simp only [reload, ha, ofileOf, hts, requeueWith]
    congr 1
    cases cfg; cases o; simp_all
  · intro i hni
    by_cases hi : i < o.trials.length
    · exact hsame i hi hni
    · rw [List.getElem?_eq_none (by omega), List.getElem?_eq_none (by omega)]

/-- C08 in one statement: a disk consistent with a state satisfying the invariant reloads to a state
    satisfying the invariant, with every committed trial untouched and nothing RUNNING outside the
    retry queue -/
theorem reload_good (o cfg : Oracle V A) (d : Disk V A) (h : Inv o) (hd : DiskOK o d)
    (hcfg : cfg.maxTrials = o.maxTrials ∧ cfg.maxRetries = o.maxRetries ∧ cfg.maxConsec = o.maxConsec ∧ cfg.aborted = o.aborted) :
    ∃ r, reload cfg d = some r ∧ Inv r ∧
      (∀ i ∈ o.endOrder, r.trials[i]? = o.trials[i]? ∧ i ∉ r.retryQ) ∧
      (∀ (i : Nat) (t : Trial V), r.trials[i]? = some t → t.status = .running → i ∈ r.retryQ) ∧
      r.trials.length = o.trials.length := by
  obtain ⟨ts', a, hr, hlen, hsame⟩ := reload_eq_requeue o cfg d hd hcfg
  refine ⟨_, hr, inv_requeue o h ts' a hlen hsame, ?_, requeue_running_queued o h ts' a hlen hsame, by simp [requeueWith, hlen]⟩
  intro i hi
  obtain ⟨h1, h2, _⟩ := requeue_committed_stable o h ts' a hsame i hi
  exact ⟨h1, h2⟩

end Core
#print axioms Core.reload_good

namespace Core
variable {V A : Type}

def writeTrial (d : Disk V A) (o' : Oracle V A) (id : Nat) : Disk V A :=
  { d with tfile := fun j => if j = id then (o'.trials[id]?).map tfileOf else d.tfile j }

def writeOracle (d : Disk V A) (o' : Oracle V A) : Disk V A := { d with ofile := some (ofileOf o') }

/-- a trial-file write for a trial that is ongoing (or not yet known to the oracle file) keeps the
    disk consistent with the *old* state: this is the window between the two writes of an operation -/
theorem diskOK_writeTrial_old (o o' : Oracle V A) (d : Disk V A) (hd : DiskOK o d) (id : Nat)
    (hid : id ∈ o.ongoing.map (·.2) ∨ o.trials.length ≤ id)
    (hvals : ∀ t t', o.trials[id]? = some t → o'.trials[id]? = some t' → t'.vals = t.vals)
    (hex : ∀ t, o.trials[id]? = some t → ∃ t', o'.trials[id]? = some t') :
    DiskOK o (writeTrial d o' id) := by
  refine ⟨hd.ofile, ?_⟩
  intro i t ht
  by_cases hi : i = id
  · subst hi
    obtain ⟨t', ht'⟩ := hex t ht
    refine ⟨tfileOf t', by simp [writeTrial, ht'], by simp [tfileOf, hvals t t' ht ht'], ?_⟩
    intro hni
    rcases hid with h | h
    · exact absurd h hni
    · have := (List.getElem?_eq_some_iff.mp ht).1; omega
  · obtain ⟨f, hf, hv, he⟩ := hd.tfiles i t ht
    exact ⟨f, by simp [writeTrial, hi, hf], hv, he⟩

/-- the oracle-file write that ends an operation makes the disk consistent with the *new* state,
    provided every trial whose record changed and is not ongoing afterwards had its file written -/
theorem diskOK_commit (o o' : Oracle V A) (d : Disk V A) (hd : DiskOK o d)
    (h : ∀ (i : Nat) (t' : Trial V), o'.trials[i]? = some t' →
        (d.tfile i = some (tfileOf t')) ∨
        (∃ t, o.trials[i]? = some t ∧ t.vals = t'.vals ∧ (i ∉ o'.ongoing.map (·.2) → t = t' ∧ i ∉ o.ongoing.map (·.2)))) :
    DiskOK o' (writeOracle d o') := by
  refine ⟨⟨o'.alg, rfl⟩, ?_⟩
  intro i t' ht'
  rcases h i t' ht' with hw | ⟨t, ht, hv, hrest⟩
  · exact ⟨tfileOf t', by simpa [writeOracle] using hw, rfl, fun _ => rfl⟩
  · obtain ⟨f, hf, hfv, hfe⟩ := hd.tfiles i t ht
    refine ⟨f, by simpa [writeOracle] using hf, hfv.trans hv, ?_⟩
    intro hni
    obtain ⟨hte, hno⟩ := hrest hni
    rw [← hte]; exact hfe hno

end Core
#print axioms Core.diskOK_commit
