import Ktm.Persist
/-! C08 prototype: both crash points of `end_trial` (repaired write order: bookkeeping, trial file, oracle file). -/
namespace Core
variable {V A : Type}

/-- the two non-aborting shapes of the state after `endT`: trial `id` rewritten (values kept), removed
    from `ongoing`, queues/alg arbitrary -/
theorem end_crash_points (o : Oracle V A) (d : Disk V A) (hd : DiskOK o d) (id : Nat)
    (hon : id ∈ o.ongoing.map (·.2)) (f : Trial V → Trial V) (hf : ∀ t, (f t).vals = t.vals)
    (rq eo : List Nat) (a : A) :
    let o' : Oracle V A := { o with trials := setTrial o.trials id f, retryQ := rq, endOrder := eo,
                                     ongoing := o.ongoing.filter (fun p => p.2 != id), alg := a }
    -- crash before the first write: old state; after the trial-file write: still the old state;
    -- after the oracle-file write: the new state
    DiskOK o d ∧ DiskOK o (writeTrial d o' id) ∧ DiskOK o' (writeOracle (writeTrial d o' id) o') := by
  intro o'
  have hex : ∀ t, o.trials[id]? = some t → ∃ t', o'.trials[id]? = some t' := by
    intro t ht; exact ⟨f t, by simp [o', getElem?_setTrial, ht]⟩
  have hvals : ∀ t t', o.trials[id]? = some t → o'.trials[id]? = some t' → t'.vals = t.vals := by
    intro t t' ht ht'
    simp [o', getElem?_setTrial, ht] at ht'
    subst ht'; exact hf t
  have h1 := diskOK_writeTrial_old o o' d hd id (Or.inl hon) hvals hex
  refine ⟨hd, h1, ?_⟩
  apply diskOK_commit o o' _ h1
  intro i t' ht'
  by_cases hi : i = id
  · subst hi
    left
    simp [writeTrial, ht']
  · right
    have hsame : o'.trials[i]? = o.trials[i]? := by simp [o', getElem?_setTrial, Ne.symm hi]
    rw [hsame] at ht'
    refine ⟨t', ht', rfl, fun hni => ⟨rfl, ?_⟩⟩
    intro hmem
    exact hni ((mem_filter_ids _ _ _).mpr ⟨hmem, hi⟩)

end Core
#print axioms Core.end_crash_points
