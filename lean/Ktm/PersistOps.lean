import Ktm.PersistEnd
/-! C07/C08: which files every operation writes, in which order; every prefix of the write sequence of
    every operation leaves a disk that is consistent (`DiskOK`) with the state before or after it. -/
namespace Core
variable {V A : Type}

/-- an atomic whole-file write -/
inductive W | trial (id : Nat) | oracle
  deriving DecidableEq, Repr

def applyW (o' : Oracle V A) (d : Disk V A) : W → Disk V A
  | .trial id => writeTrial d o' id
  | .oracle => writeOracle d o'

/-- the file writes of an operation, in order (`create_trial`: trial file then oracle file for a new
    trial, oracle file only when a retry is served; `update_trial`: the trial file; `end_trial`: trial
    file then oracle file; an aborting `end_trial` raises before it writes) -/
def writesOf (alg : Alg V A) (o : Oracle V A) (op : Op) : List W :=
  let r := step alg o op
  match op with
  | .create _ _ =>
      if o.trials.length < r.1.trials.length then [.trial o.trials.length, .oracle]
      else if r.1.retryQ.length < o.retryQ.length then [.oracle] else []
  | .update id _ => [.trial id]
  | .endT id _ => match r.2 with | .ok => [.trial id, .oracle] | _ => []

/-- the operation with its first `k` writes reaching the disk (crash injection; `k` large = no crash) -/
def stepD (alg : Alg V A) (k : Nat) (s : Oracle V A × Disk V A) (op : Op) : Oracle V A × Disk V A :=
  let r := step alg s.1 op
  (r.1, ((writesOf alg s.1 op).take k).foldl (applyW r.1) s.2)

theorem diskOK_save (o : Oracle V A) (d : Disk V A) (hd : DiskOK o d) : DiskOK o (writeOracle d o) := by
  apply diskOK_commit o o d hd
  intro i t' ht'
  right
  exact ⟨t', ht', rfl, fun h => ⟨rfl, h⟩⟩

/-- rewriting a trial file with the current record keeps the disk consistent -/
theorem diskOK_rewrite (o : Oracle V A) (d : Disk V A) (hd : DiskOK o d) (id : Nat) (t : Trial V)
    (ht : o.trials[id]? = some t) : DiskOK o (writeTrial d o id) := by
  refine ⟨hd.ofile, ?_⟩
  intro i t' ht'
  by_cases hi : i = id
  · subst hi
    rw [ht] at ht'; cases ht'
    exact ⟨tfileOf t, by simp [writeTrial, ht], rfl, fun _ => rfl⟩
  · obtain ⟨f, hf, hv, he⟩ := hd.tfiles i t' ht'
    exact ⟨f, by simp [writeTrial, hi, hf], hv, he⟩

/-- `update_trial`: the record of trial `id` changes (values kept), nothing else; one trial-file write -/
theorem update_crash_points (o : Oracle V A) (d : Disk V A) (hd : DiskOK o d) (id : Nat) (r : Option Int) :
    DiskOK (update o id r).1 (writeTrial d (update o id r).1 id) := by
  unfold update
  cases ht : o.trials[id]? with
  | none =>
    simp only []
    refine ⟨hd.ofile, ?_⟩
    intro i t hti
    have hi : i ≠ id := by intro h; subst h; rw [ht] at hti; cases hti
    obtain ⟨f, hf, hv, he⟩ := hd.tfiles i t hti
    exact ⟨f, by simp [writeTrial, hi, hf], hv, he⟩
  | some t =>
    simp only []
    refine ⟨?_, ?_⟩
    · obtain ⟨a, ha⟩ := hd.ofile
      refine ⟨a, ?_⟩
      simp only [writeTrial, ha, ofileOf, length_setTrial]
      congr 2
      apply List.ext_getElem?
      intro j
      simp only [List.getElem?_map, getElem?_setTrial]
      split
      · rename_i hij; subst hij; simp [ht]
      · rfl
    · intro i t' ht'
      by_cases hi : i = id
      · subst hi
        exact ⟨tfileOf t', by simp [writeTrial, ht'], rfl, fun _ => rfl⟩
      · simp only [getElem?_setTrial, Ne.symm hi, if_false] at ht'
        obtain ⟨f, hf, hv, he⟩ := hd.tfiles i t' ht'
        exact ⟨f, by simp [writeTrial, hi, hf], hv, he⟩

end Core

namespace Core
variable {V A : Type}

/-- `DiskOK` only looks at the trial records and the three id lists -/
theorem diskOK_congr (o1 o2 : Oracle V A) (d : Disk V A) (ht : o2.trials = o1.trials) (ho : o2.ongoing = o1.ongoing)
    (hr : o2.retryQ = o1.retryQ) (he : o2.endOrder = o1.endOrder) (hd : DiskOK o1 d) : DiskOK o2 d := by
  obtain ⟨a, ha⟩ := hd.ofile
  refine ⟨⟨a, by simp only [ha, ofileOf, ht, ho, hr, he]⟩, ?_⟩
  intro i t hti
  rw [ht] at hti
  obtain ⟨f, hf, hv, hfe⟩ := hd.tfiles i t hti
  exact ⟨f, hf, hv, fun hn => hfe (by rwa [ho] at hn)⟩

/-- the three shapes of the state after `create_trial` -/
inductive CreateShape (o : Oracle V A) (tuner : Nat) : Oracle V A × Out V → Prop
  | same (r : Oracle V A × Out V) (ht : r.1.trials = o.trials) (ho : r.1.ongoing = o.ongoing)
      (hr : r.1.retryQ = o.retryQ) (he : r.1.endOrder = o.endOrder)
      (hout : ∀ id v, r.2 = .trial id v → holds o tuner = some id) : CreateShape o tuner r
  | retry (r : Oracle V A × Out V) (rid : Nat) (t : Trial V) (hq : o.retryQ.getLast? = some rid)
      (htr : o.trials[rid]? = some t)
      (ht : r.1.trials = setTrial o.trials rid (fun t => { t with status := .running }))
      (ho : r.1.ongoing = o.ongoing ++ [(tuner, rid)]) (hr : r.1.retryQ = o.retryQ.dropLast)
      (he : r.1.endOrder = o.endOrder) (hout : r.2 = .trial rid t.vals) : CreateShape o tuner r
  | fresh (r : Oracle V A × Out V) (v : V)
      (ht : r.1.trials = o.trials ++ [{ vals := v, status := .running, runs := 0, score := none, reports := [] }])
      (ho : r.1.ongoing = o.ongoing ++ [(tuner, o.trials.length)]) (hr : r.1.retryQ = o.retryQ)
      (he : r.1.endOrder = o.endOrder) (hout : r.2 = .trial o.trials.length v) (hq : o.retryQ = []) : CreateShape o tuner r

theorem create_shape (alg : Alg V A) (o : Oracle V A) (tuner c : Nat) :
    CreateShape o tuner (create alg o tuner c) := by
  unfold create
  cases hh : holds o tuner with
  | some id =>
    simp only []
    split
    · exact .same _ rfl rfl rfl rfl (by intro id' v h; cases h; exact hh)
    · exact .same _ rfl rfl rfl rfl (by intro id' v h; cases h)
  | none =>
    simp only []
    cases hq : o.retryQ.getLast? with
    | some rid =>
      simp only []
      cases htr : o.trials[rid]? with
      | some t => exact .retry _ rid t hq htr rfl rfl rfl rfl rfl
      | none => exact .same _ rfl rfl rfl rfl (by intro id' v h; cases h)
    | none =>
      simp only []
      have hq' : o.retryQ = [] := by
        cases hl : o.retryQ with
        | nil => rfl
        | cons a l => rw [hl] at hq; simp [List.getLast?_cons] at hq
      split
      · exact .same _ rfl rfl rfl rfl (by intro id' v h; cases h)
      · cases hp : alg.populate { o with tunerIds := addTuner o.tunerIds tuner } c with
        | mk a pop =>
          cases pop with
          | run v => exact .fresh _ v rfl rfl rfl rfl rfl hq'
          | idle => exact .same _ rfl rfl rfl rfl (by intro id' v h; cases h)
          | stop => exact .same _ rfl rfl rfl rfl (by intro id' v h; cases h)

end Core

namespace Core
variable {V A : Type}

theorem getLast?_some_ne_nil {α} (l : List α) (a : α) (h : l.getLast? = some a) : l ≠ [] := by
  intro hn; subst hn; simp at h

/-- **crash points of `create_trial`**: whatever prefix of its writes reaches the disk, the disk is
    consistent with the state before or after the call; with all writes, with the state after -/
theorem create_crash_points (alg : Alg V A) (o : Oracle V A) (d : Disk V A) (h : Inv o) (hd : DiskOK o d)
    (tuner c k : Nat) :
    let r := create alg o tuner c
    let d' := ((writesOf alg o (.create tuner c)).take k).foldl (applyW r.1) d
    (DiskOK o d' ∨ DiskOK r.1 d') ∧ (2 ≤ k → DiskOK r.1 d') := by
  intro r d'
  have hsh := create_shape alg o tuner c
  cases hsh with
  | same ht ho hr he _ =>
    have hw : writesOf alg o (.create tuner c) = [] := by
      have e1 : (create alg o tuner c).1.trials.length = o.trials.length := by rw [ht]
      have e2 : (create alg o tuner c).1.retryQ.length = o.retryQ.length := by rw [hr]
      simp [writesOf, step, e1, e2]
    have hd' : d' = d := by simp [d', hw]
    rw [hd']
    exact ⟨Or.inl hd, fun _ => diskOK_congr o r.1 d ht ho hr he hd⟩
  | retry rid t hq htr ht ho hr he _ =>
    have hne := getLast?_some_ne_nil _ _ hq
    have hlen : 0 < o.retryQ.length := List.length_pos_iff.mpr hne
    have hw : writesOf alg o (.create tuner c) = [.oracle] := by
      have e1 : (create alg o tuner c).1.trials.length = o.trials.length := by rw [ht, length_setTrial]
      have e2 : (create alg o tuner c).1.retryQ.length = o.retryQ.length - 1 := by rw [hr, List.length_dropLast]
      have e3 : o.retryQ.length - 1 < o.retryQ.length := by omega
      simp [writesOf, step, e1, e2, e3]
    have hnew : DiskOK r.1 (writeOracle d r.1) := by
      apply diskOK_commit o r.1 d hd
      intro i t' ht'
      right
      rw [ht, getElem?_setTrial] at ht'
      by_cases hi : rid = i
      · subst hi
        simp only [if_true, htr, Option.map_some, Option.some.injEq] at ht'
        refine ⟨t, htr, by rw [← ht'], fun hni => ?_⟩
        exact absurd (by rw [ho]; simp) hni
      · simp only [hi, if_false] at ht'
        refine ⟨t', ht', rfl, fun hni => ⟨rfl, fun hm => hni ?_⟩⟩
        rw [ho, List.map_append]; exact List.mem_append_left _ hm
    rcases Nat.eq_zero_or_pos k with hk | hk
    · have : d' = d := by simp [d', hw, hk]
      rw [this]; exact ⟨Or.inl hd, fun hk' => by omega⟩
    · have : d' = writeOracle d r.1 := by
        simp only [d', hw]
        rw [List.take_of_length_le (by simp; omega)]; rfl
      rw [this]; exact ⟨Or.inr hnew, fun _ => hnew⟩
  | fresh v ht ho hr he _ _ =>
    have hw : writesOf alg o (.create tuner c) = [.trial o.trials.length, .oracle] := by
      have e1 : (create alg o tuner c).1.trials.length = o.trials.length + 1 := by rw [ht]; simp
      simp [writesOf, step, e1]
    have hget : r.1.trials[o.trials.length]? = some { vals := v, status := .running, runs := 0, score := none, reports := [] } := by
      rw [ht]; simp
    have h1 : DiskOK o (writeTrial d r.1 o.trials.length) := by
      apply diskOK_writeTrial_old o r.1 d hd _ (Or.inr (Nat.le_refl _))
      · intro t t' hto; rw [List.getElem?_eq_none (Nat.le_refl _)] at hto; cases hto
      · intro t hto; rw [List.getElem?_eq_none (Nat.le_refl _)] at hto; cases hto
    have h2 : DiskOK r.1 (writeOracle (writeTrial d r.1 o.trials.length) r.1) := by
      apply diskOK_commit o r.1 _ h1
      intro i t' ht'
      by_cases hi : i = o.trials.length
      · subst hi
        left
        simp [writeTrial, ht']
      · right
        have hlt : i < o.trials.length := by
          have := (List.getElem?_eq_some_iff.mp ht').1
          rw [ht] at this; simp at this; omega
        rw [ht, List.getElem?_append_left hlt] at ht'
        refine ⟨t', ht', rfl, fun hni => ⟨rfl, fun hm => hni ?_⟩⟩
        rw [ho, List.map_append]; exact List.mem_append_left _ hm
    have hk3 : k = 0 ∨ k = 1 ∨ 2 ≤ k := by omega
    rcases hk3 with hk | hk | hk
    · have : d' = d := by simp [d', hw, hk]
      rw [this]; exact ⟨Or.inl hd, fun hk' => by omega⟩
    · have : d' = writeTrial d r.1 o.trials.length := by simp [d', hw, hk, applyW]
      rw [this]; exact ⟨Or.inl h1, fun hk' => by omega⟩
    · have : d' = writeOracle (writeTrial d r.1 o.trials.length) r.1 := by
        simp only [d', hw]
        rw [List.take_of_length_le (by simpa using hk)]; rfl
      rw [this]; exact ⟨Or.inr h2, fun _ => h2⟩

end Core

namespace Core
variable {V A : Type}

theorem isOngoing_mem (o : Oracle V A) (id : Nat) (h : isOngoing o id = true) : id ∈ o.ongoing.map (·.2) := by
  simp only [isOngoing, List.any_eq_true] at h
  obtain ⟨p, hp, he⟩ := h
  exact List.mem_map.mpr ⟨p, hp, by simpa using he⟩

theorem take2_cases {α} (a b : α) (k : Nat) :
    (k = 0 ∧ [a, b].take k = []) ∨ (k = 1 ∧ [a, b].take k = [a]) ∨ (2 ≤ k ∧ [a, b].take k = [a, b]) := by
  have hk3 : k = 0 ∨ k = 1 ∨ 2 ≤ k := by omega
  rcases hk3 with hk | hk | hk
  · left; simp [hk]
  · right; left; simp [hk]
  · right; right; exact ⟨hk, List.take_of_length_le (by simpa using hk)⟩

/-- **crash points of `end_trial`** -/
theorem endT_crash_points (alg : Alg V A) (o : Oracle V A) (d : Disk V A) (hd : DiskOK o d)
    (id : Nat) (oc : Outcome) (k : Nat) :
    let r := endT alg o id oc
    let d' := ((writesOf alg o (.endT id oc)).take k).foldl (applyW r.1) d
    (DiskOK o d' ∨ DiskOK r.1 d') ∧ (2 ≤ k → r.2 ≠ .abort → DiskOK r.1 d') := by
  intro r d'
  -- the two non-aborting, state-changing shapes
  have key : ∀ (f : Trial V → Trial V) (hf : ∀ t, (f t).vals = t.vals) (rq eo : List Nat) (a : A),
      isOngoing o id = true →
      r = ({ o with trials := setTrial o.trials id f, retryQ := rq, endOrder := eo,
                    ongoing := o.ongoing.filter (fun p => p.2 != id), alg := a }, .ok) →
      (DiskOK o d' ∨ DiskOK r.1 d') ∧ (2 ≤ k → r.2 ≠ .abort → DiskOK r.1 d') := by
    intro f hf rq eo a hon hr
    obtain ⟨h0, h1, h2⟩ := end_crash_points o d hd id (isOngoing_mem o id hon) f hf rq eo a
    have hw : writesOf alg o (.endT id oc) = [.trial id, .oracle] := by
      have : (step alg o (.endT id oc)).2 = .ok := by show r.2 = .ok; rw [hr]
      simp [writesOf, this]
    have hr1 : r.1 = { o with trials := setTrial o.trials id f, retryQ := rq, endOrder := eo,
                              ongoing := o.ongoing.filter (fun p => p.2 != id), alg := a } := by rw [hr]
    rcases take2_cases (W.trial id) W.oracle k with ⟨hk, ht⟩ | ⟨hk, ht⟩ | ⟨hk, ht⟩
    · have : d' = d := by simp [d', hw, ht]
      rw [this]; exact ⟨Or.inl hd, fun hk' => by omega⟩
    · have : d' = writeTrial d r.1 id := by simp [d', hw, ht, applyW]
      rw [this, hr1]; exact ⟨Or.inl h1, fun hk' => by omega⟩
    · have : d' = writeOracle (writeTrial d r.1 id) r.1 := by simp [d', hw, ht, applyW]
      rw [this, hr1]; exact ⟨Or.inr h2, fun _ _ => h2⟩
  -- no write at all
  have nowrite : ∀ (o' : Oracle V A) (out : Out V), r = (o', out) → out ≠ .ok →
      (out ≠ .abort → DiskOK o' d) →
      (DiskOK o d' ∨ DiskOK r.1 d') ∧ (2 ≤ k → r.2 ≠ .abort → DiskOK r.1 d') := by
    intro o' out hr hne hok
    have hw : writesOf alg o (.endT id oc) = [] := by
      have : (step alg o (.endT id oc)).2 = out := by show r.2 = out; rw [hr]
      simp only [writesOf, this]
    have : d' = d := by simp [d', hw]
    rw [this, hr]
    exact ⟨Or.inl hd, fun _ hna => hok hna⟩
  show (DiskOK o d' ∨ DiskOK r.1 d') ∧ (2 ≤ k → r.2 ≠ .abort → DiskOK r.1 d')
  cases hti : o.trials[id]? with
  | none => exact nowrite o .bad (by simp [r, endT, hti]) (by intro h; cases h) (fun _ => hd)
  | some t =>
    cases hon : isOngoing o id with
    | false => exact nowrite o .bad (by simp [r, endT, hti, hon]) (by intro h; cases h) (fun _ => hd)
    | true =>
      cases hret : (endDecision alg o.maxRetries t oc).retry with
      | true =>
        exact key (fun t' => { t' with status := (endDecision alg o.maxRetries t oc).st, runs := t.runs + 1, score := (endDecision alg o.maxRetries t oc).sc, reports := [] })
          (fun _ => rfl) (o.retryQ ++ [id]) o.endOrder (alg.onEnd o.alg id) hon (by simp [r, endT, hti, hon, hret])
      | false =>
        cases hs : hasStreak o.maxConsec ((o.endOrder ++ [id]).map (statusOf (setTrial o.trials id (fun t' =>
            { t' with status := (endDecision alg o.maxRetries t oc).st, runs := t.runs + 1,
                      score := (endDecision alg o.maxRetries t oc).sc })))) with
        | true =>
          exact nowrite _ .abort
            (by simp only [r, endT, hti, hon, hret, Bool.not_true, Bool.false_eq_true, if_false]; rw [if_pos hs])
            (by intro h; cases h) (fun h => absurd rfl h)
        | false =>
          exact key (fun t' => { t' with status := (endDecision alg o.maxRetries t oc).st, runs := t.runs + 1, score := (endDecision alg o.maxRetries t oc).sc })
            (fun _ => rfl) o.retryQ (o.endOrder ++ [id]) (alg.onEnd o.alg id) hon
            (by simp only [r, endT, hti, hon, hret, Bool.not_true, Bool.false_eq_true, if_false]
                rw [if_neg (by rw [hs]; decide)])

end Core

namespace Core
variable {V A : Type}

/-- **every crash point of every operation**: with any prefix of the operation's writes on disk, the
    disk is consistent with the state before the call, or the call did not abort and the disk is
    consistent with the state after it; with all writes (and no abort) it is the state after it -/
theorem step_crash_points (alg : Alg V A) (o : Oracle V A) (d : Disk V A) (h : Inv o) (hd : DiskOK o d)
    (op : Op) (k : Nat) :
    let r := step alg o op
    let d' := (stepD alg k (o, d) op).2
    (DiskOK o d' ∨ (r.2 ≠ .abort ∧ DiskOK r.1 d')) ∧ (2 ≤ k → r.2 ≠ .abort → DiskOK r.1 d') := by
  cases op with
  | create t c =>
    have := create_crash_points alg o d h hd t c k
    simp only [stepD, step] at this ⊢
    refine ⟨?_, fun hk _ => this.2 hk⟩
    rcases this.1 with h1 | h1
    · exact Or.inl h1
    · exact Or.inr ⟨create_not_abort alg o t c, h1⟩
  | update id r =>
    have hw : writesOf alg o (.update id r) = [.trial id] := rfl
    simp only [stepD, step, hw]
    rcases Nat.eq_zero_or_pos k with hk | hk
    · subst hk
      simp only [List.take_zero, List.foldl_nil]
      exact ⟨Or.inl hd, fun hk' => by omega⟩
    · rw [List.take_of_length_le (by simp; omega)]
      have := update_crash_points o d hd id r
      exact ⟨Or.inr ⟨update_not_abort o id r, this⟩, fun _ _ => this⟩
  | endT id oc =>
    have := endT_crash_points alg o d hd id oc k
    simp only [stepD, step] at this ⊢
    refine ⟨?_, this.2⟩
    rcases this.1 with h1 | h1
    · exact Or.inl h1
    · by_cases hab : (endT alg o id oc).2 = .abort
      · -- an aborting call writes nothing: the disk is still the old one
        left
        have hw : writesOf alg o (.endT id oc) = [] := by simp [writesOf, step, hab]
        simp only [hw, List.take_nil, List.foldl_nil]
        exact hd
      · exact Or.inr ⟨hab, h1⟩

/-- a run of complete operations (all writes reach the disk), stopping at an abort like `run` -/
def runD (alg : Alg V A) (s : Oracle V A × Disk V A) : List Op → Oracle V A × Disk V A
  | [] => s
  | op :: ops =>
    match (step alg s.1 op).2 with
    | .abort => stepD alg 2 s op
    | _ => runD alg (stepD alg 2 s op) ops

theorem runD_fst (alg : Alg V A) (s : Oracle V A × Disk V A) (ops : List Op) :
    (runD alg s ops).1 = run alg s.1 ops := by
  induction ops generalizing s with
  | nil => rfl
  | cons op ops ih =>
    simp only [runD, run]
    split <;> rename_i hout
    · simp [hout, stepD]
    · have hne : (step alg s.1 op).2 ≠ .abort := fun hc => hout hc
      rw [ih]
      cases hs : (step alg s.1 op).2 <;> simp_all [stepD]

/-- disk and memory stay consistent along every run of complete operations (unless it aborts) -/
theorem runD_ok (alg : Alg V A) (s : Oracle V A × Disk V A) (ops : List Op) (h : Inv s.1) (hd : DiskOK s.1 s.2) :
    (Inv (runD alg s ops).1 ∧ DiskOK (runD alg s ops).1 (runD alg s ops).2) ∨ (runD alg s ops).1.aborted = true := by
  induction ops generalizing s with
  | nil => exact Or.inl ⟨h, hd⟩
  | cons op ops ih =>
    simp only [runD]
    split <;> rename_i hout
    · right
      simp only [stepD]
      cases op with
      | create t c => exact absurd hout (create_not_abort alg s.1 t c)
      | update id r => exact absurd hout (update_not_abort s.1 id r)
      | endT id oc => exact endT_abort_aborted alg s.1 id oc hout
    · have hne : (step alg s.1 op).2 ≠ .abort := fun hc => hout hc
      have hcp := (step_crash_points alg s.1 s.2 h hd op 2).2 (Nat.le_refl 2) hne
      exact ih (stepD alg 2 s op) (inv_step alg s.1 op h hne) hcp

end Core
#print axioms Core.step_crash_points
#print axioms Core.runD_ok

namespace Core
variable {V A : Type}

/-- every loaded trial has the values and the run count of the trial in memory, running or not -/
theorem loadTrials_vals (o : Oracle V A) (d : Disk V A) (hd : DiskOK o d) :
    ∀ k, k ≤ o.trials.length → ∀ l, loadTrials d (o.trials.map (·.runs)) k = some l →
      ∀ (j : Nat), j < k → ∀ tj, o.trials[j]? = some tj →
        ∃ t', l[j]? = some t' ∧ t'.vals = tj.vals ∧ t'.runs = tj.runs := by
  intro k
  induction k with
  | zero => intro _ l _ j hj; omega
  | succ k ih =>
    intro hk l hl j hj tj htj
    simp only [loadTrials] at hl
    cases hprev : loadTrials d (o.trials.map (·.runs)) k with
    | none => simp [hprev] at hl
    | some lp =>
      cases hfk : d.tfile k with
      | none => simp [hprev, hfk] at hl
      | some fk =>
        simp only [hprev, hfk, Option.some.injEq] at hl
        subst hl
        obtain ⟨lq, hlq, hlenq, _⟩ := loadTrials_spec o d hd k (by omega)
        rw [hprev] at hlq; cases hlq
        by_cases hjk : j < k
        · rw [List.getElem?_append_left (by omega)]
          exact ih (by omega) lp hprev j hjk tj htj
        · have : j = k := by omega
          subst this
          obtain ⟨f, hf, hv, _⟩ := hd.tfiles j tj htj
          rw [hfk] at hf; cases hf
          refine ⟨trialOfFile fk ((o.trials.map (·.runs)).getD j 0), ?_, hv, ?_⟩
          · rw [List.getElem?_append_right (by omega), hlenq]; simp
          · simp [trialOfFile, List.getD, List.getElem?_map, htj]

/-- **resume**: with one trial in hand when the process stopped (at any crash point whose disk is
    consistent), the restarted oracle hands out that same trial — same id, same values — first -/
theorem resume_reissues_interrupted (alg : Alg V A) (o cfg : Oracle V A) (d : Disk V A) (h : Inv o) (hd : DiskOK o d)
    (hcfg : cfg.maxTrials = o.maxTrials ∧ cfg.maxRetries = o.maxRetries ∧ cfg.maxConsec = o.maxConsec ∧ cfg.aborted = o.aborted)
    (tuner id : Nat) (t : Trial V) (hon : o.ongoing = [(tuner, id)]) (ht : o.trials[id]? = some t) (tuner' c : Nat) :
    ∃ r, reload cfg d = some r ∧ (create alg r tuner' c).2 = .trial id t.vals ∧
      r.trials.length = o.trials.length := by
  obtain ⟨a, ha⟩ := hd.ofile
  obtain ⟨ts, hts, hlen, hsame⟩ := loadTrials_spec o d hd o.trials.length (Nat.le_refl _)
  have hid : id < o.trials.length := (List.getElem?_eq_some_iff.mp ht).1
  obtain ⟨t', ht', hv, _⟩ := loadTrials_vals o d hd o.trials.length (Nat.le_refl _) ts hts id hid t ht
  refine ⟨{ cfg with trials := ts, ongoing := [], retryQ := o.retryQ ++ o.ongoing.map (·.2),
                     endOrder := o.endOrder, tunerIds := [], alg := a }, ?_, ?_, by simp [hlen]⟩
  · simp only [reload, ha, ofileOf, hts]
  · have hq : (o.retryQ ++ o.ongoing.map (·.2)).getLast? = some id := by simp [hon]
    simp [create, holds, hq, ht', hv]

end Core
#print axioms Core.resume_reissues_interrupted
