import Ktm.PersistOps
/-! C08 — a SECOND crash, after a restart.

After `reload` the memory state `r` is *not* `DiskOK` with the disk it was loaded from: the oracle file still lists
the old ongoing map and the old retry queue (reload re-queues in memory only). What does hold is

* `TF r d` — every trial file equals the record in memory (the trials were just read from those files), and
* nothing is ongoing in `r`, and
* the disk is still `DiskOK` with the pre-crash base state, which has as many trials as `r`.

A resumed process can only begin with `create_trial` requests (nobody holds a trial yet). This file shows that each of
those requests, at EVERY crash point inside it, leaves a disk that is `DiskOK` with a state satisfying the invariant —
the old base while the oracle file has not been rewritten, the new state from the oracle-file write on — and that as
soon as one request has handed out a trial the pair (memory, disk) is `DiskOK` again, so that every later crash point is
covered by the first-crash theorem (`Props.C08.crash_disk_consistent`), and so on for a third, fourth … crash. -/
namespace Core
variable {V A : Type}

/-- every trial file holds exactly the record in memory -/
def TF (r : Oracle V A) (d : Disk V A) : Prop :=
  ∀ (i : Nat) (t : Trial V), r.trials[i]? = some t → d.tfile i = some (tfileOf t)

theorem loadTrials_files (d : Disk V A) (runs : List Nat) : ∀ (k : Nat) (ts : List (Trial V)), loadTrials d runs k = some ts →
    ts.length = k ∧ ∀ (i : Nat) (t : Trial V), ts[i]? = some t → d.tfile i = some (tfileOf t) := by
  intro k
  induction k with
  | zero => intro ts h; simp [loadTrials] at h; subst h; exact ⟨rfl, fun i t hi => by simp at hi⟩
  | succ k ih =>
    intro ts h
    simp only [loadTrials] at h
    cases hl : loadTrials d runs k with
    | none => simp [hl] at h
    | some ts0 =>
      cases hf : d.tfile k with
      | none => simp [hl, hf] at h
      | some f =>
        simp only [hl, hf, Option.some.injEq] at h
        subst h
        obtain ⟨hlen, hfiles⟩ := ih ts0 hl
        refine ⟨by simp [hlen], ?_⟩
        intro i t hi
        by_cases hik : i < k
        · rw [List.getElem?_append_left (by omega)] at hi; exact hfiles i t hi
        · rw [List.getElem?_append_right (by omega)] at hi
          by_cases h0 : i - ts0.length = 0
          · simp [h0] at hi
            subst hi
            have : i = k := by omega
            subst this
            simpa [trialOfFile, tfileOf] using hf
          · simp [h0] at hi

/-- right after a reload: the trial files are the records in memory and nothing is ongoing -/
theorem tf_reload (cfg r : Oracle V A) (d : Disk V A) (hr : reload cfg d = some r) : TF r d ∧ r.ongoing = [] := by
  unfold reload at hr
  cases hof : d.ofile with
  | none => simp [hof] at hr
  | some f =>
    simp only [hof] at hr
    cases hl : loadTrials d f.runs f.n with
    | none => simp [hl] at hr
    | some ts =>
      simp only [hl, Option.some.injEq] at hr
      subst hr
      exact ⟨fun i t hi => (loadTrials_files d f.runs f.n ts hl).2 i t hi, rfl⟩

/-- the oracle-file write of the first request that hands out a trial after a restart makes memory and disk consistent:
    all that is needed of the old disk is that the trial files of the trials that are not ongoing now hold their records -/
theorem diskOK_commit_tf (r' : Oracle V A) (d : Disk V A)
    (h : ∀ (i : Nat) (t' : Trial V), r'.trials[i]? = some t' →
        ∃ f, d.tfile i = some f ∧ f.vals = t'.vals ∧ (i ∉ r'.ongoing.map (·.2) → f = tfileOf t')) :
    DiskOK r' (writeOracle d r') :=
  ⟨⟨r'.alg, rfl⟩, fun i t' ht' => by simpa [writeOracle] using h i t' ht'⟩

/-- one `create_trial` of a freshly restarted process, interrupted after `k` of its writes: the disk is consistent with
    the old base or with the new state; a completed request either hands out nothing and leaves everything as it was,
    or leaves memory and disk `DiskOK` -/
theorem create_after_restart (alg : Alg V A) (r : Oracle V A) (d : Disk V A) (base : Oracle V A)
    (hinv : Inv r) (htf : TF r d) (hong : r.ongoing = []) (hbinv : Inv base) (hbd : DiskOK base d)
    (hblen : base.trials.length = r.trials.length) (tuner c k : Nat) :
    (∃ b, Inv b ∧ DiskOK b (stepD alg k (r, d) (.create tuner c)).2) ∧
    ((DiskOK (step alg r (.create tuner c)).1 (stepD alg 2 (r, d) (.create tuner c)).2) ∨
     ((stepD alg 2 (r, d) (.create tuner c)).2 = d ∧ TF (step alg r (.create tuner c)).1 d ∧
      (step alg r (.create tuner c)).1.ongoing = [] ∧
      (step alg r (.create tuner c)).1.trials.length = r.trials.length)) := by
  have hinv' : Inv (step alg r (.create tuner c)).1 := inv_create alg r tuner c hinv
  have hsh := create_shape alg r tuner c
  have hstep : step alg r (.create tuner c) = create alg r tuner c := rfl
  dsimp only [stepD]
  simp only [hstep]
  cases hsh with
  | same ht ho hr he hout =>
    -- nothing is written
    have hw : writesOf alg r (.create tuner c) = ([] : List W) := by
      simp [writesOf, step, ht, hr]
    rw [hw]
    simp only [List.take_nil, List.foldl_nil]
    refine ⟨⟨base, hbinv, hbd⟩, Or.inr ⟨by simp, ?_, by rw [ho]; exact hong, by rw [ht]⟩⟩
    intro i t hi
    rw [ht] at hi
    exact htf i t hi
  | retry rid t hq htr ht ho hr he hout =>
    have hne : r.retryQ ≠ [] := getLast?_some_ne_nil _ _ hq
    have hlen : (create alg r tuner c).1.retryQ.length < r.retryQ.length := by
      rw [hr, List.length_dropLast]
      have : 0 < r.retryQ.length := List.length_pos_iff.mpr hne
      omega
    have hw : writesOf alg r (.create tuner c) = [W.oracle] := by
      have : ¬ r.trials.length < (create alg r tuner c).1.trials.length := by rw [ht, length_setTrial]; omega
      simp [writesOf, step, this, hlen]
    rw [hw]
    have hcommit : DiskOK (create alg r tuner c).1 (writeOracle d (create alg r tuner c).1) := by
      apply diskOK_commit_tf
      intro i t' ht'
      rw [ht, getElem?_setTrial] at ht'
      split at ht'
      · rename_i hri
        subst hri
        rw [htr] at ht'
        simp only [Option.map_some, Option.some.injEq] at ht'
        subst ht'
        refine ⟨tfileOf t, htf rid t htr, rfl, ?_⟩
        intro hni
        exfalso; apply hni
        rw [ho, hong]; simp
      · exact ⟨tfileOf t', htf i t' ht', rfl, fun _ => rfl⟩
    refine ⟨?_, Or.inl (by simpa [applyW] using hcommit)⟩
    cases k with
    | zero => exact ⟨base, hbinv, by simpa using hbd⟩
    | succ k => exact ⟨(create alg r tuner c).1, hinv', by simpa [applyW] using hcommit⟩
  | fresh v ht ho hr he hout hq =>
    have hw : writesOf alg r (.create tuner c) = [W.trial r.trials.length, W.oracle] := by
      have : r.trials.length < (create alg r tuner c).1.trials.length := by rw [ht]; simp
      simp [writesOf, step, this]
    rw [hw]
    -- the new trial's file, then the oracle file
    have hnew : (create alg r tuner c).1.trials[r.trials.length]? =
        some { vals := v, status := .running, runs := 0, score := none, reports := [] } := by
      rw [ht]; simp
    have hcommit : DiskOK (create alg r tuner c).1
        (writeOracle (writeTrial d (create alg r tuner c).1 r.trials.length) (create alg r tuner c).1) := by
      apply diskOK_commit_tf
      intro i t' ht'
      by_cases hi : i = r.trials.length
      · subst hi
        rw [hnew] at ht'; cases ht'
        exact ⟨_, by simp [writeTrial, hnew], rfl, fun _ => rfl⟩
      · rw [ht] at ht'
        have hlt : i < r.trials.length := by
          have := (List.getElem?_eq_some_iff.mp ht').1
          simp at this; omega
        rw [List.getElem?_append_left hlt] at ht'
        exact ⟨tfileOf t', by simp [writeTrial, hi, htf i t' ht'], rfl, fun _ => rfl⟩
    have hmid : DiskOK base (writeTrial d (create alg r tuner c).1 r.trials.length) := by
      apply diskOK_writeTrial_old base (create alg r tuner c).1 d hbd r.trials.length (Or.inr (by omega))
      · intro t0 t1 h0 _
        have := (List.getElem?_eq_some_iff.mp h0).1
        omega
      · intro t0 h0
        have := (List.getElem?_eq_some_iff.mp h0).1
        omega
    refine ⟨?_, Or.inl (by simpa [applyW] using hcommit)⟩
    cases k with
    | zero => exact ⟨base, hbinv, by simpa using hbd⟩
    | succ k =>
      cases k with
      | zero => exact ⟨base, hbinv, by simpa [applyW] using hmid⟩
      | succ k => exact ⟨(create alg r tuner c).1, hinv', by simpa [applyW] using hcommit⟩

/-- a run of `create_trial` requests (tuner, choice) by the restarted process -/
def creates (l : List (Nat × Nat)) : List Op := l.map (fun p => Op.create p.1 p.2)

/-- **a second crash, at any point of the resumed run's first requests**: the resumed process asks for trials
    (`pre`, then one more request in which it dies after `k` of its writes); at that point the disk is `DiskOK` with a
    state satisfying the lifecycle invariant; and once the requests of `pre` are done, either nothing was handed out and
    everything is as right after the restart, or memory and disk are `DiskOK` again — from where every later crash point
    is covered by the first-crash theorem -/
theorem second_crash (alg : Alg V A) (base : Oracle V A) (hbinv : Inv base) :
    ∀ (pre : List (Nat × Nat)) (r : Oracle V A) (d : Disk V A), Inv r → TF r d → r.ongoing = [] → DiskOK base d →
      base.trials.length = r.trials.length →
      (∀ (tuner c k : Nat), ∃ b, Inv b ∧ DiskOK b (stepD alg k (runD alg (r, d) (creates pre)) (.create tuner c)).2) ∧
      (DiskOK (runD alg (r, d) (creates pre)).1 (runD alg (r, d) (creates pre)).2 ∨
       ((runD alg (r, d) (creates pre)).2 = d ∧ TF (runD alg (r, d) (creates pre)).1 d ∧
        (runD alg (r, d) (creates pre)).1.ongoing = [])) := by
  intro pre
  induction pre with
  | nil =>
    intro r d hinv htf hong hbd hblen
    simp only [creates, List.map_nil, runD]
    exact ⟨fun tuner c k => (create_after_restart alg r d base hinv htf hong hbinv hbd hblen tuner c k).1,
           Or.inr ⟨by simp, htf, hong⟩⟩
  | cons p pre ih =>
    intro r d hinv htf hong hbd hblen
    obtain ⟨tuner0, c0⟩ := p
    have hstep := create_after_restart alg r d base hinv htf hong hbinv hbd hblen tuner0 c0 2
    have hna : (step alg r (.create tuner0 c0)).2 ≠ .abort := create_not_abort alg r tuner0 c0
    have hrun : runD alg (r, d) (creates ((tuner0, c0) :: pre)) = runD alg (stepD alg 2 (r, d) (.create tuner0 c0)) (creates pre) := by
      simp only [creates, List.map_cons, runD]
    rw [hrun]
    have hinv1 : Inv (stepD alg 2 (r, d) (.create tuner0 c0)).1 := inv_create alg r tuner0 c0 hinv
    rcases hstep.2 with hok | ⟨hsame, htf1, hong1, hlen1⟩
    · -- a trial was handed out: memory and disk are consistent from here on
      have hs1 : DiskOK (stepD alg 2 (r, d) (.create tuner0 c0)).1 (stepD alg 2 (r, d) (.create tuner0 c0)).2 := hok
      refine ⟨?_, ?_⟩
      · intro tuner c k
        rcases runD_ok alg (stepD alg 2 (r, d) (.create tuner0 c0)) (creates pre) hinv1 hs1 with ⟨hi, hdk⟩ | hab
        · have hcp := (step_crash_points alg _ _ hi hdk (.create tuner c) k).1
          rcases hcp with h1 | ⟨hne, h1⟩
          · exact ⟨_, hi, h1⟩
          · exact ⟨_, inv_step alg _ (.create tuner c) hi hne, h1⟩
        · -- a run of `create` requests never aborts
          exfalso
          have hnab : ∀ (l : List (Nat × Nat)) (s : Oracle V A × Disk V A), s.1.aborted = false → (runD alg s (creates l)).1.aborted = false := by
            intro l
            induction l with
            | nil => intro s hs; exact hs
            | cons q l ihl =>
              intro s hs
              obtain ⟨tq, cq⟩ := q
              simp only [creates, List.map_cons, runD]
              have hnaq : (step alg s.1 (.create tq cq)).2 ≠ .abort := create_not_abort alg s.1 tq cq
              cases hout : (step alg s.1 (.create tq cq)).2 with
              | abort => exact absurd hout hnaq
              | _ =>
                all_goals
                  apply ihl
                  simp only [stepD, step]
                  have := create_shape alg s.1 tq cq
                  unfold create
                  split
                  · split <;> exact hs
                  · simp only
                    split
                    · split <;> exact hs
                    · split
                      · exact hs
                      · split <;> exact hs
          have := hnab pre (stepD alg 2 (r, d) (.create tuner0 c0)) hinv1.not_aborted
          rw [this] at hab; cases hab
      · rcases runD_ok alg (stepD alg 2 (r, d) (.create tuner0 c0)) (creates pre) hinv1 hs1 with ⟨_, hdk⟩ | hab
        · exact Or.inl hdk
        · exact Or.inl (by
            exfalso
            have hi := hinv1.not_aborted
            -- same argument as above: creates never abort
            have hnab : ∀ (l : List (Nat × Nat)) (s : Oracle V A × Disk V A), s.1.aborted = false → (runD alg s (creates l)).1.aborted = false := by
              intro l
              induction l with
              | nil => intro s hs; exact hs
              | cons q l ihl =>
                intro s hs
                obtain ⟨tq, cq⟩ := q
                simp only [creates, List.map_cons, runD]
                have hnaq : (step alg s.1 (.create tq cq)).2 ≠ .abort := create_not_abort alg s.1 tq cq
                cases hout : (step alg s.1 (.create tq cq)).2 with
                | abort => exact absurd hout hnaq
                | _ =>
                  all_goals
                    apply ihl
                    simp only [stepD, step]
                    unfold create
                    split
                    · split <;> exact hs
                    · simp only
                      split
                      · split <;> exact hs
                      · split
                        · exact hs
                        · split <;> exact hs
            have := hnab pre (stepD alg 2 (r, d) (.create tuner0 c0)) hi
            rw [this] at hab; cases hab)
    · -- nothing was handed out: as right after the restart
      have hd1 : (stepD alg 2 (r, d) (.create tuner0 c0)) = ((step alg r (.create tuner0 c0)).1, d) := by
        have h1 : (stepD alg 2 (r, d) (.create tuner0 c0)).1 = (step alg r (.create tuner0 c0)).1 := rfl
        exact Prod.ext h1 hsame
      rw [hd1]
      exact ih (step alg r (.create tuner0 c0)).1 d (inv_create alg r tuner0 c0 hinv) htf1 hong1 hbd (by rw [hlen1]; exact hblen)

end Core
#print axioms Core.second_crash
#print axioms Core.tf_reload
