import Ktm.CoreC23
import Ktm.Requeue
import Ktm.Growth
/-! # C01 — the trial lifecycle is a well-formed state machine under any interleaving

Model: `Core.create / update / endT` over an arbitrary algorithm record `Alg` (random, grid, Hyperband
and Bayesian search are instances: `populate` may answer anything, `onEnd` may do anything to the
algorithm state). An interleaving of requests from any number of tuners with any outcomes is a
`List Core.Op`. Property theorems only; helper lemmas live in `Core*.lean`. -/
namespace Props.C01
open Core
variable {V A : Type}

/-- The lifecycle invariant (`Core.Inv`): ongoing trials are RUNNING, each held by one tuner and each
tuner holding one trial; every stored trial is in exactly one of ongoing / retry queue / end order;
the end order lists only COMPLETED/FAILED trials, once each; a COMPLETED trial carries a score; the
budget is respected. It holds in every state reachable by any request list — unless the search was
aborted by the failure streak, which is the only other way a run can end. -/
theorem lifecycle_invariant (alg : Alg V A) (a0 : A) (maxTrials : Option Nat) (maxRetries maxConsec : Nat)
    (ops : List Op) :
    Inv (run alg (init a0 maxTrials maxRetries maxConsec) ops) ∨
      (run alg (init (V := V) a0 maxTrials maxRetries maxConsec) ops).aborted = true :=
  inv_reachable alg _ ops (inv_init a0 maxTrials maxRetries maxConsec)

/-- the same from any state satisfying the invariant (used after a reload, C07/C08) -/
theorem lifecycle_invariant_from (alg : Alg V A) (o : Oracle V A) (h : Inv o) (ops : List Op) :
    Inv (run alg o ops) ∨ (run alg o ops).aborted = true :=
  inv_reachable alg o ops h

/-- a tuner that asks again before finishing gets the same trial back and nothing changes -/
theorem same_tuner_same_trial (alg : Alg V A) (o : Oracle V A) (h : Inv o) (tuner c id : Nat)
    (hh : holds o tuner = some id) : ∃ v, create alg o tuner c = (o, .trial id v) :=
  create_same_tuner alg o h tuner c id hh

/-- a new trial gets the next free id (ids are unique: `0, 1, 2, …` in creation order) -/
theorem fresh_id (alg : Alg V A) (o : Oracle V A) (tuner c id : Nat) (v : V)
    (hh : holds o tuner = none) (hq : o.retryQ = []) (hout : (create alg o tuner c).2 = .trial id v) :
    id = o.trials.length ∧ (create alg o tuner c).1.trials.length = o.trials.length + 1 :=
  create_fresh_id alg o tuner c id v hh hq hout

/-- every trial handed out by `create` is RUNNING afterwards and assigned to the asking tuner -/
theorem handed_out_running (alg : Alg V A) (o : Oracle V A) (h : Inv o) (tuner c id : Nat) (v : V)
    (hout : (create alg o tuner c).2 = .trial id v) :
    holds (create alg o tuner c).1 tuner = some id ∨
      (∃ t, (create alg o tuner c).1.trials[id]? = some t ∧ t.status = .running) := by
  have hi := inv_create alg o tuner c h
  cases hh : holds o tuner with
  | some id' =>
    left
    obtain ⟨v', hv'⟩ := create_same_tuner alg o h tuner c id' hh
    rw [hv'] at hout ⊢
    cases hout; exact hh
  | none =>
    right
    -- the trial is ongoing in the new state, hence RUNNING by the invariant
    have hon : id ∈ (create alg o tuner c).1.ongoing.map (·.2) := by
      simp only [create, hh] at hout ⊢
      cases hq : ({ o with tunerIds := addTuner o.tunerIds tuner } : Oracle V A).retryQ.getLast? with
      | some rid =>
        simp only [hq] at hout ⊢
        cases ht : ({ o with tunerIds := addTuner o.tunerIds tuner } : Oracle V A).trials[rid]? with
        | some t => simp only [ht] at hout ⊢; cases hout; simp
        | none => simp only [ht] at hout; cases hout
      | none =>
        simp only [hq] at hout ⊢
        by_cases hb : budgetReached ({ o with tunerIds := addTuner o.tunerIds tuner } : Oracle V A) = true
        · simp only [hb, if_true] at hout; cases hout
        · simp only [hb] at hout ⊢
          cases hp : alg.populate { o with tunerIds := addTuner o.tunerIds tuner } c with
          | mk a pop =>
            cases pop with
            | run v' => simp only [hp] at hout ⊢; cases hout; simp
            | idle => simp only [hp] at hout; cases hout
            | stop => simp only [hp] at hout; cases hout
    exact (ongoing_facts _ hi id hon).1

/-- a trial that ended COMPLETED or FAILED (it is in the end order) is never handed out again -/
theorem never_reissued (alg : Alg V A) (o : Oracle V A) (h : Inv o) (tuner c id : Nat) (v : V)
    (hend : id ∈ o.endOrder) : (create alg o tuner c).2 ≠ .trial id v := by
  intro hout
  obtain ⟨t, ht, _⟩ := h.end_ok id hend
  have hlt : id < o.trials.length := (List.getElem?_eq_some_iff.mp ht).1
  cases hh : holds o tuner with
  | some id' =>
    obtain ⟨v', hv'⟩ := create_same_tuner alg o h tuner c id' hh
    rw [hv'] at hout
    cases hout
    have hm := lookup_mem _ _ _ hh
    have hon : id ∈ o.ongoing.map (·.2) := List.mem_map.mpr ⟨_, hm, rfl⟩
    exact (ongoing_facts o h id hon).2.2 hend
  | none =>
    cases hq : o.retryQ.getLast? with
    | some rid =>
      obtain ⟨t', _, ho, _, _⟩ := retry_first alg o h tuner c rid hh hq
      rw [ho] at hout
      cases hout
      have hmem : id ∈ o.retryQ := by rw [getLast?_decomp _ _ hq]; simp
      exact h.retry_not_end id hmem hend
    | none =>
      have hq' : o.retryQ = [] := by
        cases hl : o.retryQ with
        | nil => rfl
        | cons a l => rw [hl] at hq; simp [List.getLast?_cons] at hq
      have := (create_fresh_id alg o tuner c id v hh hq' hout).1
      omega

/-- an ended trial is recorded as COMPLETED, FAILED or queued for retry — never lost: after any
non-aborting `endT` of an ongoing trial the trial is in the end order or in the retry queue -/
theorem ended_is_recorded (alg : Alg V A) (o : Oracle V A) (h : Inv o) (id : Nat) (oc : Outcome)
    (hon : isOngoing o id = true) (hna : (endT alg o id oc).2 ≠ .abort) :
    id ∈ (endT alg o id oc).1.endOrder ∨ id ∈ (endT alg o id oc).1.retryQ := by
  have hon' : id ∈ o.ongoing.map (·.2) := by
    simp only [isOngoing, List.any_eq_true] at hon
    obtain ⟨p, hp, he⟩ := hon
    exact List.mem_map.mpr ⟨p, hp, by simpa using he⟩
  obtain ⟨⟨t, ht, _⟩, _, _⟩ := ongoing_facts o h id hon'
  unfold endT at hna ⊢
  simp only [ht, hon, Bool.not_true, Bool.false_eq_true, if_false] at hna ⊢
  cases hr : (endDecision alg o.maxRetries t oc).retry with
  | true => right; simp
  | false =>
    simp only [hr, Bool.false_eq_true, if_false] at hna ⊢
    cases hs : hasStreak o.maxConsec
        ((o.endOrder ++ [id]).map (statusOf (setTrial o.trials id (fun t' =>
          { t' with status := (endDecision alg o.maxRetries t oc).st, runs := t.runs + 1,
                    score := (endDecision alg o.maxRetries t oc).sc })))) with
    | true => rw [hs] at hna; simp at hna
    | false => left; simp

/-- tuners may hand back changed hyperparameters when they end a trial (`old_trial.hyperparameters =
trial.hyperparameters`, `_record_values` again): the lifecycle invariant holds in every state reachable by request
lists that contain such `endWith id values outcome` requests with arbitrary values and any re-recording rule -/
theorem lifecycle_invariant_with_reported_values (alg : Alg V A) (record : A → V → V → A) (a0 : A)
    (maxTrials : Option Nat) (maxRetries maxConsec : Nat) (ops : List (Growth.GOp V)) :
    Inv (Growth.grun alg record (init a0 maxTrials maxRetries maxConsec) ops) ∨
      (Growth.grun alg record (init (V := V) a0 maxTrials maxRetries maxConsec) ops).aborted = true :=
  Growth.inv_greachable alg record _ ops (inv_init a0 maxTrials maxRetries maxConsec)

/-- non-vacuity: a concrete three-tuner run with a retry reaches a state satisfying the invariant -/
example : let alg : Alg Nat Unit := { populate := fun _ c => ((), .run c), onEnd := fun a _ => a, scoreOf := fun l => l.getLast?.join }
    let o := run alg (init () (some 3) 1 2)
      [.create 0 7, .create 1 8, .create 0 9, .endT 0 .invalid, .create 2 1, .update 0 (some 4), .endT 0 .completed]
    o.endOrder = [0] ∧ o.ongoing = [(1, 1)] ∧ o.aborted = false := by decide

end Props.C01
