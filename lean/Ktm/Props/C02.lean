import Ktm.CoreC23
import Ktm.Persist
import Ktm.TunerFile
/-! # C02 — `max_trials` is a hard budget on distinct trials

Same model as C01 (`Core.create / update / endT` over any `Alg`), plus `Core.reload` for the restart
clause. -/
namespace Props.C02
open Core
variable {V A : Type}

/-- `remaining_trials` -/
def remaining (o : Oracle V A) : Option Nat := o.maxTrials.map (· - o.trials.length)

/-- one request never pushes the number of distinct trials beyond the budget, whatever the algorithm
answers and whether or not the search aborts -/
theorem step_budget (alg : Alg V A) (o : Oracle V A) (op : Op) (m : Nat)
    (hm : o.maxTrials = some m) (hle : o.trials.length ≤ m) :
    (step alg o op).1.maxTrials = some m ∧ (step alg o op).1.trials.length ≤ m := by
  cases op with
  | create t c =>
    simp only [step, create]
    cases hh : holds o t with
    | some id => simp only []; split <;> exact ⟨hm, hle⟩
    | none =>
      simp only []
      cases hq : o.retryQ.getLast? with
      | some rid =>
        simp only []
        split
        · exact ⟨hm, by simpa [length_setTrial] using hle⟩
        · exact ⟨hm, hle⟩
      | none =>
        simp only []
        by_cases hb : budgetReached ({ o with tunerIds := addTuner o.tunerIds t } : Oracle V A) = true
        · simp only [hb, if_true]; exact ⟨hm, hle⟩
        · simp only [hb]
          have hlt : o.trials.length < m := by
            simp only [budgetReached, hm, Bool.not_eq_true, decide_eq_false_iff_not] at hb; omega
          cases hp : alg.populate { o with tunerIds := addTuner o.tunerIds t } c with
          | mk a pop =>
            cases pop with
            | run v => simp only []; exact ⟨hm, by simp; omega⟩
            | idle => exact ⟨hm, hle⟩
            | stop => exact ⟨hm, hle⟩
  | update id r =>
    simp only [step, update]
    split
    · exact ⟨hm, by simpa [length_setTrial] using hle⟩
    · exact ⟨hm, hle⟩
  | endT id oc =>
    simp only [step, endT]
    split
    · exact ⟨hm, hle⟩
    · split
      · exact ⟨hm, hle⟩
      · split
        · exact ⟨hm, by simpa [length_setTrial] using hle⟩
        · split
          · exact ⟨hm, by simpa [length_setTrial] using hle⟩
          · exact ⟨hm, by simpa [length_setTrial] using hle⟩

/-- **hard budget**: for every request list, every algorithm and every outcome pattern the number
of distinct trials never exceeds `max_trials = N` (aborted runs included) -/
theorem budget_reachable (alg : Alg V A) (o : Oracle V A) (ops : List Op) (m : Nat)
    (hm : o.maxTrials = some m) (hle : o.trials.length ≤ m) :
    (run alg o ops).maxTrials = some m ∧ (run alg o ops).trials.length ≤ m := by
  induction ops generalizing o with
  | nil => exact ⟨hm, hle⟩
  | cons op ops ih =>
    have hs := step_budget alg o op m hm hle
    simp only [run]
    split
    · exact hs
    · exact ih _ hs.1 hs.2

theorem budget_from_init (alg : Alg V A) (a0 : A) (N maxRetries maxConsec : Nat) (ops : List Op) :
    (run alg (init (V := V) a0 (some N) maxRetries maxConsec) ops).trials.length ≤ N :=
  (budget_reachable alg _ ops N rfl (by simp [init])).2

/-- retries do not consume budget: serving a pending retry leaves the number of trials unchanged and
re-issues the stored values -/
theorem retry_is_free (alg : Alg V A) (o : Oracle V A) (h : Inv o) (tuner c id : Nat)
    (hh : holds o tuner = none) (hq : o.retryQ.getLast? = some id) :
    ∃ t, o.trials[id]? = some t ∧ (create alg o tuner c).2 = .trial id t.vals ∧
      (create alg o tuner c).1.trials.length = o.trials.length ∧
      (create alg o tuner c).1.retryQ = o.retryQ.dropLast :=
  retry_first alg o h tuner c id hh hq

/-- once `N` trials exist and no retry is pending every further request of a tuner without a trial is
answered STOPPED and adds nothing -/
theorem stopped_when_budget_used (alg : Alg V A) (o : Oracle V A) (tuner c : Nat)
    (hh : holds o tuner = none) (hq : o.retryQ = []) (hb : budgetReached o = true) :
    (create alg o tuner c).2 = .stopped ∧ (create alg o tuner c).1.trials = o.trials :=
  stopped_when_exhausted alg o tuner c hh hq hb

/-- `remaining_trials = N − number of distinct trials`, in every reachable state -/
theorem remaining_eq (alg : Alg V A) (o : Oracle V A) (ops : List Op) (m : Nat)
    (hm : o.maxTrials = some m) (hle : o.trials.length ≤ m) :
    remaining (run alg o ops) = some (m - (run alg o ops).trials.length) := by
  simp [remaining, (budget_reachable alg o ops m hm hle).1]

/-- the budget survives a restart: reloading a consistent project directory keeps the number of
distinct trials and the limit, so `budget_reachable` applies again to the resumed run -/
theorem budget_after_reload (alg : Alg V A) (o cfg : Oracle V A) (d : Disk V A) (h : Inv o) (hd : DiskOK o d)
    (hcfg : cfg.maxTrials = o.maxTrials ∧ cfg.maxRetries = o.maxRetries ∧ cfg.maxConsec = o.maxConsec ∧ cfg.aborted = o.aborted)
    (m : Nat) (hm : o.maxTrials = some m) (ops : List Op) :
    ∃ r, reload cfg d = some r ∧ (run alg r ops).trials.length ≤ m := by
  obtain ⟨r, hr, hinv, _, _, hlen⟩ := reload_good o cfg d h hd hcfg
  refine ⟨r, hr, ?_⟩
  have hrm : r.maxTrials = some m := by
    simp only [reload] at hr
    split at hr
    · cases hr
    · split at hr
      · cases hr
      · cases hr; simpa [hcfg.1] using hm
  exact (budget_reachable alg r ops m hrm (by rw [hlen]; exact h.budget m hm)).2

/-- non-vacuity: budget 2, three tuners, a retry in between: two trials, third tuner STOPPED -/
example : let alg : Alg Nat Unit := { populate := fun _ c => ((), .run c), onEnd := fun a _ => a, scoreOf := fun l => l.getLast?.join }
    let o := run alg (init () (some 2) 1 3) [.create 0 7, .create 1 8, .endT 0 .invalid, .create 2 9, .create 0 5]
    o.trials.length = 2 ∧ (match (create alg o 3 0).2 with | .stopped => true | _ => false) = true ∧ remaining o = some 0 := by decide

/-- a restart may configure ANOTHER budget (extend a search, or cut it short): the reloaded oracle works with the budget configured
now — not with the one of the run that wrote the files — and, when that budget is not already exceeded by the trials on disk, no request
list takes the number of trials beyond it (the seeded change C02-H restored the old budget from `oracle.json`) -/
theorem budget_after_reload_with_another_budget (alg : Alg V A) (o cfg : Oracle V A) (d : Disk V A) (h : Inv o) (hd : DiskOK o d)
    (hcfg : cfg.maxRetries = o.maxRetries ∧ cfg.maxConsec = o.maxConsec ∧ cfg.aborted = o.aborted)
    (m' : Nat) (hm : cfg.maxTrials = some m') (hge : o.trials.length ≤ m') (ops : List Op) :
    ∃ r, reload cfg d = some r ∧ r.maxTrials = some m' ∧ (run alg r ops).trials.length ≤ m' := by
  -- the same disk is consistent with the old state re-labelled with the new budget (the budget is not part of the files)
  have h' : Inv { o with maxTrials := some m' } :=
    { h with budget := by intro m hmm; simp only [Option.some.injEq] at hmm; subst hmm; exact hge }
  have hd' : DiskOK { o with maxTrials := some m' } d := ⟨hd.ofile, hd.tfiles⟩
  obtain ⟨r, hr, hb⟩ := budget_after_reload alg { o with maxTrials := some m' } cfg d h' hd' ⟨hm, hcfg.1, hcfg.2.1, hcfg.2.2⟩ m' rfl ops
  refine ⟨r, hr, ?_, hb⟩
  simp only [reload] at hr
  split at hr
  · cases hr
  · split at hr
    · cases hr
    · cases hr; exact hm

/-- restart at tuner level: `BaseTuner` reloads only when its own state file exists, and writes that file at the end of every
`on_trial_end`. For every number of trials and EVERY crash point of the search's write sequence the restarted tuner knows every
trial the disk records as ended (so `remaining_trials = N − n` goes on holding across the restart) — except in the window
"exactly one trial ended, tuner file not yet written" (known finding F18, C08) -/
theorem tuner_restart_knows_finished_trials (n k : Nat) :
    TunerFile.restartKnows (TunerFile.disk ((TunerFile.searchWrites n).take k)) = (TunerFile.disk ((TunerFile.searchWrites n).take k)).1 ∨
    ((TunerFile.disk ((TunerFile.searchWrites n).take k)).1 = 1 ∧ (TunerFile.disk ((TunerFile.searchWrites n).take k)).2 = false) :=
  TunerFile.restart_knows_all_but_window n k

/-- non-vacuity / the other side: a tuner that wrote its file only when the search is over would forget two finished trials -/
example : (TunerFile.disk (TunerFile.lateWrites 2)).1 = 2 ∧ TunerFile.restartKnows (TunerFile.disk (TunerFile.lateWrites 2)) = 0 :=
  TunerFile.late_tuner_file_forgets

end Props.C02
