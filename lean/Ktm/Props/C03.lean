import Ktm.CoreC23
import Ktm.Streak
import Ktm.Props.C01
/-! # C03 — retry and failure policy: INVALID retried, FAILED final, abort exactly on a streak

Model: `Core.endDecision` (what `end_trial` + `_retry` decide), `Core.endT`, `Core.create`,
`Core.hasStreak` (the scanning loop of `_check_consecutive_failures`). `t.runs` is the number of
finished runs of the trial (`_run_times`), `m = max_retries_per_trial`. -/
namespace Props.C03
open Core
variable {V A : Type}

/-- a run that ends INVALID — it raised, or it finished with a NaN objective — below the run limit
`max_retries + 1` leaves the trial INVALID and queues it for retry -/
theorem invalid_is_retried (alg : Alg V A) (m : Nat) (t : Trial V) (oc : Outcome)
    (hinv : oc = .invalid ∨ (oc = .completed ∧ alg.scoreOf t.reports = none)) (hruns : t.runs + 1 < m + 1) :
    (endDecision alg m t oc).retry = true ∧ (endDecision alg m t oc).st = .invalid :=
  invalid_requeued alg m t oc hinv hruns

/-- the `(max_retries + 1)`-th INVALID run makes the trial FAILED, with no further retry -/
theorem failed_at_run_limit (alg : Alg V A) (m : Nat) (t : Trial V) (oc : Outcome)
    (hinv : oc = .invalid ∨ (oc = .completed ∧ alg.scoreOf t.reports = none)) (hruns : ¬ t.runs + 1 < m + 1) :
    (endDecision alg m t oc).retry = false ∧ (endDecision alg m t oc).st = .failed :=
  failed_at_limit alg m t oc hinv hruns

/-- a trial ended FAILED is final at once -/
theorem failed_is_final (alg : Alg V A) (m : Nat) (t : Trial V) :
    (endDecision alg m t .failed).retry = false ∧ (endDecision alg m t .failed).st = .failed :=
  failed_final alg m t

/-- a run (first or retry) that finishes normally with a non-NaN objective makes the trial COMPLETED
with the score of what was reported … -/
theorem completed_with_run_score (alg : Alg V A) (m : Nat) (t : Trial V) (s : Int)
    (hs : alg.scoreOf t.reports = some s) :
    (endDecision alg m t .completed).retry = false ∧ (endDecision alg m t .completed).st = .completed ∧
    (endDecision alg m t .completed).sc = some s :=
  completed_with_score alg m t s hs

/-- … and what was reported is that run's reports only: queuing a trial for retry empties its
reports (and keeps its values), so the retry's score cannot depend on the failed run -/
theorem retry_starts_clean (alg : Alg V A) (o : Oracle V A) (id : Nat) (oc : Outcome) (t : Trial V)
    (ht : o.trials[id]? = some t) (hon : isOngoing o id = true)
    (hr : (endDecision alg o.maxRetries t oc).retry = true) :
    ∃ t', (endT alg o id oc).1.trials[id]? = some t' ∧ t'.reports = [] ∧ t'.vals = t.vals :=
  retry_resets_reports alg o id oc t ht hon hr

/-- pending retries are issued ahead of any new trial, with the same id and values -/
theorem retry_before_new (alg : Alg V A) (o : Oracle V A) (h : Inv o) (tuner c id : Nat)
    (hh : holds o tuner = none) (hq : o.retryQ.getLast? = some id) :
    ∃ t, o.trials[id]? = some t ∧ (create alg o tuner c).2 = .trial id t.vals :=
  let ⟨t, ht, ho, _⟩ := retry_first alg o h tuner c id hh hq
  ⟨t, ht, ho⟩

/-- a trial ended FAILED or COMPLETED is never issued again -/
theorem final_never_reissued (alg : Alg V A) (o : Oracle V A) (h : Inv o) (tuner c id : Nat) (v : V)
    (hend : id ∈ o.endOrder) : (create alg o tuner c).2 ≠ .trial id v :=
  Props.C01.never_reissued alg o h tuner c id v hend

/-- **abort exactly on a streak**: from a state satisfying the invariant, `end_trial` raises the abort
error iff the finished trials, in finishing order, now contain `max_consecutive_failed_trials` FAILED
in a row (as computed by the scanning loop) -/
theorem abort_iff (alg : Alg V A) (o : Oracle V A) (h : Inv o) (id : Nat) (oc : Outcome) :
    (endT alg o id oc).2 = .abort ↔
      hasStreak o.maxConsec ((endT alg o id oc).1.endOrder.map (statusOf (endT alg o id oc).1.trials)) = true := by
  constructor
  · exact abort_iff_streak alg o id oc
  · intro hs
    cases hout : (endT alg o id oc).2 with
    | abort => rfl
    | _ =>
      all_goals
        have hinv := inv_end alg o id oc h (by rw [hout]; intro hc; cases hc)
        have hk : (endT alg o id oc).1.maxConsec = o.maxConsec := by
          unfold endT; split <;> (try rfl); split <;> (try rfl); simp only []; split <;> (try rfl); split <;> rfl
        have := hinv.no_streak
        rw [hk] at this
        rw [this] at hs
        cases hs

/-- the scanning loop finds a streak iff `k` consecutive FAILED exist somewhere in the list -/
theorem scan_is_streak (k : Nat) (hk : 0 < k) (l : List Status) :
    hasStreak k l = true ↔ ∃ pre suf, l = pre ++ List.replicate k Status.failed ++ suf :=
  hasStreak_iff k hk l

/-- non-vacuity: `F F` with limit 2 aborts; `F C F` does not -/
example : let alg : Alg Nat Unit := { populate := fun _ c => ((), .run c), onEnd := fun a _ => a, scoreOf := fun l => l.getLast?.join }
    (run alg (init () none 0 2) [.create 0 1, .endT 0 .failed, .create 0 2, .endT 1 .failed]).aborted = true ∧
    (run alg (init () none 0 2) [.create 0 1, .endT 0 .failed, .create 0 2, .update 1 (some 3), .endT 1 .completed,
        .create 0 3, .endT 2 .failed]).aborted = false := by decide

/-- non-vacuity of the retry clauses: one retry allowed, first run INVALID, retry completes with its own score -/
example : let alg : Alg Nat Unit := { populate := fun _ c => ((), .run c), onEnd := fun a _ => a, scoreOf := fun l => l.getLast?.join }
    let o := run alg (init () none 1 3) [.create 0 1, .update 0 none, .endT 0 .completed, .create 0 9, .update 0 (some 5), .endT 0 .completed]
    (o.trials.map (fun t => (t.status, t.score, t.runs))) = [(.completed, some 5, 2)] := by decide

end Props.C03
