import Ktm.Ranking
import Ktm.Metrics
import Ktm.CoreC23
import Ktm.HyperbandInv
import Ktm.Symmetry
/-! # C04 — best trials are the best COMPLETED trials in order; direction is symmetric

Model: `Ranking.bestTrials` (`get_best_trials`: stable sort of the COMPLETED trials by score under the
direction's comparator, padded with the others only when short, cut to `n`), `Metrics.bestValue`
(`score_trial`: best over steps of the per-step mean, NaN ignored unless all NaN), `Core.endDecision`
(NaN ⇒ not COMPLETED), `HB.bestOf` (the winner of a Hyperband promotion). Scores are extended rationals. -/
namespace Props.C04
open Ranking

/-- the COMPLETED part of the answer is ordered by score in the objective's direction -/
theorem best_sorted (m : Bool) (ts : List T) :
    ((ts.filter (·.completed)).mergeSort (le m)).Pairwise (fun a b => le m a b = true) :=
  sorted_pairwise m ts

/-- no running, invalid or failed trial is ever placed ahead of a completed one -/
theorem completed_first (m : Bool) (ts : List T) (n : Nat) :
    ∃ k, ((bestTrials m ts n).take k).all (·.completed) = true ∧
         ((bestTrials m ts n).drop k).all (fun t => !t.completed) = true :=
  completed_prefix m ts n

/-- every n from 1 to beyond the number of trials: the answer has `min n (#completed)` entries when
enough completed trials exist, and is padded (never beyond `n`, never beyond all trials) otherwise -/
theorem best_length (m : Bool) (ts : List T) (n : Nat) :
    (bestTrials m ts n).length =
      if n ≤ (ts.filter (·.completed)).length then n else min n ts.length := by
  unfold bestTrials
  simp only [List.length_take, List.length_mergeSort]
  have hsplit : (ts.filter (·.completed)).length + (ts.filter (fun t => !t.completed)).length = ts.length := by
    induction ts with
    | nil => rfl
    | cons a l ih => simp only [List.filter_cons]; cases a.completed <;> simp <;> omega
  split <;> split <;> simp only [List.length_append, List.length_mergeSort] <;> omega

/-- with at least `n` completed trials the answer is the `n` best: nothing left out beats anything returned -/
theorem best_top_n (m : Bool) (ts : List T) (n : Nat) (hn : n ≤ (ts.filter (·.completed)).length)
    (a b : T) (ha : a ∈ bestTrials m ts n) (hb : b ∈ ts) (hbc : b.completed = true) (hbn : b ∉ bestTrials m ts n) :
    le m a b = true := by
  unfold bestTrials at ha hbn
  have hlen : ¬ ((ts.filter (·.completed)).mergeSort (le m)).length < n := by
    simp only [List.length_mergeSort]; omega
  simp only [hlen, if_false] at ha hbn
  have hsorted := sorted_pairwise m ts
  generalize hS : (ts.filter (·.completed)).mergeSort (le m) = S at *
  have hbS : b ∈ S := by
    rw [← hS]
    exact (List.mergeSort_perm _ _).mem_iff.mpr (List.mem_filter.mpr ⟨hb, hbc⟩)
  have hsplit : S = S.take n ++ S.drop n := (List.take_append_drop n S).symm
  rw [hsplit] at hsorted hbS
  rcases List.mem_append.mp hbS with h | h
  · exact absurd h hbn
  · exact (List.pairwise_append.mp hsorted).2.2 a ha b h

/-- direction symmetry of the ranking: maximising `s` ranks exactly like minimising `−s` -/
theorem ranking_symmetric (ts : List T) (n : Nat) :
    (bestTrials true ts n).map negT = bestTrials false (ts.map negT) n :=
  symmetric ts n

/-- a trial's score is the best value, in the metric's direction, of the per-step means, NaN steps ignored -/
theorem score_is_best_mean (m : Bool) (l : List Metrics.FV) :
    match Metrics.nanBest m l with
    | some b => Metrics.FV.val b ∈ l ∧ ∀ a, Metrics.FV.val a ∈ l → Metrics.leDir m b a = true
    | none => ∀ a, Metrics.FV.val a ∉ l :=
  Metrics.nanBest_spec m l

/-- a NaN among several executions reported at one step is not dropped: that step's mean is NaN (and is then ignored for the best
value unless every step is NaN) — the per-step mean is numpy's `mean`, not `nanmean` -/
theorem nan_execution_makes_the_step_nan (l : List Metrics.FV) (h : Metrics.FV.nan ∈ l) : Metrics.mean l = .nan :=
  Metrics.mean_nan_of_mem l h

/-- a trial whose objective is NaN never counts as completed -/
theorem nan_never_completed {V A : Type} (alg : Core.Alg V A) (maxRetries : Nat) (t : Core.Trial V) (oc : Core.Outcome) :
    (Core.endDecision alg maxRetries t oc).st = .completed → (Core.endDecision alg maxRetries t oc).sc.isSome :=
  (Core.endDecision_spec alg maxRetries t oc).2.2

/-- **whole searches are symmetric**: two algorithm records that mirror each other (scoring rule of the negated reports =
negated scoring rule; same choice of the next configuration on mirrored states, the algorithm state mapped by `f`) answer
EVERY request list identically — same trial ids, same values, same IDLE / STOPPED / abort, for any number of tuners, any
interleaving and any outcomes — … -/
theorem whole_search_symmetric {V A : Type} (f : A → A) (algMax algMin : Core.Alg V A) (m : Symmetry.MirrorF f algMax algMin)
    (o : Core.Oracle V A) (ops : List Core.Op) :
    Symmetry.outputs algMin (Symmetry.negOf f o) (ops.map Symmetry.negOp) = Symmetry.outputs algMax o ops :=
  Symmetry.mirror_outputs f algMax algMin m ops o

/-- … and end in mirrored states: the same trials, statuses, orders and queues, every score negated -/
theorem whole_search_states_mirror {V A : Type} (f : A → A) (algMax algMin : Core.Alg V A) (m : Symmetry.MirrorF f algMax algMin)
    (o : Core.Oracle V A) (ops : List Core.Op) :
    Core.run algMin (Symmetry.negOf f o) (ops.map Symmetry.negOp) = Symmetry.negOf f (Core.run algMax o ops) :=
  Symmetry.mirror_run f algMax algMin m ops o

/-- random search (and the Bayesian warm-up) and grid search are score-blind, hence symmetric as whole searches: maximising
`s` and minimising `−s` issue the same trials -/
theorem random_search_symmetric {W : Type} [DecidableEq W] (cands : Nat → List W) :
    Symmetry.Mirror (Symmetry.randomAlg false cands) (Symmetry.randomAlg true cands) := Symmetry.random_mirror cands
theorem grid_search_symmetric : Symmetry.Mirror (Symmetry.gridAlg false) (Symmetry.gridAlg true) := Symmetry.grid_mirror

/-- the whole Hyperband oracle is symmetric as well: it reads scores only to pick the promotion winner, and with the
direction flag it carries flipped (`Symmetry.flipDir`) it picks the same trial on the mirrored state -/
theorem hyperband_search_symmetric : Symmetry.MirrorF Symmetry.flipDir HB.alg HB.alg := Symmetry.hyperband_mirror

/-- Hyperband's promotion winner is symmetric: the first optimum when maximising `s` is the first
optimum when minimising `−s` -/
theorem hyperband_winner_symmetric (l : List (Nat × Int)) :
    (HB.bestOf false l).map (fun p => (p.1, -p.2)) = HB.bestOf true (l.map (fun p => (p.1, -p.2))) := by
  induction l with
  | nil => rfl
  | cons x xs ih =>
    simp only [HB.bestOf, List.map_cons]
    rw [← ih]
    cases h : HB.bestOf false xs with
    | none => rfl
    | some y =>
      simp only [Option.map_some, HB.better, Bool.false_eq_true, if_false, if_true]
      by_cases hlt : x.2 < y.2
      · have : -y.2 < -x.2 := by omega
        simp [hlt, this]
      · have : ¬ -y.2 < -x.2 := by omega
        simp [hlt, this]

/-- non-vacuity (the hypotheses of `best_top_n` are satisfiable; the sort itself is exercised by the
correspondence suite, `List.mergeSort` does not reduce in the kernel): one completed and one failed trial -/
example : bestTrials true [⟨0, true, .fin 1⟩, ⟨1, false, .fin 9⟩] 1 = [⟨0, true, .fin 1⟩] ∧
    bestTrials true [⟨0, true, .fin 1⟩, ⟨1, false, .fin 9⟩] 2 = [⟨0, true, .fin 1⟩, ⟨1, false, .fin 9⟩] := by
  simp [bestTrials]

end Props.C04
