import Ktm.RandomSeeded
import Ktm.GridReach
import Ktm.HyperbandSched
import Ktm.Transforms
import Ktm.Continuous
/-! # C05 — issued values cover exactly the active hyperparameters, within their domain

Model: a search space is a parent-first list of entries `GHP` (name, value list, conditions), an
assignment `Env` binds names to values; `enum` = all assignments of the active entries. The three ways an
oracle produces values are `RandomSeeded.randomValues` (random search, Hyperband round 0, Bayesian warm-up),
`Grid.alg` (grid search: trial `i` carries `enum[i]`) and Hyperband promotion (copy of the parent's values).
Domain membership of the value lists themselves is C14 (`Transforms.*`). -/
namespace Props.C05
open Core GridSucc

/-- the central fact: an enumerated assignment binds an entry iff the entry is active under the assignment
itself, and binds it to a member of the entry's value list — none missing, none for inactive entries -/
theorem enumerated_is_exact (hs : List GHP) (e : Env) (hnd : (names hs).Nodup) (hpf : ParentsFirst [] hs)
    (he : e ∈ enum hs []) :
    ∀ g ∈ hs, (active e g = true → ∃ v ∈ g.vals, e.lookup g.name = some v) ∧
              (active e g = false → e.lookup g.name = none) :=
  enum_exact hs [] e [] (by simp [keys]) (by simpa using hnd) hpf he

/-- **sampling oracles**: whatever the PRNG draws, the seed and the tried set, a sampled assignment is an
enumerated one, hence exact -/
theorem sampled_is_exact (draw : Nat → Option (Nat × Nat)) (s : RandomSeeded.St)
    (hv : ∀ g ∈ s.space, g.vals ≠ []) (hnd : (names s.space).Nodup) (hpf : ParentsFirst [] s.space)
    (fuel k : Nat) (v : Env) (k' : Nat) (h : RandomSeeded.randomValues draw s fuel k = (some v, k')) :
    ∀ g ∈ s.space, (active v g = true → ∃ x ∈ g.vals, v.lookup g.name = some x) ∧
                   (active v g = false → v.lookup g.name = none) :=
  enumerated_is_exact s.space v hnd hpf (RandomSeeded.randomValues_spec draw s hv fuel k v k' h).1

/-- **grid search**: every trial of every reachable state carries an enumerated, hence exact, assignment -/
theorem grid_is_exact (space : List GHP) (hs : Grid.SpaceOK space) (hpf : ParentsFirst [] space) (ops : List Op)
    (i : Nat) (t : Trial Env) (ht : (run Grid.alg (Grid.init space) ops).trials[i]? = some t) :
    ∀ g ∈ space, (active t.vals g = true → ∃ x ∈ g.vals, t.vals.lookup g.name = some x) ∧
                 (active t.vals g = false → t.vals.lookup g.name = none) := by
  have h := Grid.ginv_reachable (Grid.init space) hs (Grid.ginv_init space) ops
  have hmem := h.1.vals i t ht
  rw [h.2] at hmem
  exact enumerated_is_exact space t.vals hs.names_nodup hpf (List.mem_of_getElem? hmem)

/-- **Hyperband promotion** changes only the `tuner/*` entries: the hyperparameter values are the parent's -/
theorem hyperband_promotion_keeps_values (cfg : HB.Cfg) (o : HB.O) (h : HB.HInv cfg o) (hpos : ∀ b, 0 < cfg.size b 0)
    (tuner c : Nat) (v : HB.HV) (hout : (create HB.alg o tuner c).2 = .trial o.trials.length v) (hr : 1 ≤ v.round) :
    ∃ pid pt, v.parent = some pid ∧ o.trials[pid]? = some pt ∧ pt.vals.base = v.base := by
  have hs := (HB.create_fresh_spec o cfg h hpos tuner c).2.1 v hout
  generalize (create HB.alg o tuner c).1.alg = s' at hs
  cases hs with
  | random _ _ b _ _ hr0 _ _ _ _ => omega
  | promote _ _ pid _ _ _ hp _ _ hpar _ =>
    obtain ⟨pt, hpt, _, hb⟩ := hpar
    exact ⟨pid, pt, hp, hpt, hb⟩

/-- value lists are the declared domains (stepped linear kinds): every enumerated value lies in `[min, max]`
on the step lattice -/
theorem value_list_in_domain (lo hi : Int) (step : Nat) (hs : 0 < step) (hle : lo ≤ hi) (v : Int)
    (hv : v ∈ Transforms.values lo hi step) : lo ≤ v ∧ v ≤ hi ∧ ∃ k : Nat, v = lo + k * step :=
  (Transforms.mem_values lo hi step hs hle v).mp hv

/-- **continuous kinds** (`Float` without a step), in real arithmetic: every probability in `[0, 1]` — the bound 1.0 that
the Bayesian optimiser can return included — is mapped into `[min, max]` under linear, log and reverse_log sampling -/
theorem float_value_in_range (lo hi p : ℝ) (hle : lo ≤ hi) (h0 : 0 ≤ p) (h1 : p ≤ 1) :
    (lo ≤ Continuous.sampleLinear lo hi p ∧ Continuous.sampleLinear lo hi p ≤ hi) ∧
    (0 < lo → lo ≤ Continuous.sampleLog lo hi p ∧ Continuous.sampleLog lo hi p ≤ hi) ∧
    (0 < lo → lo ≤ Continuous.sampleRevLog lo hi p ∧ Continuous.sampleRevLog lo hi p ≤ hi) :=
  ⟨Continuous.linear_in_range hle h0 h1, fun hlo => Continuous.log_in_range hlo hle h0 h1,
   fun hlo => Continuous.revlog_in_range hlo hle h0 h1⟩

/-- **`Int` without a step**: `int(sample(prob, max + 1))` clamped to `max` is a member of `{min, …, max}` for every
probability in `[0, 1]` under all three sampling modes (without the clamp the log modes give `max + 1` at the top end:
defects F11 / F17, repaired) -/
theorem int_value_in_range (lo hi : ℤ) (hle : lo ≤ hi) (p : ℝ) (h0 : 0 ≤ p) (h1 : p ≤ 1) :
    (p < 1 → lo ≤ ⌊Continuous.sampleLinear lo (hi + 1) p⌋ ∧ ⌊Continuous.sampleLinear lo (hi + 1) p⌋ ≤ hi) ∧
    (0 < lo → lo ≤ min ⌊Continuous.sampleLog lo (hi + 1) p⌋ hi ∧ min ⌊Continuous.sampleLog lo (hi + 1) p⌋ hi ≤ hi) ∧
    (0 < lo → lo ≤ min ⌊Continuous.sampleRevLog lo (hi + 1) p⌋ hi ∧ min ⌊Continuous.sampleRevLog lo (hi + 1) p⌋ hi ≤ hi) :=
  ⟨fun hp => Continuous.int_linear_in_range lo hi hle h0 hp, fun hlo => Continuous.int_log_clamped lo hi hlo hle h0 h1,
   fun hlo => Continuous.int_revlog_clamped lo hi hlo hle h0 h1⟩

/-- partial — Bayesian proposals: `_vector_to_values` walks the space like `sample` with probabilities taken
from the optimiser's vector instead of the PRNG, so `sampled_is_exact` covers it for every vector in
`[0,1)^n`; continuous kinds are covered by the two theorems above in real arithmetic; what stays outside is the
floating-point evaluation itself (`math.pow`, rounding of `min + p·(max − min)`): validated per issued trial. -/
theorem bayes_vector_partial (pick : Nat → GHP → Nat) (hs : List GHP) (hv : ∀ g ∈ hs, g.vals ≠ [])
    (hnd : (names hs).Nodup) (hpf : ParentsFirst [] hs) :
    ∀ g ∈ hs, (active (sample pick hs [] 0).1 g = true → ∃ x ∈ g.vals, (sample pick hs [] 0).1.lookup g.name = some x) ∧
              (active (sample pick hs [] 0).1 g = false → (sample pick hs [] 0).1.lookup g.name = none) :=
  enumerated_is_exact hs _ hnd hpf (sample_mem_enum pick hs hv [] 0)

/-- non-vacuity: entry 1 is active only when entry 0 = 1: the enumeration binds it exactly there -/
example : enum Grid.demoSpace [] = [[(0, 0), (2, 3)], [(0, 0), (2, 4)], [(0, 1), (1, 5), (2, 3)], [(0, 1), (1, 5), (2, 4)],
    [(0, 1), (1, 6), (2, 3)], [(0, 1), (1, 6), (2, 4)]] := by decide

end Props.C05
