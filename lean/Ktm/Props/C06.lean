import Ktm.RandomSeeded
import Ktm.Random
import Ktm.Growth
import Ktm.Props.C11
/-! # C06 — sampling oracles never start the same configuration twice, and give up cleanly

Model: `RandomSeeded.randomValues` (`_random_values`: resample while the assignment is in the tried set, at
most `max_collisions + 1` passes) and the abstract `RandomAlg` (the tried list over any value type). The hash
of the active values is modelled as the assignment itself. -/
namespace Props.C06
open Core GridSucc

/-- a sampled assignment is never one of the tried ones, whatever the PRNG draws -/
theorem sampled_not_tried (draw : Nat → Option (Nat × Nat)) (s : RandomSeeded.St) (hv : ∀ g ∈ s.space, g.vals ≠ [])
    (fuel k : Nat) (v : Env) (k' : Nat) (h : RandomSeeded.randomValues draw s fuel k = (some v, k')) : v ∉ s.tried :=
  (RandomSeeded.randomValues_spec draw s hv fuel k v k' h).2.1

/-- **bounded effort, no livelock**: giving up (`none` ⇒ STOPPED, or IDLE for Hyperband while trials run)
happens after exactly `max_collisions + 1` passes that all produced tried assignments; the function is
structurally recursive on that fuel, so it cannot loop -/
theorem gives_up_after_bound (draw : Nat → Option (Nat × Nat)) (s : RandomSeeded.St) (k k' : Nat)
    (h : RandomSeeded.randomValues draw s (s.maxCollisions + 1) k = (none, k')) :
    ∃ ks : List Nat, ks.length = s.maxCollisions + 1 ∧ ∀ j ∈ ks, s.tried.contains (RandomSeeded.pass draw s j).1 = true :=
  RandomSeeded.randomValues_none draw s _ k k' h

/-- **no configuration is started twice**: along every request list the values of all trials of a sampling
oracle stay pairwise distinct and recorded in the tried list -/
theorem no_duplicate_start {W : Type} [DecidableEq W] (cands : Nat → List W) (o : Oracle W (RandomAlg.St W))
    (r : RandomAlg.RInv o) (tuner c : Nat) : RandomAlg.RInv (create (RandomAlg.alg cands) o tuner c).1 :=
  RandomAlg.rinv_create cands o r tuner c

/-- the answer on exhaustion: random sampling says STOPPED (never IDLE) -/
theorem exhausted_answer_random {W : Type} [DecidableEq W] (cands : Nat → List W) :
    Props.C11.IdleOnlyWhileBusy (RandomAlg.alg cands) := Props.C11.random_idle cands

/-- Hyperband on exhaustion: IDLE only while other trials are still running, else STOPPED -/
theorem exhausted_answer_hyperband (o : HB.O) (s' : HB.St) (bi num : Nat) :
    HB.randomIn o 0 s' bi num = (s', if o.ongoing.isEmpty then .stop else .idle) := rfl

/-- **growth of the space during the search** (tuned new entries): `end_trial` stores the values the tuner reports and
records them again, dropping the hash recorded before. In every state reachable by any request list with arbitrary
reported values, a freshly started trial differs from the *current* values of every stored trial, unless it is one
of the dropped (stale) configurations … -/
theorem fresh_differs_after_growth {W : Type} [DecidableEq W] (cands : Nat → List W) (o0 : Oracle W (Growth.SSt W))
    (r0 : Growth.Recorded o0) (ops : List (Growth.GOp W)) (tuner c : Nat) (v : W)
    (hnew : (create (Growth.algS cands) (Growth.grun (Growth.algS cands) (Growth.recordS true) o0 ops) tuner c).2
              = .trial (Growth.grun (Growth.algS cands) (Growth.recordS true) o0 ops).trials.length v)
    (hstale : v ∉ (Growth.grun (Growth.algS cands) (Growth.recordS true) o0 ops).alg.stale) :
    ∀ (i : Nat) (t : Trial W), (Growth.grun (Growth.algS cands) (Growth.recordS true) o0 ops).trials[i]? = some t → t.vals ≠ v :=
  Growth.fresh_differs_unless_stale true cands o0 r0 ops tuner c v hnew hstale

/-- … and a stale configuration — one leaving unbound an entry of the grown space that is active under it — is never
enumerated, hence never sampled, from the grown space -/
theorem stale_never_sampled (hs : List GHP) (old : Env) (hnd : (names hs).Nodup) (hpf : ParentsFirst [] hs)
    (g : GHP) (hg : g ∈ hs) (hact : active old g = true) (hunbound : old.lookup g.name = none) : old ∉ enum hs [] :=
  Growth.stale_not_enumerated hs old hnd hpf g hg hact hunbound

/-- **entries that are reported but not tuned** (`tune_new_entries = False`; defect F21, repaired): no hash is ever
dropped, so the fresh trial differs from the current values of every stored trial unconditionally -/
theorem fresh_differs_not_tuned {W : Type} [DecidableEq W] (cands : Nat → List W) (o0 : Oracle W (Growth.SSt W))
    (r0 : Growth.Recorded o0) (h0 : o0.alg.stale = []) (ops : List (Growth.GOp W)) (tuner c : Nat) (v : W)
    (hnew : (create (Growth.algS cands) (Growth.grun (Growth.algS cands) (Growth.recordS false) o0 ops) tuner c).2
              = .trial (Growth.grun (Growth.algS cands) (Growth.recordS false) o0 ops).trials.length v) :
    ∀ (i : Nat) (t : Trial W), (Growth.grun (Growth.algS cands) (Growth.recordS false) o0 ops).trials[i]? = some t → t.vals ≠ v :=
  Growth.fresh_differs_not_tuned cands o0 r0 h0 ops tuner c v hnew

/-- partial — what links the two halves of the tuned case is not proved: that the configuration dropped at a
re-record really leaves an active entry of the grown space unbound (the reported values extend the started ones by the
entries the build function declared, `Space.register`); the `sampling` suite's grow modes check the statement itself on
the implementation (current-values monitor, started-values monitor). -/
theorem growth_partial {W : Type} [DecidableEq W] (tried cs : List W) (v : W) (h : RandomAlg.pick tried cs = some v) :
    v ∈ cs ∧ v ∉ tried := RandomAlg.pick_spec tried cs v h

example : RandomAlg.pick [1, 2] [2, 1, 3, 4] = some 3 ∧ RandomAlg.pick [1, 2] [2, 1, 2] = none := by decide

end Props.C06
