import Ktm.RandomSeeded
import Ktm.Random
import Ktm.Props.C11
/-! # C06 — sampling oracles never start the same configuration twice, and give up cleanly

Model: `RandomSeeded.randomValues` (`_random_values`: resample while the assignment is in the tried set, at
most `max_collisions + 1` passes) and the abstract `RandomAlg` (the tried list over any value type). The hash
of the active values is modelled as the assignment itself. -/
namespace Props.C06
open Core GridSucc

/-- a sampled assignment is never one of the tried ones, whatever the PRNG draws -/
theorem sampled_not_tried (draw : Nat → Option (Nat × Nat)) (s : RandomSeeded.St) (hv : ∀ g ∈ s.space, g.vals ≠ [])
    (fuel k : Nat) (v : Env) (k' : Nat) (h : RandomSeeded.randomValues draw s fuel k = (some v, k')) : v ∉ s.tried :=
  (RandomSeeded.randomValues_spec draw s hv fuel k v k' h).2.1

/-- **bounded effort, no livelock**: giving up (`none` ⇒ STOPPED, or IDLE for Hyperband while trials run)
happens after exactly `max_collisions + 1` passes that all produced tried assignments; the function is
structurally recursive on that fuel, so it cannot loop -/
theorem gives_up_after_bound (draw : Nat → Option (Nat × Nat)) (s : RandomSeeded.St) (k k' : Nat)
    (h : RandomSeeded.randomValues draw s (s.maxCollisions + 1) k = (none, k')) :
    ∃ ks : List Nat, ks.length = s.maxCollisions + 1 ∧ ∀ j ∈ ks, s.tried.contains (RandomSeeded.pass draw s j).1 = true :=
  RandomSeeded.randomValues_none draw s _ k k' h

/-- **no configuration is started twice**: along every request list the values of all trials of a sampling
oracle stay pairwise distinct and recorded in the tried list -/
theorem no_duplicate_start {W : Type} [DecidableEq W] (cands : Nat → List W) (o : Oracle W (RandomAlg.St W))
    (r : RandomAlg.RInv o) (tuner c : Nat) : RandomAlg.RInv (create (RandomAlg.alg cands) o tuner c).1 :=
  RandomAlg.rinv_create cands o r tuner c

/-- the answer on exhaustion: random sampling says STOPPED (never IDLE) -/
theorem exhausted_answer_random {W : Type} [DecidableEq W] (cands : Nat → List W) :
    Props.C11.IdleOnlyWhileBusy (RandomAlg.alg cands) := Props.C11.random_idle cands

/-- Hyperband on exhaustion: IDLE only while other trials are still running, else STOPPED -/
theorem exhausted_answer_hyperband (o : HB.O) (s' : HB.St) (bi num : Nat) :
    HB.randomIn o 0 s' bi num = (s', if o.ongoing.isEmpty then .stop else .idle) := rfl

/-- partial — growth of the space during the search: `no_duplicate_start` is for a fixed space (the tried
list holds whole assignments). After an entry is reported at `end_trial` the code re-hashes that trial only;
that earlier trials, whose assignments lack the new entry, can no longer collide with fresh samples is
checked by the suite (mode grow), not proved. -/
theorem growth_partial {W : Type} [DecidableEq W] (tried cs : List W) (v : W) (h : RandomAlg.pick tried cs = some v) :
    v ∈ cs ∧ v ∉ tried := RandomAlg.pick_spec tried cs v h

example : RandomAlg.pick [1, 2] [2, 1, 3, 4] = some 3 ∧ RandomAlg.pick [1, 2] [2, 1, 2] = none := by decide

end Props.C06
