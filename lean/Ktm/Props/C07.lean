import Ktm.PersistOps
/-! # C07 — saving and reloading an oracle preserves the search and its continuation

Model: `Core.Disk` = one file per trial + the oracle file (`Core.tfileOf`, `Core.ofileOf`: ongoing map,
retry queue, end order, run counts, number of trials, the whole algorithm state), `Core.reload`
(what `Oracle.reload` does on a freshly constructed oracle `cfg`), `Core.writesOf` (which files each
operation writes), `Core.requeueWith` (ongoing trials moved to the retry queue).
"Saved" = an explicit `save()` at an operation boundary after any run of complete operations. -/
namespace Props.C07
open Core
variable {V A : Type}

/-- the disk after an explicit `save()`: the oracle file is exactly the state (algorithm progress
included), every trial that is not running has an up-to-date file -/
def Saved (o : Oracle V A) (d : Disk V A) : Prop := DiskOK o d ∧ d.ofile = some (ofileOf o)

/-- an explicit save of a state whose trial files are consistent produces a `Saved` disk -/
theorem save_gives_saved (o : Oracle V A) (d : Disk V A) (hd : DiskOK o d) : Saved o (writeOracle d o) :=
  ⟨diskOK_save o d hd, rfl⟩

/-- trial files and oracle file stay consistent with memory along every run of complete operations,
for every algorithm, schedule and outcome pattern (so every reachable state can be saved) -/
theorem reachable_states_saveable (alg : Alg V A) (s : Oracle V A × Disk V A) (ops : List Op)
    (h : Inv s.1) (hd : DiskOK s.1 s.2) :
    (Inv (runD alg s ops).1 ∧ DiskOK (runD alg s ops).1 (runD alg s ops).2) ∨ (runD alg s ops).1.aborted = true :=
  runD_ok alg s ops h hd

/-- **reload ∘ save = requeue**: every trial that was not running comes back unchanged (values, status,
score, reports, run count), the running ones come back with their values and are queued to run again,
start/end order and retry bookkeeping are restored, and the algorithm state is the saved one -/
theorem reload_saved (o cfg : Oracle V A) (d : Disk V A) (hs : Saved o d)
    (hcfg : cfg.maxTrials = o.maxTrials ∧ cfg.maxRetries = o.maxRetries ∧ cfg.maxConsec = o.maxConsec ∧ cfg.aborted = o.aborted) :
    ∃ ts', reload cfg d = some (requeueWith o ts' o.alg) ∧ ts'.length = o.trials.length ∧
      (∀ (i : Nat), i ∉ o.ongoing.map (·.2) → ts'[i]? = o.trials[i]?) ∧
      (∀ (i : Nat) (t t' : Trial V), o.trials[i]? = some t → ts'[i]? = some t' → t'.vals = t.vals ∧ t'.runs = t.runs) := by
  obtain ⟨hd, hof⟩ := hs
  obtain ⟨ts, hts, hlen, hsame⟩ := loadTrials_spec o d hd o.trials.length (Nat.le_refl _)
  refine ⟨ts, ?_, hlen, ?_, ?_⟩
  · obtain ⟨h1, h2, h3, h4⟩ := hcfg
    simp only [reload, hof, ofileOf, hts, requeueWith]
    congr 1
    cases cfg; cases o; simp_all
  · intro i hni
    by_cases hi : i < o.trials.length
    · exact hsame i hi hni
    · rw [List.getElem?_eq_none (by omega), List.getElem?_eq_none (by omega)]
  · -- values and run counts of *every* trial, running or not
    intro i t t' hti hti'
    by_cases hni : i ∈ o.ongoing.map (·.2)
    · -- running: loaded from a possibly stale file, but the values are fixed and the run count comes from the oracle file
      have hi : i < o.trials.length := (List.getElem?_eq_some_iff.mp hti).1
      obtain ⟨f, hf, hv, _⟩ := hd.tfiles i t hti
      -- unfold one step of loadTrials at position i
      have key : ∀ k, k ≤ o.trials.length → ∀ l, loadTrials d (o.trials.map (·.runs)) k = some l →
          ∀ (j : Nat), j < k → ∀ tj fj, o.trials[j]? = some tj → d.tfile j = some fj →
            l[j]? = some (trialOfFile fj tj.runs) := by
        intro k
        induction k with
        | zero => intro _ l _ j hj; omega
        | succ k ih =>
          intro hk l hl j hj tj fj htj hfj
          simp only [loadTrials] at hl
          cases hprev : loadTrials d (o.trials.map (·.runs)) k with
          | none => simp [hprev] at hl
          | some lp =>
            cases hfk : d.tfile k with
            | none => simp [hprev, hfk] at hl
            | some fk =>
              simp only [hprev, hfk, Option.some.injEq] at hl
              subst hl
              obtain ⟨lq, hlq, hlenq, _⟩ := loadTrials_spec o d hd k (by omega)
              rw [hprev] at hlq; cases hlq
              by_cases hjk : j < k
              · rw [List.getElem?_append_left (by omega)]
                exact ih (by omega) lp hprev j hjk tj fj htj hfj
              · have : j = k := by omega
                subst this
                rw [List.getElem?_append_right (by omega), hlenq]
                rw [hfk] at hfj; cases hfj
                simp [List.getD, List.getElem?_map, htj]
      have := key o.trials.length (Nat.le_refl _) ts hts i hi t f hti hf
      rw [this] at hti'; cases hti'
      exact ⟨hv, rfl⟩
    · have := hsame i (List.getElem?_eq_some_iff.mp hti).1 hni
      rw [this, hti] at hti'; cases hti'
      exact ⟨rfl, rfl⟩

/-- the reloaded oracle satisfies the lifecycle invariant, keeps every ended trial untouched and
outside the retry queue, leaves nothing RUNNING outside the queue, and keeps the trial count -/
theorem reload_is_good (o cfg : Oracle V A) (d : Disk V A) (h : Inv o) (hd : DiskOK o d)
    (hcfg : cfg.maxTrials = o.maxTrials ∧ cfg.maxRetries = o.maxRetries ∧ cfg.maxConsec = o.maxConsec ∧ cfg.aborted = o.aborted) :
    ∃ r, reload cfg d = some r ∧ Inv r ∧
      (∀ i ∈ o.endOrder, r.trials[i]? = o.trials[i]? ∧ i ∉ r.retryQ) ∧
      (∀ (i : Nat) (t : Trial V), r.trials[i]? = some t → t.status = .running → i ∈ r.retryQ) ∧
      r.trials.length = o.trials.length :=
  reload_good o cfg d h hd hcfg

/-- **same continuation**: after save and reload, every further request list is answered exactly as by
the uninterrupted oracle whose running trials were queued again (same algorithm state, same choices) —
for every algorithm that is a function of the oracle state and its choice stream (random, grid,
Hyperband) -/
theorem continuation (alg : Alg V A) (o cfg : Oracle V A) (d : Disk V A) (hs : Saved o d)
    (hcfg : cfg.maxTrials = o.maxTrials ∧ cfg.maxRetries = o.maxRetries ∧ cfg.maxConsec = o.maxConsec ∧ cfg.aborted = o.aborted) :
    ∃ ts' r, reload cfg d = some r ∧ r = requeueWith o ts' o.alg ∧
      ∀ ops, run alg r ops = run alg (requeueWith o ts' o.alg) ops := by
  obtain ⟨ts', hr, _⟩ := reload_saved o cfg d hs hcfg
  exact ⟨ts', _, hr, rfl, fun _ => rfl⟩

/-- the invariant (hence budget, C02, and every C01 clause) holds along the whole continuation -/
theorem continuation_valid (alg : Alg V A) (o cfg : Oracle V A) (d : Disk V A) (h : Inv o) (hd : DiskOK o d)
    (hcfg : cfg.maxTrials = o.maxTrials ∧ cfg.maxRetries = o.maxRetries ∧ cfg.maxConsec = o.maxConsec ∧ cfg.aborted = o.aborted)
    (ops : List Op) :
    ∃ r, reload cfg d = some r ∧ (Inv (run alg r ops) ∨ (run alg r ops).aborted = true) := by
  obtain ⟨r, hr, hinv, _⟩ := reload_good o cfg d h hd hcfg
  exact ⟨r, hr, inv_reachable alg r ops hinv⟩

/-- non-vacuity: two tuners, one trial finished and one running at save time; after reload the running
one is queued and re-issued first with its values -/
def demo : Bool :=
  let alg : Alg Nat Unit := { populate := fun _ c => ((), .run c), onEnd := fun a _ => a, scoreOf := fun l => l.getLast?.join }
  let s0 : Oracle Nat Unit × Disk Nat Unit := (init () (some 3) 0 3, ⟨fun _ => none, none⟩)
  let s := runD alg (s0.1, writeOracle s0.2 s0.1) [.create 0 7, .create 1 8, .update 0 (some 2), .endT 0 .completed]
  match reload s.1 (writeOracle s.2 s.1) with
  | some r => r.retryQ == [1] && r.endOrder == [0] && r.ongoing == [] &&
      (match (create alg r 5 0).2 with | .trial id v => id == 1 && v == 8 | _ => false)
  | none => false

example : demo = true := by decide

end Props.C07
