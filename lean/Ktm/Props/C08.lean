import Ktm.PersistOps
import Ktm.PersistSecond
import Ktm.Props.C02
/-! # C08 — a crash between any two writes leaves a resumable, consistent project

Model: every operation performs the atomic whole-file writes `Core.writesOf` lists, in that order
(`create_trial`: trial file, oracle file; `update_trial`: trial file; `end_trial`: trial file, oracle
file). `Core.stepD alg k` lets only the first `k` writes of the interrupted operation reach the disk.
A fresh process calls `Core.reload`. "Durably recorded" = listed in the end order of the oracle file
on disk (the commit point of the two-file protocol). -/
namespace Props.C08
open Core
variable {V A : Type}

/-- the disk after a crash: `ops` ran completely, then the process died inside `op` after `k` of its
writes (k = 0: just before its first write; k ≥ number of writes: just after its last one) -/
def crashDisk (alg : Alg V A) (s : Oracle V A × Disk V A) (ops : List Op) (op : Op) (k : Nat) : Disk V A :=
  (stepD alg k (runD alg s ops) op).2

/-- **every crash point is consistent**: for every scenario and every `k` the disk is `DiskOK` with
respect to a state satisfying the lifecycle invariant — the state just before the interrupted
operation or the state just after it -/
theorem crash_disk_consistent (alg : Alg V A) (s : Oracle V A × Disk V A) (h : Inv s.1) (hd : DiskOK s.1 s.2)
    (ops : List Op) (op : Op) (k : Nat) (hna : (runD alg s ops).1.aborted = false) :
    ∃ base, (base = (runD alg s ops).1 ∨ base = (step alg (runD alg s ops).1 op).1) ∧
      Inv base ∧ DiskOK base (crashDisk alg s ops op k) := by
  rcases runD_ok alg s ops h hd with ⟨hi, hdk⟩ | hab
  · have hcp := (step_crash_points alg _ _ hi hdk op k).1
    rcases hcp with h1 | ⟨hne, h1⟩
    · exact ⟨_, Or.inl rfl, hi, h1⟩
    · exact ⟨_, Or.inr rfl, inv_step alg _ op hi hne, h1⟩
  · rw [hab] at hna; cases hna

/-- **restart after a crash at any point**: reloading succeeds; the reloaded oracle satisfies the
lifecycle invariant (ids unique, nothing duplicated); no trial whose end is durably recorded changes
status or score, and none of them is queued again; every trial left RUNNING is in the retry queue, so
it is run again; the number of distinct trials is that of the recovered state -/
theorem restart_after_crash (alg : Alg V A) (s : Oracle V A × Disk V A) (h : Inv s.1) (hd : DiskOK s.1 s.2)
    (ops : List Op) (op : Op) (k : Nat) (hna : (runD alg s ops).1.aborted = false) (cfg : Oracle V A)
    (hcfg : cfg.maxTrials = s.1.maxTrials ∧ cfg.maxRetries = s.1.maxRetries ∧ cfg.maxConsec = s.1.maxConsec ∧ cfg.aborted = false) :
    ∃ base r, (base = (runD alg s ops).1 ∨ base = (step alg (runD alg s ops).1 op).1) ∧
      reload cfg (crashDisk alg s ops op k) = some r ∧ Inv r ∧
      (∀ i ∈ base.endOrder, r.trials[i]? = base.trials[i]? ∧ i ∉ r.retryQ ∧ i ∉ r.ongoing.map (·.2)) ∧
      (∀ (i : Nat) (t : Trial V), r.trials[i]? = some t → t.status = .running → i ∈ r.retryQ) ∧
      r.trials.length = base.trials.length ∧ r.maxTrials = s.1.maxTrials := by
  obtain ⟨base, hb, hinv, hdk⟩ := crash_disk_consistent alg s h hd ops op k hna
  -- configuration fields never change
  have hcfgrun : ∀ (o : Oracle V A) (l : List Op), (run alg o l).maxTrials = o.maxTrials ∧
      (run alg o l).maxRetries = o.maxRetries ∧ (run alg o l).maxConsec = o.maxConsec := by
    intro o l
    induction l generalizing o with
    | nil => exact ⟨rfl, rfl, rfl⟩
    | cons op' l ih =>
      have hst : (step alg o op').1.maxTrials = o.maxTrials ∧ (step alg o op').1.maxRetries = o.maxRetries ∧
          (step alg o op').1.maxConsec = o.maxConsec := by
        cases op' with
        | create t c =>
          simp only [step, create]
          split
          · split <;> exact ⟨rfl, rfl, rfl⟩
          · split
            · split <;> exact ⟨rfl, rfl, rfl⟩
            · split
              · exact ⟨rfl, rfl, rfl⟩
              · split <;> exact ⟨rfl, rfl, rfl⟩
        | update id r => simp only [step, update]; split <;> exact ⟨rfl, rfl, rfl⟩
        | endT id oc =>
          simp only [step, endT]
          split
          · exact ⟨rfl, rfl, rfl⟩
          · split
            · exact ⟨rfl, rfl, rfl⟩
            · split
              · exact ⟨rfl, rfl, rfl⟩
              · split <;> exact ⟨rfl, rfl, rfl⟩
      simp only [run]
      split
      · exact hst
      · obtain ⟨a, b, c⟩ := ih (step alg o op').1
        exact ⟨a.trans hst.1, b.trans hst.2.1, c.trans hst.2.2⟩
  have hrun := hcfgrun s.1 ops
  rw [← runD_fst] at hrun
  have hbase : base.maxTrials = s.1.maxTrials ∧ base.maxRetries = s.1.maxRetries ∧ base.maxConsec = s.1.maxConsec := by
    rcases hb with hb | hb
    · rw [hb]; exact hrun
    · have := hcfgrun (runD alg s ops).1 [op]
      simp only [run] at this
      rw [hb]
      have h2 : (step alg (runD alg s ops).1 op).1.maxTrials = (runD alg s ops).1.maxTrials ∧
          (step alg (runD alg s ops).1 op).1.maxRetries = (runD alg s ops).1.maxRetries ∧
          (step alg (runD alg s ops).1 op).1.maxConsec = (runD alg s ops).1.maxConsec := by
        split at this <;> exact this
      exact ⟨h2.1.trans hrun.1, h2.2.1.trans hrun.2.1, h2.2.2.trans hrun.2.2⟩
  have hc : cfg.maxTrials = base.maxTrials ∧ cfg.maxRetries = base.maxRetries ∧ cfg.maxConsec = base.maxConsec ∧ cfg.aborted = base.aborted :=
    ⟨hcfg.1.trans hbase.1.symm, hcfg.2.1.trans hbase.2.1.symm, hcfg.2.2.1.trans hbase.2.2.symm, hcfg.2.2.2.trans hinv.not_aborted.symm⟩
  obtain ⟨ts', a, hr, hlen, hsame⟩ := reload_eq_requeue base cfg _ hdk hc
  refine ⟨base, _, hb, hr, inv_requeue base hinv ts' a hlen hsame, ?_, requeue_running_queued base hinv ts' a hlen hsame,
    by simp [requeueWith, hlen], by simp [requeueWith, hbase.1]⟩
  intro i hi
  exact requeue_committed_stable base hinv ts' a hsame i hi

/-- **the budget is still honoured in full and nothing is lost** after the restart: the resumed run
never exceeds `max_trials`, however it is scheduled, and keeps the lifecycle invariant -/
theorem resumed_run_ok (alg : Alg V A) (r : Oracle V A) (hr : Inv r) (m : Nat) (hm : r.maxTrials = some m) (ops : List Op) :
    (run alg r ops).trials.length ≤ m ∧ (Inv (run alg r ops) ∨ (run alg r ops).aborted = true) :=
  ⟨(Props.C02.budget_reachable alg r ops m hm (hr.budget m hm)).2, inv_reachable alg r ops hr⟩

/-- **a second crash** (and by repetition a third, a fourth …): take any disk that is consistent with a state
satisfying the invariant — by `crash_disk_consistent` every crash point of a run leaves such a disk — and restart on it.
The restarted process can only begin by asking for trials. At EVERY crash point of every one of those requests (after
`k` of its writes) the disk is again consistent with a state satisfying the invariant: the old base as long as the
oracle file has not been rewritten (between the restart and the first oracle-file write the oracle file still lists the
OLD ongoing map and retry queue; only the trial file of a brand-new trial can have been added), the new state from that
write on … -/
theorem second_crash_consistent (alg : Alg V A) (base : Oracle V A) (d : Disk V A) (hb : Inv base) (hd : DiskOK base d)
    (cfg r : Oracle V A)
    (hcfg : cfg.maxTrials = base.maxTrials ∧ cfg.maxRetries = base.maxRetries ∧ cfg.maxConsec = base.maxConsec ∧ cfg.aborted = base.aborted)
    (hr : reload cfg d = some r) (pre : List (Nat × Nat)) (tuner c k : Nat) :
    ∃ b, Inv b ∧ DiskOK b (stepD alg k (runD alg (r, d) (creates pre)) (.create tuner c)).2 := by
  obtain ⟨r', hr', hinv, _, _, hlen⟩ := reload_good base cfg d hb hd hcfg
  rw [hr] at hr'; cases hr'
  obtain ⟨htf, hong⟩ := tf_reload cfg r d hr
  exact (second_crash alg base hb pre r d hinv htf hong hd hlen.symm).1 tuner c k

/-- … and once those first requests are done, either no trial was handed out and disk and memory are exactly as right
after the restart, or memory and disk are consistent again (`DiskOK`), so that every later crash point of the resumed
run is a first-crash point again (`crash_disk_consistent`, `restart_after_crash`) -/
theorem resumed_run_consistent_again (alg : Alg V A) (base : Oracle V A) (d : Disk V A) (hb : Inv base) (hd : DiskOK base d)
    (cfg r : Oracle V A)
    (hcfg : cfg.maxTrials = base.maxTrials ∧ cfg.maxRetries = base.maxRetries ∧ cfg.maxConsec = base.maxConsec ∧ cfg.aborted = base.aborted)
    (hr : reload cfg d = some r) (pre : List (Nat × Nat)) :
    DiskOK (runD alg (r, d) (creates pre)).1 (runD alg (r, d) (creates pre)).2 ∨
    ((runD alg (r, d) (creates pre)).2 = d ∧ TF (runD alg (r, d) (creates pre)).1 d ∧ (runD alg (r, d) (creates pre)).1.ongoing = []) := by
  obtain ⟨r', hr', hinv, _, _, hlen⟩ := reload_good base cfg d hb hd hcfg
  rw [hr] at hr'; cases hr'
  obtain ⟨htf, hong⟩ := tf_reload cfg r d hr
  exact (second_crash alg base hb pre r d hinv htf hong hd hlen.symm).2

/-- non-vacuity: crash between the two writes of `end_trial` (k = 1): the trial file says COMPLETED, the
oracle file still lists the trial as running ⇒ after restart it is queued and run again, once -/
def demo : Bool :=
  let alg : Alg Nat Unit := { populate := fun _ c => ((), .run c), onEnd := fun a _ => a, scoreOf := fun l => l.getLast?.join }
  let o0 : Oracle Nat Unit := init () (some 3) 0 3
  let s0 : Oracle Nat Unit × Disk Nat Unit := (o0, writeOracle ⟨fun _ => none, none⟩ o0)
  let d := crashDisk alg s0 [.create 0 7, .update 0 (some 2)] (.endT 0 .completed) 1
  match reload o0 d with
  | some r => r.retryQ == [0] && r.endOrder == [] && r.trials.length == 1
  | none => false
example : demo = true := by decide

end Props.C08
