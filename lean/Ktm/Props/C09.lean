import Ktm.GridReach
/-! # C09 — grid search visits every combination exactly once, then stops

Model: `GridSucc.enum` (all assignments of the *active* entries, in grid order: default first, then the
value list), `GridSucc.next` (`_get_next_combination`), `Grid.alg` (`populate_space` with the ordered id
list and the queue of ids whose successor is still to be tried) over the generic oracle. Names and values
are numbered by the harness. Theorems are for spaces declared up front (any nesting, any types) with
distinct names; discovery while trials run is `discovered_partial` below. -/
namespace Props.C09
open Core GridSucc Grid

/-- the odometer step of the code is the successor function of the enumeration -/
theorem next_is_successor (hs : List GHP) (pre e : Env)
    (hv : ∀ h ∈ hs, h.vals ≠ []) (hnd : (pre.map (·.1) ++ names hs).Nodup) (he : e ∈ enum hs pre) :
    next hs pre e = succIn (enum hs pre) e :=
  next_is_succ hs pre e hv hnd he

/-- the enumeration lists every combination once -/
theorem enumeration_has_no_duplicates (hs : List GHP) (hv : ∀ g ∈ hs, g.vals.Nodup) (hnd : (names hs).Nodup) :
    (enum hs []).Nodup :=
  enum_nodup hs [] hv (by simpa [keys] using hnd)

/-- every enumerated combination assigns exactly the entries active under itself, each a member of its
value list (parents-first space, distinct names) -/
theorem enumeration_is_exact (hs : List GHP) (e : Env) (hnd : (names hs).Nodup) (hpf : ParentsFirst [] hs)
    (he : e ∈ enum hs []) :
    ∀ g ∈ hs, (active e g = true → ∃ v ∈ g.vals, e.lookup g.name = some v) ∧
              (active e g = false → e.lookup g.name = none) :=
  enum_exact hs [] e [] (by simp [keys]) (by simpa using hnd) hpf he

/-- the first combination is the all-defaults one -/
theorem first_is_all_defaults (hs : List GHP) (hv : ∀ h ∈ hs, h.vals ≠ []) :
    (enum hs []).head? = some (first hs []) :=
  enum_head hs hv []

/-- the grid invariant — trial `i` carries the `i`-th combination, so no combination is ever issued twice
and the issued ones form an initial segment of the enumeration — holds after every request list: every
number of workers, every finishing order, every failure / retry pattern -/
theorem issued_is_initial_segment (space : List GHP) (hs : SpaceOK space) (ops : List Op) :
    ∀ (i : Nat) (t : Trial Env), (run alg (init space) ops).trials[i]? = some t →
      (enum space [])[i]? = some t.vals := by
  have h := ginv_reachable (init space) hs (ginv_init space) ops
  intro i t ht
  have := h.1.vals i t ht
  rw [h.2] at this
  exact this

/-- **exactly once, then STOPPED**: in any reachable state, if grid search answers STOPPED while nothing is
running and no retry is pending, the trials are exactly the enumeration of all active combinations, in
order, each once -/
theorem stopped_means_complete (space : List GHP) (hs : SpaceOK space) (ops : List Op)
    (hon : (run alg (init space) ops).ongoing = []) (hrq : (run alg (init space) ops).retryQ = [])
    (tuner c : Nat) (hout : (create alg (run alg (init space) ops) tuner c).2 = .stopped) :
    (run alg (init space) ops).trials.map (·.vals) = enum space [] := by
  have h := ginv_reachable (init space) hs (ginv_init space) ops
  have hmax : (run alg (init space) ops).maxTrials = none := by
    have : ∀ (o : O) (l : List Op), (run alg o l).maxTrials = o.maxTrials := by
      intro o l
      induction l generalizing o with
      | nil => rfl
      | cons op l ih =>
        have hst : (step alg o op).1.maxTrials = o.maxTrials := by
          cases op with
          | create t c =>
            simp only [step, create]
            split
            · split <;> rfl
            · split
              · split <;> rfl
              · split
                · rfl
                · split <;> rfl
          | update id r => simp only [step, update]; split <;> rfl
          | endT id oc =>
            simp only [step, endT]
            split
            · rfl
            · split
              · rfl
              · split
                · rfl
                · split <;> rfl
        simp only [run]
        split
        · exact hst
        · exact (ih _).trans hst
    rw [this]; rfl
  have := grid_complete (run alg (init space) ops) (by rw [h.2]; exact hs) h.1 hmax hon hrq tuner c hout
  rw [h.2] at this
  exact this

/-- partial (spaces discovered while trials run): the theorems above are for a space fixed at the start.
For entries reported at `end_trial` the code does not visit the full product (and can raise, known findings
F5a/F5b); what is checked there, by the suite only, is absence of duplicates. The statement kept here is the
static one restricted to the prefix of the run before the first discovery. -/
theorem discovered_partial (space : List GHP) (hs : SpaceOK space) (ops : List Op) :
    GInv (run alg (init space) ops) :=
  (ginv_reachable (init space) hs (ginv_init space) ops).1

/-- non-vacuity: a conditional space (1 is active only when 0 = 1): six combinations, run sequentially to the end -/
example : (enum demoSpace []).length = 6 ∧ (demo 8 (init demoSpace) []).length = 7 ∧
    (demo 8 (init demoSpace) []).getLast? = some none := by decide

end Props.C09
