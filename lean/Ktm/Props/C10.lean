import Ktm.HyperbandSched
/-! # C10 — Hyperband follows the successive-halving schedule and promotes only winners

Model: `HB.alg` (`HyperbandOracle.populate_space` with brackets as rounds of `(id, past_id)`) over the
generic oracle; `HB.mkCfg` computes sizes and epochs with exact integer arithmetic. A trial's values
are `HB.HV`: the sampled configuration `base` plus the five `tuner/*` entries. -/
namespace Props.C10
open Core HB

/-- `epochs = ⌈max_epochs / factor^(bracket − round)⌉`, exactly (least `e` with `max_epochs ≤ e·factor^(b−r)`) -/
theorem epochs_formula (m f b r : Nat) (hf : 1 ≤ f) :
    m ≤ (mkCfg m f 1 true).epochs b r * f ^ (b - r) ∧ ∀ e, m ≤ e * f ^ (b - r) → (mkCfg m f 1 true).epochs b r ≤ e :=
  epochs_is_ceil m f b r hf

/-- a later round starts where the previous one stopped and never has a smaller budget; the last round
of every bracket trains up to `max_epochs` -/
theorem epochs_monotone (m f b r : Nat) (hf : 1 ≤ f) (hr : r + 1 ≤ b) : epochsOf m f b r ≤ epochsOf m f b (r + 1) :=
  epochs_mono m f b r hf hr
theorem epochs_reach_max (m f b : Nat) (hf : 1 ≤ f) : epochsOf m f b b = m := epochs_last m f b hf

/-- **labels follow the schedule, rounds respect their size, parents are legitimate** — for every
freshly issued trial in every state satisfying the bracket invariant (`HB.HInv`, which holds in every
reachable state by `schedule_invariant_reachable`):
its epoch budget and starting epoch are those of the (bracket, round) it is recorded in; that round
holds at most its scheduled number of trials; a round-0 trial has no parent and starts at epoch 0; a
promoted trial continues a COMPLETED trial with identical hyperparameter values which is recorded in
the previous round of the same bracket and was not promoted before. -/
theorem issued_trial_follows_schedule (cfg : Cfg) (o : O) (h : HInv cfg o) (hpos : ∀ b, 0 < cfg.size b 0)
    (tuner c : Nat) (v : HV) (hout : (create alg o tuner c).2 = .trial o.trials.length v) :
    v.epochs = cfg.epochs v.bracket v.round ∧
    v.initialEpoch = (if v.round = 0 then 0 else cfg.epochs v.bracket (v.round - 1)) ∧
    (∃ b' ∈ (create alg o tuner c).1.alg.brackets, b'.num = v.bracket ∧
      ∃ l, b'.rounds[v.round]? = some l ∧ ⟨o.trials.length, v.parent⟩ ∈ l ∧ l.length ≤ cfg.size v.bracket v.round ∧
        (pasts l).Nodup ∧
        (∀ pid, v.parent = some pid → ∃ prev, b'.rounds[v.round - 1]? = some prev ∧ pid ∈ prev.map (·.id))) ∧
    (v.round = 0 → v.parent = none) ∧
    (1 ≤ v.round → ∃ pid pt, v.parent = some pid ∧ o.trials[pid]? = some pt ∧ pt.status = .completed ∧ pt.vals.base = v.base) := by
  obtain ⟨hinv', hspec, _⟩ := create_fresh_spec o cfg h hpos tuner c
  have hs := hspec v hout
  have hc := h.cfg_eq
  generalize (create alg o tuner c).1.alg = s' at hs hinv' ⊢
  cases hs with
  | random _ _ b hcfg hall hr hi hp he hrec =>
    simp only [hc] at hcfg hall he
    obtain ⟨b', hb', hnum, l, hl, hmem⟩ := hrec
    have hb := hall b' hb'
    refine ⟨by rw [he, hr], by simp [hr, hi], ⟨b', hb', hnum, l, by rw [hr]; exact hl, by rw [hp]; exact hmem, ?_, hb.past_nodup _ _ hl, ?_⟩,
      fun _ => hp, fun h1 => by omega⟩
    · rw [hr, ← hnum]; exact hb.size_ok 0 l hl
    · intro pid hpid; rw [hp] at hpid; cases hpid
  | promote _ _ pid hcfg hall hr hp he hi hpar hrec =>
    simp only [hc] at hcfg hall he hi
    obtain ⟨b', hb', hnum, l, hl, hmem⟩ := hrec
    have hb := hall b' hb'
    have hne : v.round ≠ 0 := by omega
    refine ⟨he, by simp [hne, hi], ⟨b', hb', hnum, l, hl, by rw [hp]; exact hmem, ?_, hb.past_nodup _ _ hl, ?_⟩,
      fun h0 => by omega, fun _ => ?_⟩
    · rw [← hnum]; exact hb.size_ok _ l hl
    · intro pid' hpid
      rw [hp] at hpid; cases hpid
      -- the previous round exists because the bracket has `num + 1` rounds and `round ≥ 1`
      have hlt : v.round < b'.rounds.length := (List.getElem?_eq_some_iff.mp hl).1
      have hprev : v.round - 1 < b'.rounds.length := by omega
      refine ⟨b'.rounds[v.round - 1], List.getElem?_eq_getElem hprev, ?_⟩
      have hl' : b'.rounds[(v.round - 1) + 1]? = some l := by
        have : v.round - 1 + 1 = v.round := by omega
        rw [this]; exact hl
      apply hb.past_sub (v.round - 1) _ l (List.getElem?_eq_getElem hprev) hl'
      simp only [pasts, List.mem_filterMap]
      exact ⟨_, hmem, rfl⟩
    · obtain ⟨pt, hpt, hst, hbase⟩ := hpar
      exact ⟨pid, pt, hp, hpt, hst, hbase⟩

/-- the bracket invariant (round sizes within schedule, distinct parents, parents in the previous
round, ids known) holds after every request list, from every number of workers, with every outcome -/
theorem schedule_invariant_reachable (cfg : Cfg) (hpos : ∀ b, 0 < cfg.size b 0) (ops : List Op) :
    HInv cfg (run alg (init cfg) ops) :=
  hinv_reachable cfg _ (hinv_init cfg) hpos ops

/-- no round ever holds more trials than scheduled -/
theorem round_size_bound (cfg : Cfg) (hpos : ∀ b, 0 < cfg.size b 0) (ops : List Op) :
    ∀ b ∈ (run alg (init cfg) ops).alg.brackets, ∀ (r : Nat) (l : List Entry), b.rounds[r]? = some l →
      l.length ≤ cfg.size b.num r :=
  fun b hb r l hl => ((schedule_invariant_reachable cfg hpos ops).allB b hb).size_ok r l hl

/-- the exact-arithmetic schedule gives every first round at least one place -/
theorem first_round_has_room (m f it : Nat) (mn : Bool) (hf : 1 ≤ f) : ∀ b, 0 < (mkCfg m f it mn).size b 0 :=
  fun b => size_pos m f b hf

/-- **promotion rank**: when `pid` is promoted out of round `j` (candidates = COMPLETED, not yet
promoted members; more candidates than will be thrown out; `pid` first optimum), then in every later
state — the round may have grown up to its scheduled size, finished trials keep their scores — fewer
trials of round `j` score strictly better than `pid` than round `j+1` has places. Ties included. -/
theorem promotion_rank (o o' : O) (cfg : Cfg) (bnum j pid : Nat) (sc : Int) (prev cur : List Entry)
    (hprev_nodup : (prev.map (·.id)).Nodup)
    (hsz : cfg.size bnum j - cfg.size bnum (j + 1) < (candidates o prev cur).length)
    (hbest : bestOf cfg.minimize (candidates o prev cur) = some (pid, sc))
    (R : List Nat) (hRn : R.Nodup) (hRlen : R.length ≤ cfg.size bnum j)
    (hgrow : ∀ i ∈ prev.map (·.id), i ∈ R)
    (hfrozen : ∀ (i : Nat) (t : Trial HV), o.trials[i]? = some t → t.status = .completed →
        ∃ t', o'.trials[i]? = some t' ∧ t'.status = .completed ∧ t'.score = t.score) :
    R.countP (beats o' cfg.minimize sc) < cfg.size bnum (j + 1) :=
  promote_rank o o' cfg bnum j pid sc prev cur hprev_nodup hsz hbest R hRn hRlen hgrow hfrozen

/-- non-vacuity: max_epochs 4, factor 2; three workers fill bracket 2, three results arrive, the next
request is a promotion of the best one with the labels of bracket 2 round 1 -/
def demo : Bool :=
  let o := run alg (init (mkCfg 4 2 1 true)) [.create 0 1, .create 1 2, .create 2 3, .create 3 4,
    .update 0 (some 5), .endT 0 .completed, .update 1 (some 3), .endT 1 .completed, .update 2 (some 4), .endT 2 .completed]
  match (create alg o 0 9).2 with
  | .trial id v => id == 4 && v.parent == some 1 && v.bracket == 2 && v.round == 1 && v.epochs == 2 && v.initialEpoch == 1 && v.base == 1
  | _ => false
example : demo = true := by decide

end Props.C10
