import Ktm.HyperbandSched
import Ktm.Grid
import Ktm.Random
import Ktm.Search
import Ktm.CoreCount
import Ktm.Props.C02
import Ktm.GridReach
import Ktm.Live
import Ktm.HyperbandSweep
import Ktm.HyperbandDue
import Ktm.HyperbandLive
/-! # C11 — no livelock, no early stop: IDLE only while work is in flight; STOPPED is justified

Model: `Core.create` over an algorithm record; the three algorithms that can answer IDLE or STOPPED on
their own are `HB.alg` (Hyperband), `Grid.alg` (grid search) and `RandomAlg.alg` (random search / the
Bayesian warm-up). -/
namespace Props.C11
open Core
variable {V A : Type}

/-- the contract every search algorithm of the library satisfies: it says "wait" only while some
trial is running -/
def IdleOnlyWhileBusy (alg : Alg V A) : Prop :=
  ∀ (o : Oracle V A) (c : Nat) (a : A), alg.populate o c = (a, .idle) → o.ongoing ≠ []

/-- **IDLE only while work is in flight**, for every oracle whose algorithm meets the contract, in
every state, for every requesting tuner -/
theorem idle_implies_ongoing (alg : Alg V A) (hc : IdleOnlyWhileBusy alg) (o : Oracle V A) (tuner c : Nat)
    (hout : (create alg o tuner c).2 = .idle) : o.ongoing ≠ [] := by
  unfold create at hout
  cases hh : holds o tuner with
  | some id => simp only [hh] at hout; split at hout <;> cases hout
  | none =>
    simp only [hh] at hout
    cases hq : o.retryQ.getLast? with
    | some rid => simp only [hq] at hout; split at hout <;> cases hout
    | none =>
      simp only [hq] at hout
      split at hout
      · cases hout
      · cases hp : alg.populate { o with tunerIds := addTuner o.tunerIds tuner } c with
        | mk a pop =>
          cases pop with
          | run v => simp only [hp] at hout; cases hout
          | idle => exact hc { o with tunerIds := addTuner o.tunerIds tuner } c a hp
          | stop => simp only [hp] at hout; cases hout

/-- a single tuner is never told to wait for itself: with nothing running the answer is not IDLE
(so `BaseTuner.search` cannot spin) -/
theorem single_tuner_never_idle (alg : Alg V A) (hc : IdleOnlyWhileBusy alg) (o : Oracle V A) (tuner c : Nat)
    (hnone : o.ongoing = []) : (create alg o tuner c).2 ≠ .idle :=
  fun h => idle_implies_ongoing alg hc o tuner c h hnone

/-- Hyperband meets the contract (in every state satisfying its bracket invariant) -/
theorem hyperband_idle (cfg : HB.Cfg) (o : HB.O) (h : HB.HInv cfg o) (hpos : ∀ b, 0 < cfg.size b 0) (tuner c : Nat)
    (hout : (create HB.alg o tuner c).2 = .idle) : o.ongoing ≠ [] :=
  (HB.create_fresh_spec o cfg h hpos tuner c).2.2 hout

/-- grid search meets the contract -/
theorem grid_idle : IdleOnlyWhileBusy Grid.alg := by
  intro o c a hp
  simp only [Grid.alg, Grid.populate] at hp
  split at hp
  · cases hp
  · split at hp
    · cases hp
    · simp only [Prod.mk.injEq] at hp
      obtain ⟨_, h2⟩ := hp
      intro hne
      simp [hne] at h2

/-- random sampling never says IDLE at all -/
theorem random_idle {W : Type} [DecidableEq W] (cands : Nat → List W) : IdleOnlyWhileBusy (RandomAlg.alg cands) := by
  intro o c a hp
  simp only [RandomAlg.alg, RandomAlg.populateWith] at hp
  split at hp <;> cases hp

/-- **STOPPED is justified**: a tuner without a trial is told STOPPED only when no retry is pending and
either the trial budget is used up or the algorithm itself has nothing left to propose -/
theorem stopped_justified (alg : Alg V A) (o : Oracle V A) (tuner c : Nat)
    (hout : (create alg o tuner c).2 = .stopped) :
    holds o tuner = none ∧ o.retryQ = [] ∧
      (budgetReached o = true ∨ ∃ a, alg.populate { o with tunerIds := addTuner o.tunerIds tuner } c = (a, .stop)) := by
  unfold create at hout
  cases hh : holds o tuner with
  | some id => simp only [hh] at hout; split at hout <;> cases hout
  | none =>
    simp only [hh] at hout
    cases hq : o.retryQ.getLast? with
    | some rid => simp only [hq] at hout; split at hout <;> cases hout
    | none =>
      have hq' : o.retryQ = [] := by
        cases hl : o.retryQ with
        | nil => rfl
        | cons a l => rw [hl] at hq; simp [List.getLast?_cons] at hq
      simp only [hq] at hout
      refine ⟨rfl, hq', ?_⟩
      by_cases hb : budgetReached o = true
      · exact Or.inl hb
      · right
        have hb' : ¬ budgetReached ({ o with tunerIds := addTuner o.tunerIds tuner } : Oracle V A) = true := hb
        simp only [hb', if_false] at hout
        cases hp : alg.populate { o with tunerIds := addTuner o.tunerIds tuner } c with
        | mk a pop =>
          cases pop with
          | run v => simp only [hp] at hout; cases hout
          | idle => simp only [hp] at hout; cases hout
          | stop => exact ⟨a, rfl⟩

/-- grid search says STOPPED only when nothing is running and its queue of trials whose successor is
still to be tried is used up -/
theorem grid_stop_justified (o : Grid.O) (c : Nat) (a : Grid.St) (hp : Grid.alg.populate o c = (a, .stop)) :
    o.ongoing = [] ∧ o.trials.length ≠ 0 ∧ (Grid.scanQueue o o.alg o.alg.queue).2 = none := by
  simp only [Grid.alg, Grid.populate] at hp
  split at hp
  · cases hp
  · rename_i hn
    split at hp
    · cases hp
    · rename_i q hsc
      simp only [Prod.mk.injEq] at hp
      obtain ⟨_, h2⟩ := hp
      refine ⟨?_, hn, by rw [hsc]⟩
      by_cases he : o.ongoing.isEmpty = true
      · simpa using he
      · simp [he] at h2

/-- random search / warm-up says STOPPED only after `max_collisions + 1` candidates were all found in
the tried set — a bounded effort, never a loop -/
theorem random_stop_justified {W : Type} [DecidableEq W] (cands : Nat → List W) (o : Oracle W (RandomAlg.St W)) (c : Nat)
    (a : RandomAlg.St W) (hp : (RandomAlg.alg cands).populate o c = (a, .stop)) :
    RandomAlg.pick o.alg.tried ((cands c).take (o.alg.maxCollisions + 1)) = none ∧
    ((cands c).take (o.alg.maxCollisions + 1)).length ≤ o.alg.maxCollisions + 1 := by
  simp only [RandomAlg.alg, RandomAlg.populateWith] at hp
  split at hp
  · cases hp
  · rename_i hnone
    exact ⟨hnone, RandomAlg.pick_bounded cands o c⟩

/-- **bounded number of trial runs**: for every algorithm, every request list from any number of tuners and
every outcome pattern (all trials failing included), the number of RUNNING answers handed to tuners that held
nothing is at most (number of distinct trials) × (max_retries_per_trial + 1) … -/
theorem runs_bounded (alg : Alg V A) (a0 : A) (maxTrials : Option Nat) (maxRetries maxConsec : Nat) (ops : List Op) :
    issuedBy alg (init (V := V) a0 maxTrials maxRetries maxConsec) ops ≤
      (run alg (init (V := V) a0 maxTrials maxRetries maxConsec) ops).trials.length * (maxRetries + 1) := by
  have h := Core.runs_bounded alg ops _ (inv_init a0 maxTrials maxRetries maxConsec) (kinv_init a0 maxTrials maxRetries maxConsec)
  have hmr : (init (V := V) a0 maxTrials maxRetries maxConsec).maxRetries = maxRetries := rfl
  rw [hmr] at h
  omega

/-- … hence at most `N · (max_retries + 1)` runs under a trial budget `N` (C02 bounds the number of trials) -/
theorem runs_bounded_budget (alg : Alg V A) (a0 : A) (N maxRetries maxConsec : Nat) (ops : List Op) :
    issuedBy alg (init (V := V) a0 (some N) maxRetries maxConsec) ops ≤ N * (maxRetries + 1) := by
  have h := runs_bounded alg a0 (some N) maxRetries maxConsec ops
  have hb := Props.C02.budget_from_init alg a0 N maxRetries maxConsec ops
  have := Nat.mul_le_mul_right (maxRetries + 1) hb
  omega

/-- … and at most `(number of active combinations) · (max_retries + 1)` runs for grid search without a trial
limit: the finite grid is the budget -/
theorem grid_runs_bounded (space : List GridSucc.GHP) (hs : Grid.SpaceOK space) (ops : List Op) :
    issuedBy Grid.alg (Grid.init space) ops ≤ (GridSucc.enum space []).length * ((Grid.init space).maxRetries + 1) := by
  have h := Core.runs_bounded Grid.alg ops (Grid.init space) (by
      have := inv_init (V := GridSucc.Env) ({ space := space, ordered := [], queue := [] } : Grid.St) none 0 1000
      exact this) (by intro i t ht; simp [Grid.init, Core.init] at ht)
  have hg := Grid.ginv_reachable (Grid.init space) hs (Grid.ginv_init space) ops
  have hlen : (run Grid.alg (Grid.init space) ops).trials.length ≤ (GridSucc.enum space []).length := by
    cases hn : (run Grid.alg (Grid.init space) ops).trials.length with
    | zero => omega
    | succ k =>
      have hk : k < (run Grid.alg (Grid.init space) ops).trials.length := by omega
      have := hg.1.vals k _ (List.getElem?_eq_getElem hk)
      rw [hg.2] at this
      have := (List.getElem?_eq_some_iff.mp this).1
      have hsp : (Grid.init space).alg.space = space := rfl
      rw [hsp] at this
      omega
  have := Nat.mul_le_mul_right ((Grid.init space).maxRetries + 1) hlen
  omega

/-- **liveness, part 1 — only IDLE answers can repeat.** Workers that always finish what they are given: a worker
holding a trial ends it, a worker holding nothing asks, a worker told STOPPED does nothing more. Along EVERY
interleaving of any number of such workers (any scheduler, fair or not), with any outcomes and any algorithm, at most
`2 · N · (max_retries + 1)` steps hand out or end a trial under a budget of `N` trials … -/
theorem productive_steps_bounded (alg : Alg V A) (a0 : A) (N maxRetries maxConsec : Nat) (as : List Live.Act) :
    Live.productiveCount alg ⟨init (V := V) a0 (some N) maxRetries maxConsec, [], false⟩ as ≤ 2 * (N * (maxRetries + 1)) :=
  Live.productive_bounded alg a0 N maxRetries maxConsec as

/-- … the same for grid search without a trial limit, the finite grid being the budget: at most
`2 · |grid| · (max_retries + 1)` productive steps along every interleaving … -/
theorem grid_productive_steps_bounded (space : List GridSucc.GHP) (hs : Grid.SpaceOK space) (as : List Live.Act) :
    Live.productiveCount Grid.alg ⟨Grid.init space, [], false⟩ as ≤
      2 * ((GridSucc.enum space []).length * ((Grid.init space).maxRetries + 1)) :=
  Live.grid_productive_bounded space hs as

/-- … STOPPED is answered to each worker at most once … -/
theorem stopped_once (alg : Alg V A) (s : Live.Sys V A) (a : Live.Act) (hn : s.stopped.Nodup) :
    (Live.sstep alg s a).stopped.Nodup := Live.stopped_nodup_step alg s a hn

/-- **liveness, part 2 — waiting is never for nothing.** In every system state (oracle invariant, workers told
STOPPED hold nothing — both preserved by every step), a worker that is answered IDLE waits for another worker that
has not been told STOPPED and holds a trial, and that worker's next step, whatever its outcome, ends the trial.
So as long as some worker has not been told STOPPED, some such worker's next step is not IDLE; with part 1, after
at most `2·N·(R+1) + W` non-IDLE steps all `W` workers have been told STOPPED (or the failure streak aborted the search). -/
theorem waiting_is_for_a_running_trial (alg : Alg V A) (hc : IdleOnlyWhileBusy alg) (s : Live.Sys V A) (h : Inv s.o)
    (hs : Live.SInv s) (a : Live.Act) :
    (step alg s.o (Live.wop s.o a)).2 ≠ .idle ∨
    ∃ w', w' ≠ a.w ∧ w' ∉ s.stopped ∧ (holds s.o w').isSome ∧
      ∀ (oc : Outcome) (c : Nat), (step alg s.o (Live.wop s.o ⟨w', oc, c⟩)).2 = .ok ∨
                                  (step alg s.o (Live.wop s.o ⟨w', oc, c⟩)).2 = .abort :=
  Live.no_livelock alg hc s h hs a

/-- the side invariant of part 2 is kept by every step of every worker -/
theorem stopped_workers_hold_nothing (alg : Alg V A) (s : Live.Sys V A) (a : Live.Act) (hs : Live.SInv s) :
    Live.SInv (Live.sstep alg s a) := Live.sinv_step alg s a hs

/-- the search loop of one tuner over any such oracle ends each trial it starts and terminates with
STOPPED, a fatal error, an interrupt or the abort — within its fuel (C19's `search_trace`) -/
theorem search_loop_shape (alg : Alg V A) (fuel : Nat) (o : Oracle V A) (script : List Search.Attempt) :
    ∃ pre post, (Search.search alg fuel o script []).2 = pre ++ post ∧ Search.Pairs pre ∧ Search.Terminal post := by
  have := Search.search_trace alg fuel o script [] Search.Pairs.nil
  simpa using this

/-- non-vacuity: Hyperband (max_epochs 2, factor 2) with two workers: bracket 1's first round is
full and nothing has finished: the second worker is told IDLE while the first still runs; once
nothing runs the answer is never IDLE -/
def demo : Bool :=
  let cfg := HB.mkCfg 1 2 1 true
  let o := run HB.alg (HB.init cfg) [.create 0 1, .create 1 2]
  let o2 := run HB.alg (HB.init cfg) [.create 0 1, .update 0 (some 1), .endT 0 .completed]
  (match (create HB.alg o 2 3).2 with | .idle => true | _ => false) &&
  (match (create HB.alg o2 2 3).2 with | .idle => false | _ => true)
example : demo = true := by decide

/-- Hyperband's schedule is finite: along EVERY request list (any number of workers, any outcomes) the sweep counter stays below
`hyperband_iterations` and the sweep position `iteration · numBrackets + (numBrackets − 1 − bracket)` stays below
`iterations · numBrackets` — at most that many brackets are ever opened; with `round_size_bound` (C10: no round exceeds its size)
this bounds the number of distinct trials of a Hyperband search by `iterations · Σ_b Σ_r size(b, r)` -/
theorem hyperband_sweeps_bounded (cfg : HB.Cfg) (hnb : 0 < cfg.numBrackets) (hit : 0 < cfg.iterations) (ops : List Core.Op) :
    HB.pos (Core.run HB.alg (HB.init cfg) ops).alg < cfg.iterations * cfg.numBrackets ∧
    (Core.run HB.alg (HB.init cfg) ops).alg.currentIteration < cfg.iterations :=
  HB.brackets_opened_bounded cfg hnb hit ops

/-- the position moves forward by at most one bracket per request and never backwards (a new bracket is opened only when the stop
test `bracket = 0 ∧ iteration + 1 = iterations` is false) -/
theorem hyperband_position_moves_forward (cfg : HB.Cfg) (o : HB.O) (h : HB.SweepInv cfg o.alg) (op : Core.Op) :
    HB.SweepInv cfg (Core.step HB.alg o op).1.alg ∧
    (HB.pos (Core.step HB.alg o op).1.alg = HB.pos o.alg ∨ HB.pos (Core.step HB.alg o op).1.alg = HB.pos o.alg + 1) :=
  HB.sweep_step cfg o h op

/-- Hyperband never ends early on behalf of an open bracket: if some open bracket has a due promotion (round `j` full, all of its
trials COMPLETED with a score, round `j + 1` with room), the scan of the brackets finds work — a first round to fill or a promotion —
so `populate_space` neither opens a new bracket nor answers IDLE / STOPPED for lack of work -/
theorem hyperband_due_promotion_is_found (o : HB.O) (cfg : HB.Cfg) (bs : List HB.Bracket) (i : Nat)
    (h : ∃ b ∈ bs, HB.Due o cfg b) : HB.scan o cfg i bs ≠ .none :=
  HB.scan_finds_due o cfg bs i h

/-- the single-round form: the winner exists whenever the round before is full and ready and the next has room -/
theorem hyperband_round_promotes (o : HB.O) (cfg : HB.Cfg) (b : HB.Bracket) (r : Nat) (prev cur : List HB.Entry)
    (rest : List (List HB.Entry)) (hready : HB.AllReady o prev) (hfull : prev.length = cfg.size b.num r)
    (hroom : (HB.pasts cur).length < cfg.size b.num (r + 1)) (hmono : cfg.size b.num (r + 1) ≤ cfg.size b.num r)
    (hprev : (prev.map (·.id)).Nodup) (hp : (HB.pasts cur).Nodup) (hsub : ∀ i ∈ HB.pasts cur, i ∈ prev.map (·.id)) :
    ∃ pid, HB.tryPromote o cfg b r (prev :: cur :: rest) = some (r + 1, pid) :=
  HB.due_promotion_found o cfg b r prev cur rest hready hfull hroom hmono hprev hp hsub

/-- **Hyperband's schedule is its budget**: every state any request list can reach (any number of workers, any outcomes, retries)
holds at most `iterations · numBrackets · M` trials, `M` bounding the places `Σ_r size(b, r)` of one bracket (a potential argument:
every trial handed out uses up a free place of an open bracket or one of the brackets still to be opened) -/
theorem hyperband_trials_bounded (cfg : HB.Cfg) (M : Nat) (hnb : 0 < cfg.numBrackets) (hit : 0 < cfg.iterations)
    (hpos : ∀ b, 0 < cfg.size b 0) (hM : ∀ num, num < cfg.numBrackets → HB.cap cfg (HB.newBracket num) ≤ M) (ops : List Core.Op) :
    (Core.run HB.alg (HB.init cfg) ops).trials.length ≤ cfg.iterations * cfg.numBrackets * M :=
  HB.trials_bounded cfg M hnb hit hpos hM ops

/-- … hence a Hyperband search with finite iterations finishes: along EVERY interleaving of workers that end what they are given,
at most `2 · iterations · numBrackets · M · (max_retries + 1)` steps hand out or end a trial — all other steps are IDLE / STOPPED
answers, and `waiting_is_for_a_running_trial` says an IDLE answer always points at a trial some worker will end -/
theorem hyperband_search_finishes (cfg : HB.Cfg) (M : Nat) (hnb : 0 < cfg.numBrackets) (hit : 0 < cfg.iterations)
    (hpos : ∀ b, 0 < cfg.size b 0) (hM : ∀ num, num < cfg.numBrackets → HB.cap cfg (HB.newBracket num) ≤ M) (as : List Live.Act) :
    Live.productiveCount HB.alg ⟨HB.init cfg, [], false⟩ as ≤
      2 * (cfg.iterations * cfg.numBrackets * M * ((HB.init cfg).maxRetries + 1)) :=
  Live.hyperband_productive_bounded cfg M hnb hit hpos hM as

/-- non-vacuity: the schedule of max_epochs 4, factor 2 (sizes [[3], [3, 2], [4, 2, 1]]) meets the hypotheses with `M = 7` -/
example : 0 < HB.cfg42.numBrackets ∧ 0 < HB.cfg42.iterations ∧ (∀ b, b < 3 → 0 < HB.cfg42.size b 0) ∧
    HB.cap HB.cfg42 (HB.newBracket 0) ≤ 7 ∧ HB.cap HB.cfg42 (HB.newBracket 1) ≤ 7 ∧ HB.cap HB.cfg42 (HB.newBracket 2) ≤ 7 := by decide

end Props.C11
