import Ktm.RandomSeeded
import Ktm.GridReach
import Ktm.HyperbandSched
import Ktm.Persist
/-! # C12 — same seed, same history, same trials

In a functional model determinism is by construction; the content of the property is that the *inputs* of
the model are complete: an issued trial is a function of (configuration, seed, request/result history,
`draw(seed_i)`), where `draw` is the seeded generator `random.Random(seed).random()`. The suite checks that
completeness against the code: every draw of the implementation is logged with its seed, the model predicts
which seeds are consumed, an unseeded draw (seed `None`) has no counterpart in the model. -/
namespace Props.C12
open Core GridSucc

/-- the seed schedule: one pass over the space consumes exactly one seed per sampled (= active) entry,
starting at the current seed state and advancing by one each time -/
theorem seed_schedule (draw : Nat → Option (Nat × Nat)) (s : RandomSeeded.St) (hv : ∀ g ∈ s.space, g.vals ≠ []) (k : Nat) :
    (RandomSeeded.pass draw s k).2 = k + (RandomSeeded.pass draw s k).1.length :=
  RandomSeeded.pass_seed_count draw s hv k

/-- the seed state never goes backwards (so no seed is reused within a search) -/
theorem seed_monotone (draw : Nat → Option (Nat × Nat)) (s : RandomSeeded.St) (hv : ∀ g ∈ s.space, g.vals ≠ [])
    (fuel k : Nat) (v : Env) (k' : Nat) (h : RandomSeeded.randomValues draw s fuel k = (some v, k')) : k ≤ k' :=
  (RandomSeeded.randomValues_spec draw s hv fuel k v k' h).2.2

/-- **issued trials are a function of the history and of the seeded draws only**: two generators that agree
on the seeds give the same search, request by request — for random search … -/
theorem random_search_deterministic (d1 d2 : Nat → Option (Nat × Nat)) (hd : ∀ k, d1 k = d2 k)
    (o : Oracle Env RandomSeeded.St) (ops : List Op) :
    run (RandomSeeded.alg d1) o ops = run (RandomSeeded.alg d2) o ops := by
  have : d1 = d2 := funext hd
  rw [this]

/-- the seed counter is part of the persisted oracle state (C07): a reloaded oracle continues the same
seed schedule, so the property extends across restarts -/
theorem seed_state_persisted {V A : Type} (o cfg : Oracle V A) (d : Disk V A) (hd : DiskOK o d) (hof : d.ofile = some (ofileOf o))
    (hcfg : cfg.maxTrials = o.maxTrials ∧ cfg.maxRetries = o.maxRetries ∧ cfg.maxConsec = o.maxConsec ∧ cfg.aborted = o.aborted) :
    ∃ r, reload cfg d = some r ∧ r.alg = o.alg := by
  obtain ⟨ts, hts, _, _⟩ := loadTrials_spec o d hd o.trials.length (Nat.le_refl _)
  exact ⟨{ cfg with trials := ts, ongoing := [], retryQ := o.retryQ ++ o.ongoing.map (·.2), endOrder := o.endOrder,
                    tunerIds := [], alg := o.alg }, by simp only [reload, hof, ofileOf, hts], rfl⟩

/-- non-vacuity: two entries sampled with seeds 7 and 8; the second pass (after a collision) uses 9 and 10 -/
example :
    let s : RandomSeeded.St := ⟨[⟨0, [0, 1], []⟩, ⟨1, [0, 1, 2], []⟩], [(0, [0, 1]), (1, [0, 1, 2])], 7, [[(0, 0), (1, 0)]], 20⟩
    let draw : Nat → Option (Nat × Nat) := fun k => if k = 7 then some (1, 4) else if k = 8 then some (1, 10) else if k = 9 then some (3, 4) else some (1, 2)
    RandomSeeded.randomValues draw s 21 7 = (some [(0, 1), (1, 1)], 11) := by decide

end Props.C12
