import Ktm.SpaceDisc
import Ktm.SpaceComplete
/-! # C13 — define-by-run lookup, conditional scopes and space discovery work as documented

Model: `Space.S` (the `HyperParameters` container: space in insertion order, values, name-scope and
condition stacks, recorded active / inactive scopes), `Space.run` (an interpreter for build programs:
declarations, name scopes, conditional scopes with eager or lazy children, reads by name),
`Space.updateSpace` (`Oracle.update_space` with the two new-entry flags), `Space.populateInitial` (the
discovery loop of `BaseTuner._populate_initial_space`). Values are integer codes. -/
namespace Props.C13
open Space

/-- **lookup while building**: asking for a hyperparameter returns the assigned value if it is known and
active, `None` if it is known and its conditions do not hold; if it was not known it is registered and the
answer is the pre-populated value if any, else its default (active) or `None` (inactive) -/
theorem lookup_rules (s : S) (name : String) (dflt : Val) :
    let h : HP := { name := s.qualify name, conds := s.conds, dflt := dflt }
    (s.exists_ h.name h.conds = true → s.isActive h = true → ∀ v, lookup s.values h.name = some v →
        s.retrieve name dflt = .ok (s, some v)) ∧
    (s.exists_ h.name h.conds = true → s.isActive h = false → s.retrieve name dflt = .ok (s, none)) ∧
    (s.exists_ h.name h.conds = false → s.conds.any (·.name == h.name) = false →
        ∃ s', s.retrieve name dflt = .ok (s', if s.isActive h then some ((lookup s.values h.name).getD dflt) else none) ∧
          s'.hps = s.hps ++ [h]) :=
  retrieve_spec s name dflt

/-- **reading by name**: the value when active; an error when the name exists but is inactive; a different
error when it is unknown -/
theorem read_by_name (s : S) (name : String) :
    (∀ v, lookup s.values (s.qualify name) = some v → s.get name = .ok v) ∧
    (lookup s.values (s.qualify name) = none → s.hps.any (·.name == s.qualify name) = true → s.get name = .error (.inactive (s.qualify name))) ∧
    (lookup s.values (s.qualify name) = none → s.hps.any (·.name == s.qualify name) = false → s.get name = .error (.unknown (s.qualify name))) :=
  get_spec s name
theorem inactive_and_unknown_are_different_errors (n : String) : Err.inactive n ≠ Err.unknown n := by
  intro h; cases h

/-- **parents before children, for every build program**: running any program — any nesting of name scopes
and conditional scopes, eager or lazy children, any pre-populated values — keeps "every condition of an entry
names an entry registered earlier", restores both scope stacks and only appends to the space -/
theorem build_keeps_parents_first (fuel : Nat) (s : S) (prog : List Stmt) (last : Option Val) (g : Good s) :
    Good (run fuel s prog last).1 ∧ (run fuel s prog last).1.conds = s.conds ∧
    (run fuel s prog last).1.nameScopes = s.nameScopes ∧ ∃ ext, (run fuel s prog last).1.hps = s.hps ++ ext :=
  run_good fuel s prog last g

/-- a conditional scope on a parent that is not declared in the enclosing context is rejected -/
theorem scope_requires_parent (fuel : Nat) (s : S) (parent : String) (vals : List Val) (lz : Bool) (body rest : List Stmt)
    (last : Option Val) (h : s.exists_ (s.qualify parent) s.conds = false) :
    run (fuel + 1) s (.condScope parent vals lz body :: rest) last = (s, [.err (.notDefined (s.qualify parent))]) := by
  simp [run, h]

/-- **new entries**: rejected when `allow_new_entries` is off … -/
theorem new_entries_rejected (tuneNew : Bool) (o : S) (hps : List HP) (h : ∃ x ∈ hps, o.exists_ x.name x.conds = false) :
    ∃ e, updateSpace false tuneNew o hps = .error e :=
  updateSpace_rejects tuneNew o hps h

/-- … frozen (the search space does not change, so they keep their defaults in every trial) when
`tune_new_entries` is off … -/
theorem new_entries_frozen (allowNew : Bool) (o : S) (hps : List HP) (o' : S)
    (h : updateSpace allowNew false o hps = .ok o') : o' = o :=
  updateSpace_frozen allowNew o hps o' h

/-- … and otherwise appended to the search space, exactly those that were not there, in order -/
theorem new_entries_added (o : S) (hps : List HP) :
    ∃ o', updateSpace true true o hps = .ok o' ∧ o'.hps = o.hps ++ hps.filter (fun h => !(o.exists_ h.name h.conds)) :=
  updateSpace_adds o hps

/-- **the tuner discovers every hyperparameter declared under any nested conditional scope the build function opens**:
one build — whatever values the container holds, because the body of a `with hp.conditional_scope(...)` block always
runs — registers every declaration the build function makes outside Python-`if` guards (`Space.eagerDecls`: name
scopes and conditional scopes followed to any depth), under its qualified name and its full condition stack … -/
theorem build_registers_every_declaration (fuel : Nat) (s : S) (prog : List Stmt) (last : Option Val) (g : Good s)
    (hok : runOk fuel s prog last = true) :
    ∀ d ∈ eagerDecls fuel s.nameScopes s.conds prog, (run fuel s prog last).1.exists_ d.1 d.2 = true :=
  run_registers_eager fuel s prog last g hok

/-- … and after `_populate_initial_space` (new entries allowed and tuned) each of them is an entry of the ORACLE's search
space: the first build's registrations are merged, and however many further builds the activation loop performs, it
only ever adds entries (parents before children: `build_keeps_parents_first`) -/
theorem discovery_finds_every_declaration (prog : List Stmt) (o : S) (go : Good (copyOf o)) (fills : List Val) (fuel : Nat)
    (hok : runOk 10000 (copyOf o) prog none = true) :
    ∀ d ∈ eagerDecls 10000 [] [] prog, (populateInitial true true prog o fills (fuel + 1)).o.exists_ d.1 d.2 = true :=
  discovery_registers_eager prog o go fills fuel hok

/-- partial — declarations that user code guards with a Python `if` on the parent's value (the model's *lazy* scopes)
are found only once the activation loop has made their scope active; the loop is modelled (`Space.populateInitial`) and
compared with the real `BaseTuner` construction on every generated program, and a monitor checks completeness on the
implementation; the fixpoint argument "every lazily guarded declaration is eventually executed" is not proved. What is
proved about everything the loop builds is that it is merged parents-first: -/
theorem discovery_partial (fuel : Nat) (hp : S) (prog : List Stmt) (g : Good hp) : PF (run fuel hp prog none).1.hps :=
  (run_good fuel hp prog none g).1.pf

/-- non-vacuity: the repository's own nested example; `c` is active under `a = 3, b = 6`, `f` is not -/
example : (run 100 empty demo none).1.values = [("a", 3), ("b", 6), ("c", 7), ("d/e", 10)] ∧
    ((run 100 empty demo none).1.hps.map (·.name)) = ["a", "b", "c", "d/e", "f", "g/h"] := by decide

end Props.C13
