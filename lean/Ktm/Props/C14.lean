import Ktm.Transforms
import Ktm.Continuous
/-! # C14 — value/probability transforms stay in the domain and invert each other

Model (exact arithmetic, `Ktm/Transforms.lean`): a probability in `[0,1)` is `num/den` with
`num < den` (every double is such a ratio); decimal bounds and steps are scaled by their common
denominator `D` to integers (`min = a/D`, `max = b/D`, `step = s/D`; log steps are `s/t`). -/
namespace Props.C14
open Transforms

/-- every probability (even outside `[0,1)`) lands on a legal index -/
theorem index_in_range (num den n : Nat) (hn : 0 < n) : probToIndex num den n < n := probToIndex_lt num den n hn

/-- `index_to_prob` is a probability in `[0,1)` and `prob_to_index ∘ index_to_prob = id` -/
theorem index_prob_roundtrip (i n : Nat) (hi : i < n) :
    indexToProbNum i < indexToProbDen n ∧ probToIndex (indexToProbNum i) (indexToProbDen n) n = i :=
  ⟨indexToProb_lt_one i n hi, index_prob_index i n hi⟩

/-- **the enumerated values of a stepped linear hyperparameter are exactly the lattice**
`min, min+step, … ≤ max` -/
theorem linear_lattice_exact (lo hi : Int) (step : Nat) (hs : 0 < step) (hle : lo ≤ hi) (v : Int) :
    v ∈ values lo hi step ↔ lo ≤ v ∧ v ≤ hi ∧ ∃ k : Nat, v = lo + k * step :=
  mem_values lo hi step hs hle v

/-- `max` is enumerated iff it lies on the lattice -/
theorem max_on_lattice (lo hi : Int) (step : Nat) (hs : 0 < step) (hle : lo ≤ hi) :
    hi ∈ values lo hi step ↔ ∃ k : Nat, hi = lo + k * step :=
  max_included_iff lo hi step hs hle

/-- mapping any probability to a value yields a member of the domain (stepped linear kinds) -/
theorem prob_to_value_in_domain (lo hi : Int) (step : Nat) (hs : 0 < step) (hle : lo ≤ hi) (num den : Nat) :
    probToValueLin lo hi step num den ∈ values lo hi step :=
  probToValueLin_mem lo hi step hs hle num den

/-- mapping any domain value to a probability and back returns the same value (stepped linear kinds) -/
theorem value_prob_value (lo hi : Int) (step : Nat) (hs : 0 < step) (i : Nat) (hi' : i < nValues lo hi step) :
    probToValueLin lo hi step (indexToProbNum (indexOfLin lo step (valueByIndex lo step i)))
      (indexToProbDen (nValues lo hi step)) = valueByIndex lo step i :=
  value_prob_value_lin lo hi step hs i hi'

/-- **log / reverse_log lattice**: the enumeration scans `min·step^i ≤ max` upwards; it contains exactly an
initial segment of indices, and the first missing one already exceeds `max` (so `max` is included iff it is
`min·step^i` for some `i`) -/
theorem log_lattice_exact (a b s t fuel : Nat) (h : nLog a b s t fuel < fuel) :
    (∀ j, j < nLog a b s t fuel → a * s ^ j ≤ b * t ^ j) ∧ ¬ a * s ^ (nLog a b s t fuel) ≤ b * t ^ (nLog a b s t fuel) :=
  nLog_spec a b s t fuel h

theorem log_lattice_initial_segment (a b s t : Nat) (ht : 0 < t) (hst : t ≤ s) (i : Nat)
    (h : ¬ a * s ^ i ≤ b * t ^ i) : ¬ a * s ^ (i + 1) ≤ b * t ^ (i + 1) :=
  log_monotone a b s t ht hst i h

/-- `Choice`: any probability gives one of the choices; value → probability → value is the identity -/
theorem choice_in_domain {α} (vals : List α) (hne : vals ≠ []) (num den : Nat) :
    ∃ v, vals[probToIndex num den vals.length]? = some v := choice_mem vals hne num den
theorem choice_value_prob_value {α} [DecidableEq α] (vals : List α) (v : α) (hv : v ∈ vals) :
    vals[probToIndex (indexToProbNum (vals.idxOf v)) (indexToProbDen vals.length) vals.length]? = some v :=
  choice_roundtrip vals v hv

/-- `Boolean`: 3/4 ↦ True, 1/4 ↦ False -/
theorem boolean_value_prob_value (b : Bool) : boolOfProb (if b then 3 else 1) 4 = b := bool_roundtrip b

/-- non-vacuity: `Float(0, 1, step=0.2)` scaled by 10: six values, `max` included; probability just below 1
gives the last one; `Float(0.001, 10, step=10, log)`: five values -/
example : values 0 10 2 = [0, 2, 4, 6, 8, 10] ∧ probToValueLin 0 10 2 9007199254740991 9007199254740992 = 10 ∧
    nLog 1 10000 10 1 100 = 5 := by decide

/-- **continuous kinds, value → probability → value and back** (real arithmetic, `min < max`): the maps the code uses
for `Float` without a step are inverse to each other under linear, log and reverse_log sampling -/
theorem continuous_round_trips (lo hi : ℝ) (hlt : lo < hi) :
    (∀ p, Continuous.probLinear lo hi (Continuous.sampleLinear lo hi p) = p) ∧
    (∀ v, Continuous.sampleLinear lo hi (Continuous.probLinear lo hi v) = v) ∧
    (0 < lo → ∀ p, Continuous.probLog lo hi (Continuous.sampleLog lo hi p) = p) ∧
    (0 < lo → ∀ v, 0 < v → Continuous.sampleLog lo hi (Continuous.probLog lo hi v) = v) ∧
    (0 < lo → ∀ p, Continuous.probRevLog lo hi (Continuous.sampleRevLog lo hi p) = p) :=
  ⟨fun _ => Continuous.linear_prob_of_sample hlt, fun _ => Continuous.linear_sample_of_prob hlt,
   fun hlo _ => Continuous.log_prob_of_sample hlo hlt, fun hlo _ hv => Continuous.log_sample_of_prob hlo hlt hv,
   fun hlo _ => Continuous.revlog_prob_of_sample hlo hlt⟩

/-- every probability in `[0, 1]` lands in `[min, max]` for the continuous kinds -/
theorem continuous_in_domain (lo hi p : ℝ) (hle : lo ≤ hi) (h0 : 0 ≤ p) (h1 : p ≤ 1) :
    (lo ≤ Continuous.sampleLinear lo hi p ∧ Continuous.sampleLinear lo hi p ≤ hi) ∧
    (0 < lo → lo ≤ Continuous.sampleLog lo hi p ∧ Continuous.sampleLog lo hi p ≤ hi) ∧
    (0 < lo → lo ≤ Continuous.sampleRevLog lo hi p ∧ Continuous.sampleRevLog lo hi p ≤ hi) :=
  ⟨Continuous.linear_in_range hle h0 h1, fun hlo => Continuous.log_in_range hlo hle h0 h1,
   fun hlo => Continuous.revlog_in_range hlo hle h0 h1⟩

end Props.C14
