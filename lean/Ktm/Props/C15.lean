import Ktm.Codec
import Ktm.Persist
/-! # C15 — config/JSON round trips are lossless for spaces, values, trials and metrics

Model (`Ktm/Codec.lean`): the JSON trees `get_config` / `get_state` produce (`toJ`) and what `from_config` /
`from_state` read back (`fromJ`) for conditions, the five hyperparameter kinds with every configured field,
the container (space in order + values), metric observations / histories / trackers and trials. The text
level (`json.dumps` / `json.loads`) is Python's and is exercised, not modelled; float values are opaque
tokens. Oracle state: `Core.ofileOf` / `Core.reload` (C07). -/
namespace Props.C15
open Codec

/-- a hyperparameter comes back with its type, name, conditions, range, step, sampling, explicit default,
choices, `ordered` flag or fixed value — every field -/
theorem hyperparameter_roundtrip (h : HP) : HP.fromJ h.toJ = some h := HP.roundtrip h

/-- a condition comes back with its parent name and its values (typed) -/
theorem condition_roundtrip (c : Cond) : Cond.fromJ c.toJ = some c := Cond.roundtrip c

/-- a search space with a values assignment comes back with every entry, in order, and every value (typed) -/
theorem space_roundtrip (s : Space) : Space.fromJ s.toJ = some s := Space.roundtrip s

/-- "equal in every observable respect": whatever is computed from the reloaded search space — the activity of a name, membership, a
lookup, the completed values — equals what is computed from the original, because the reloaded VALUE is the original. (The
implementation also keeps tables derived from the entries, e.g. the entries per name; that `from_config` rebuilds them correctly is what
the by-name monitors of the `codec` suite check — the seeded change C15-G broke exactly that.) -/
theorem every_observation_survives {β : Type} (f : Space → β) (s : Space) : (Space.fromJ s.toJ).map f = some (f s) := by
  rw [Space.roundtrip]; rfl

/-- copying a search space (`from_config ∘ get_config`) yields an equal value; as a value it shares nothing
with the original -/
theorem copy_is_equal (s : Space) : s.copy = some s := Space.copy_eq s

/-- a metric history comes back with its direction and, per step, the list of executions' values -/
theorem history_roundtrip (h : Hist) : Hist.fromJ h.toJ = some h := Hist.roundtrip h
theorem observation_roundtrip (o : Obs) : Obs.fromJ o.toJ = some o := Obs.roundtrip o

/-- a trial comes back with id, hyperparameters, all metric histories, score, best step, status and message -/
theorem trial_roundtrip (t : Trial) : Trial.fromJ t.toJ = some t := Trial.roundtrip t

/-- an oracle's saved state restores every bookkeeping field (ongoing map up to the documented re-queue, retry
queue, end order, run counts, number of trials, algorithm state): `reload ∘ save` (C07) -/
theorem oracle_state_roundtrip {V A : Type} (o cfg : Core.Oracle V A) (d : Core.Disk V A) (hd : Core.DiskOK o d)
    (hcfg : cfg.maxTrials = o.maxTrials ∧ cfg.maxRetries = o.maxRetries ∧ cfg.maxConsec = o.maxConsec ∧ cfg.aborted = o.aborted) :
    ∃ ts' a, Core.reload cfg d = some (Core.requeueWith o ts' a) ∧ ts'.length = o.trials.length ∧
      ∀ (i : Nat), i ∉ o.ongoing.map (·.2) → ts'[i]? = o.trials[i]? :=
  Core.reload_eq_requeue o cfg d hd hcfg

/-- non-vacuity: an `Int` with an explicit default equal to its minimum, under a condition on a Boolean parent -/
example : HP.fromJ (HP.toJ ⟨"n", [⟨"flag", [.bool true]⟩], .int (.int 1) (.int 8) (some (.int 2)) "log" (some (.int 1))⟩) =
    some ⟨"n", [⟨"flag", [.bool true]⟩], .int (.int 1) (.int 8) (some (.int 2)) "log" (some (.int 1))⟩ := by decide

end Props.C15
