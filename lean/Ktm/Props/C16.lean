import Ktm.Rpc
import Ktm.Codec
/-! # C16 — the chief/worker RPC layer is transparent: same requests, same search

What the layer adds to an oracle is (a) a codec — every request and response crosses as a protocol-buffer
message — and (b) the chief's bookkeeping of client ids with its exit condition. The oracle behind the
servicer is the same oracle (C01–C12 apply to it unchanged), so "same requests, same search" reduces to the
codec being lossless and order-restoring. Modelled: typed values (`Codec.Val`: the `oneof` of int / float /
string / bool), the space decoder (`Rpc.decodeSpace`: entries regrouped by type, then reordered parents-first),
`exit_chief`. Single-precision rounding of scores and metric values and the gRPC transport are outside the
model (exercised by the suite through real protobuf bytes). -/
namespace Props.C16
open Rpc Reorder

/-- values keep their type through the message (`oneof` of int / float / string / bool) -/
theorem value_not_retyped (v : Codec.Val) : Codec.Val.fromJ v.toJ = some v := Codec.Val.roundtrip v

/-- **the decoded search space loses nothing, adds nothing and lists every parent ahead of its conditional
children**: for ANY regrouping of a parents-first space (in particular the proto's grouping by type) the decoder
returns a permutation of the space in parents-first order -/
theorem decoded_space_parents_first (P sp : List E) (hP : WPF (P.map (·.name)) P) (hperm : sp.Perm P) :
    (decodeSpace (P.map (·.name)) sp).Perm P ∧ WPF (P.map (·.name)) (decodeSpace (P.map (·.name)) sp) :=
  decode_parents_first P sp hP hperm

/-- **the chief regards the search as finished only when no trial is running and every worker that asked has
been told to stop** -/
theorem chief_exit_condition {V A : Type} (o : Core.Oracle V A) : exitChief o = true ↔ o.ongoing = [] ∧ o.tunerIds = [] :=
  exitChief_iff o

/-- a worker is in the chief's client set after every request that was not answered STOPPED, and leaves it
exactly when it is told STOPPED -/
theorem client_set_tracks_workers {V A : Type} (alg : Core.Alg V A) (o : Core.Oracle V A) (tuner c : Nat)
    (hh : Core.holds o tuner = none) (hnd : o.tunerIds.Nodup) :
    ((Core.create alg o tuner c).2 = .stopped → tuner ∉ (Core.create alg o tuner c).1.tunerIds) ∧
    ((∃ id v, (Core.create alg o tuner c).2 = .trial id v) ∨ (Core.create alg o tuner c).2 = .idle →
        tuner ∈ (Core.create alg o tuner c).1.tunerIds) :=
  tuner_ids_after_create alg o tuner c hh hnd

/-- non-vacuity: `[flag, n | flag]` grouped by type arrives as `[n, flag]`; decoding restores `[flag, n]` -/
example : (decodeSpace [0, 1] [⟨1, [0]⟩, ⟨0, []⟩]).map (·.name) = [0, 1] := by decide

end Props.C16
