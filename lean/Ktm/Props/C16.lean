import Ktm.Rpc
import Ktm.Codec
import Ktm.Proto
/-! # C16 — the chief/worker RPC layer is transparent: same requests, same search

What the layer adds to an oracle is (a) a codec — every request and response crosses as a protocol-buffer
message — and (b) the chief's bookkeeping of client ids with its exit condition. The oracle behind the
servicer is the same oracle (C01–C12 apply to it unchanged), so "same requests, same search" reduces to the
codec being lossless and order-restoring. Modelled: typed values (`Codec.Val`: the `oneof` of int / float /
string / bool), the space decoder (`Rpc.decodeSpace`: entries regrouped by type, then reordered parents-first),
`exit_chief`, and — `Ktm/Proto.lean` — the messages themselves: `to_proto` / `from_proto` of the five kinds of entries,
conditions, values, metric histories, score and trial, as canonical message trees that the suite compares field by
field with the real protobuf objects. Single-precision rounding is a parameter `r32` of the model (idempotent); the
gRPC transport is outside the model (exercised by the suite through real protobuf bytes). -/
namespace Props.C16
open Rpc Reorder

/-- values keep their type through the message (`oneof` of int / float / string / bool) -/
theorem value_not_retyped (v : Codec.Val) : Codec.Val.fromJ v.toJ = some v := Codec.Val.roundtrip v

/-- **an entry survives the encoding with nothing lost, added or retyped**: all five kinds, every field, conditions
included; `step = None` travels as 0 and comes back as `None`; the effective default travels, so the decoded entry
carries it explicitly (`Proto.norm`, idempotent, same effective default) -/
theorem entry_survives (h : Codec.HP) (hw : Proto.WF h) : Proto.hpFromP (Proto.hpP h) = some (Proto.norm h) :=
  Proto.hp_roundtrip h hw

theorem entry_default_unchanged (k : Codec.Kind) : Proto.effDefault (Proto.normKind k) = Proto.effDefault k :=
  Proto.effDefault_norm k

/-- … and a second trip changes nothing more -/
theorem entry_second_trip (h : Codec.HP) (hw : Proto.WF h) (hw' : Proto.WF (Proto.norm h)) :
    (Proto.hpFromP (Proto.hpP h)).bind (fun h' => Proto.hpFromP (Proto.hpP h')) = some (Proto.norm h) :=
  Proto.hp_roundtrip_twice h hw hw'

/-- **values are neither lost, added nor retyped** (the `map<string, Value>` of a trial's hyperparameters) -/
theorem values_survive (vs : List (String × Codec.Val)) : Proto.valuesFromP (Proto.valuesP vs) = some vs :=
  Proto.values_roundtrip vs

/-- **the grouping of the space by type is a permutation** — nothing lost, nothing added; the order is restored by the
next theorem -/
theorem grouped_space_is_a_permutation (sp : List Codec.HP) : (Proto.decodedOrder sp).Perm sp :=
  Proto.decodedOrder_perm sp

/-- **a trial survives up to single precision**: id, status and values exactly; each metric history keeps its direction
and steps, every value rounded once (`r32`); the score likewise; the message has no field (known finding F19) -/
theorem trial_survives (r32 : String → String) (t : Proto.PTrial) :
    Proto.trialFromP (Proto.trialP r32 t) = some { t with metrics := t.metrics.map (fun p => (p.1, Proto.roundHist r32 p.2)),
                                                          score := t.score.map (fun p => (r32 p.1, p.2)), message := none } :=
  Proto.trial_roundtrip r32 t

theorem single_precision_once (r32 : String → String) (hr : ∀ t, r32 (r32 t) = r32 t) (h : Proto.PHist) :
    Proto.roundHist r32 (Proto.roundHist r32 h) = Proto.roundHist r32 h := Proto.roundHist_idem r32 hr h

/-- **the decoded search space loses nothing, adds nothing and lists every parent ahead of its conditional
children**: for ANY regrouping of a parents-first space (in particular the proto's grouping by type) the decoder
returns a permutation of the space in parents-first order -/
theorem decoded_space_parents_first (P sp : List E) (hP : WPF (P.map (·.name)) P) (hperm : sp.Perm P) :
    (decodeSpace (P.map (·.name)) sp).Perm P ∧ WPF (P.map (·.name)) (decodeSpace (P.map (·.name)) sp) :=
  decode_parents_first P sp hP hperm

/-- **the chief regards the search as finished only when no trial is running and every worker that asked has
been told to stop** -/
theorem chief_exit_condition {V A : Type} (o : Core.Oracle V A) : exitChief o = true ↔ o.ongoing = [] ∧ o.tunerIds = [] :=
  exitChief_iff o

/-- a worker is in the chief's client set after every request that was not answered STOPPED, and leaves it
exactly when it is told STOPPED -/
theorem client_set_tracks_workers {V A : Type} (alg : Core.Alg V A) (o : Core.Oracle V A) (tuner c : Nat)
    (hh : Core.holds o tuner = none) (hnd : o.tunerIds.Nodup) :
    ((Core.create alg o tuner c).2 = .stopped → tuner ∉ (Core.create alg o tuner c).1.tunerIds) ∧
    ((∃ id v, (Core.create alg o tuner c).2 = .trial id v) ∨ (Core.create alg o tuner c).2 = .idle →
        tuner ∈ (Core.create alg o tuner c).1.tunerIds) :=
  tuner_ids_after_create alg o tuner c hh hnd

/-- non-vacuity: `[flag, n | flag]` grouped by type arrives as `[n, flag]`; decoding restores `[flag, n]` -/
example : (decodeSpace [0, 1] [⟨1, [0]⟩, ⟨0, []⟩]).map (·.name) = [0, 1] := by decide

end Props.C16
