import Ktm.Sync
import Ktm.SyncOrig
import Ktm.SyncMulti
import Ktm.SyncPre
/-! # C17 — oracle operations are mutually exclusive, linearizable and never wedge

Model (`Ktm/Sync.lean`): the repaired `synchronized` wrapper as a small-step system over its shared
operations — read the owner table, acquire the per-oracle lock (lookup / creation under the guard is one
atomic step), write the owner, run the wrapped method as a *non-atomic* read-modify-write of the oracle state
(it may raise before writing), clear the owner, release the lock (in `finally`) — for any number of threads;
a schedule is a list of (thread, does-the-body-raise) choices. `Ktm/SyncOrig.lean` models the wrapper as it
was before the two repairs and proves the failing schedules. -/
namespace Props.C17
open Sync

/-- **mutual exclusion**: for every number of threads, every schedule and every pattern of raising calls,
at most one thread is between acquiring and releasing the oracle's lock -/
theorem mutual_exclusion (f : Nat → Nat → Nat) (s0 : Nat) (sched : List (Nat × Bool)) (t u : Nat)
    (ht : inCS ((run f (init s0) sched).pc t) = true) (hu : inCS ((run f (init s0) sched).pc u) = true) : t = u :=
  Sync.mutual_exclusion f s0 sched t u ht hu

/-- **linearizable**: the oracle state after any schedule equals the state obtained by running the calls one
at a time in the order of their writes — no update is lost although every call reads and writes in two steps -/
theorem linearizable (f : Nat → Nat → Nat) (s0 : Nat) (sched : List (Nat × Bool)) :
    (run f (init s0) sched).st = seqState f s0 (run f (init s0) sched).log :=
  Sync.linearizable f s0 sched

/-- **an exception does not leave the oracle locked**: whenever every thread is between calls — however many
of the calls raised — the lock is free and no owner is recorded -/
theorem no_wedge_after_exception (f : Nat → Nat → Nat) (s0 : Nat) (sched : List (Nat × Bool))
    (hidle : ∀ t, (run f (init s0) sched).pc t = .idle) :
    (run f (init s0) sched).held = none ∧ (run f (init s0) sched).owner = none :=
  Sync.no_wedge f s0 sched hidle

/-- **re-entrant calls do not deadlock**: a thread inside the wrapped method is the recorded owner, so a nested
synchronized call from it skips the (non-reentrant) lock -/
theorem reentrant_no_deadlock (f : Nat → Nat → Nat) (s0 : Nat) (sched : List (Nat × Bool)) (t : Nat)
    (hin : ownsName ((run f (init s0) sched).pc t) = true) :
    decide ((run f (init s0) sched).owner ≠ some t) = false :=
  Sync.reentrant_no_acquire f s0 sched t hin

/-- **progress**: the only operation that can block is `acquire`, and only while some thread holds the lock;
a thread holding the lock is never blocked, so it always reaches its release -/
theorem only_acquire_blocks (f : Nat → Nat → Nat) (g : G) (t : Nat) (r : Bool) (hb : step f g t r = none) :
    g.pc t = .decided true ∧ g.held ≠ none :=
  Sync.only_acquire_blocks f g t r hb

/-- **different oracles do not block each other** (`Ktm/SyncMulti.lean`: several oracles, the per-oracle locks looked up
under the process-wide guard as the code does it). In every reachable state a thread that cannot move either waits
for the guard, whose holder is in the middle of a lookup, or for the lock of the oracle it is calling, held by a thread
inside a call on that same oracle … -/
theorem different_oracles_do_not_block (sched : List (Nat × Nat)) (t o : Nat)
    (hb : SyncMulti.step (SyncMulti.run SyncMulti.init sched) t o = none) :
    (∃ o' u, (SyncMulti.run SyncMulti.init sched).pc t = .decided o' ∧ (SyncMulti.run SyncMulti.init sched).guard = some u ∧
        SyncMulti.isLookup ((SyncMulti.run SyncMulti.init sched).pc u) = true) ∨
    (∃ o' u, (SyncMulti.run SyncMulti.init sched).pc t = .want o' ∧ (SyncMulti.run SyncMulti.init sched).held o' = some u ∧
        SyncMulti.csOf ((SyncMulti.run SyncMulti.init sched).pc u) = some o') :=
  SyncMulti.blocked_only_by_same_oracle _ (SyncMulti.inv_reachable sched) t o hb

/-- … the guard is held only during the lookup itself and its holder is never blocked: its next step releases it -/
theorem guard_is_momentary (sched : List (Nat × Nat)) (t o : Nat)
    (hgd : (SyncMulti.run SyncMulti.init sched).guard = some t) :
    (∃ o', (SyncMulti.run SyncMulti.init sched).pc t = .lookup o') ∧
    ∃ g', SyncMulti.step (SyncMulti.run SyncMulti.init sched) t o = some g' ∧ g'.guard = none :=
  ⟨(SyncMulti.guard_only_during_lookup sched t).mp hgd,
   SyncMulti.guard_holder_not_blocked _ (SyncMulti.inv_reachable sched) t o hgd⟩

/-- mutual exclusion holds per oracle in the several-oracle model too -/
theorem mutual_exclusion_per_oracle (sched : List (Nat × Nat)) (o t u : Nat)
    (ht : SyncMulti.csOf ((SyncMulti.run SyncMulti.init sched).pc t) = some o)
    (hu : SyncMulti.csOf ((SyncMulti.run SyncMulti.init sched).pc u) = some o) : t = u :=
  SyncMulti.mutex_per_oracle sched o t u ht hu

/-- a wrapper that keeps the guard while it waits for the oracle's lock breaks the clause: a call on an idle oracle is
blocked behind a thread that merely queues on a busy one -/
theorem guard_kept_while_waiting_blocks_others :
    let g := SyncMulti.runHG SyncMulti.init [(0, 0), (0, 0), (0, 0), (0, 0), (2, 0), (2, 0), (2, 0), (1, 1)]
    g.pc 0 = .body 0 ∧ g.pc 2 = .lookup 0 ∧ g.guard = some 2 ∧ g.pc 1 = .decided 1 ∧ SyncMulti.stepHeldGuard g 1 1 = none :=
  SyncMulti.held_guard_blocks_other_oracle

/-- the wrapper as it was (lock created lazily without a guard, no `try/finally`): the first concurrent use of
a fresh oracle puts two threads inside the method, and a raising call wedges every other thread -/
theorem original_wrapper_race :
    (SyncOrig.run SyncOrig.init SyncOrig.raceSchedule).pc 0 = .body ∧ (SyncOrig.run SyncOrig.init SyncOrig.raceSchedule).pc 1 = .body :=
  SyncOrig.race_breaks_mutex
theorem original_wrapper_wedges :
    (SyncOrig.run SyncOrig.init SyncOrig.raiseSchedule).pc 0 = .dead ∧ (SyncOrig.run SyncOrig.init SyncOrig.raiseSchedule).held = [0] ∧
    (SyncOrig.run SyncOrig.init SyncOrig.raiseSchedule).owner = some 0 ∧ (SyncOrig.run SyncOrig.init SyncOrig.raiseSchedule).pc 1 = .gotLock 0 :=
  SyncOrig.raise_wedges

/-- non-vacuity: two threads interleaved at every step; the second call raises; final state = f 0 applied once -/
def demoSched : List (Nat × Bool) :=
  [(0, false), (1, false), (0, false), (1, false), (0, false), (0, false), (0, false), (0, false), (0, false),
   (1, false), (1, false), (1, true), (1, false), (1, false)]
def demoF (t s : Nat) : Nat := 3 * s + t + 1
example : (run demoF (init 0) demoSched).st = 1 ∧ (run demoF (init 0) demoSched).log = [0] ∧
    (run demoF (init 0) demoSched).held = none ∧ (run demoF (init 0) demoSched).owner = none := by decide

/-- a wrapper that reads shared state only inside the critical section (the legacy `end_trial(trial_id, status)` conversion after
the repair of F23): for EVERY schedule of any number of space-growing calls and the legacy call, the snapshot it records is the value
of the sequential run in lock order … -/
theorem reads_under_the_lock_are_sequential (es : List SyncPre.Ev) :
    ∀ v, (SyncPre.runFix SyncPre.init es).lpc = .done v → v = SyncPre.sequentialSnapshot (0 + SyncPre.growsBeforeLegacy es) :=
  SyncPre.fix_snapshot_is_sequential es SyncPre.init rfl

/-- … whereas a read ahead of the lock (the original wrapper) records, on a three-step schedule, a snapshot that the call's own
place in the lock order does not allow -/
theorem read_ahead_of_the_lock_is_not (_ : Unit) :
    (SyncPre.runOrig SyncPre.init SyncPre.badSchedule).lpc = .done 0 ∧ (SyncPre.runOrig SyncPre.init SyncPre.badSchedule).s = 1 ∧
    (SyncPre.runFix SyncPre.init [.grow, .legacyStep]).lpc = .done 1 :=
  ⟨SyncPre.orig_records_stale_snapshot.1, SyncPre.orig_records_stale_snapshot.2, SyncPre.fix_on_the_same_schedule.2⟩

end Props.C17
