import Ktm.Results
import Ktm.Track
import Ktm.NanEpoch
/-! # C18 — metric bookkeeping and result conversion compute the documented aggregates

Model: `Metrics.update / mean / bestValue / bestStep / history` (`MetricHistory`), values are NaN or
extended rationals with numpy's `mean` / `nanmin` / `nanmax` semantics; `Results.*` for
`convert_to_metrics_dict`, `get_best_step`, `MultiObjective.get_value` (finite integer-scaled curves). -/
namespace Props.C18
open Metrics Results

/-- metrics are recorded per step; a report at an already seen step is appended to that step's
executions, every other step is untouched -/
theorem reports_recorded_per_step (h : List Obs) (s : Int) (v : FV) (s' : Int) :
    valsAt (update h s v) s' = if s' = s then valsAt h s ++ [v] else valsAt h s' :=
  update_records h s v s'

/-- a repeated step is merged, never duplicated -/
theorem steps_stay_distinct (h : List Obs) (s : Int) (v : FV) :
    (update h s v).map (·.step) = if s ∈ h.map (·.step) then h.map (·.step) else h.map (·.step) ++ [s] :=
  update_steps h s v

/-- the best value is attained by some step's mean and is at least as good, in the metric's direction,
as every non-NaN mean; it is NaN-free unless every mean is NaN -/
theorem best_value_spec (m : Bool) (l : List FV) :
    match nanBest m l with
    | some b => FV.val b ∈ l ∧ ∀ a, FV.val a ∈ l → leDir m b a = true
    | none => ∀ a, FV.val a ∉ l :=
  nanBest_spec m l

/-- the best step attains the best value -/
theorem best_step_attains (m : Bool) (h : List Obs) (s : Int) (hs : bestStep m h = some s) :
    ∃ o ∈ h, o.step = s ∧ Metrics.bestValue m h = some (mean o.vals) :=
  bestStep_attains m h s hs

/-- histories come back in step order, with exactly the recorded observations -/
theorem history_in_step_order (h : List Obs) :
    (history h).Pairwise (fun a b => a.step ≤ b.step) ∧ (history h).Perm h :=
  history_sorted_perm h

/-- a multi-objective is the sum of its minimised metrics minus the sum of its maximised ones -/
theorem multi_objective_value (l : List (Bool × Int)) : multiValue l = sumWhere true l - sumWhere false l :=
  multiValue_eq l

/-- each execution's objective is its curve's value at the *first* epoch attaining the best value -/
theorem execution_best_epoch_first (minimize : Bool) (curve : List Int) (h : curve ≠ []) :
    ∃ i, bestEpoch minimize curve = some i ∧ BestEpoch.FirstMin (curve.map (frame minimize)) i :=
  bestEpoch_first minimize curve h

/-- the objective of a list of executions is the mean over executions of each execution's best-epoch
objective (not the best of the means) -/
theorem list_objective_is_mean_of_bests (minimize : Bool) (curves : List (List Int)) (q : Rat)
    (h : listObjective minimize curves = some q) :
    q = (((curves.filterMap (Results.bestValue minimize)).sum : Int) : Rat) / (curves.length : Rat) ∧
    (curves.filterMap (Results.bestValue minimize)).length = curves.length := by
  unfold listObjective at h
  simp only at h
  split at h
  · rename_i hc; cases h; exact ⟨rfl, hc.1⟩
  · cases h

/-- every metric of a trial is tracked under the direction of its own name — the objective's as the user gave it (the
components of a multi-objective included), otherwise what the name says, otherwise "min" — for every sequence of reports,
whatever other metrics a report holds and in whatever order -/
theorem metric_direction_is_its_own (infer : String → Option Bool) (o : Track.Obj) (rs : List (Int × List (String × FV)))
    (n : String) (h : Track.Hist) (hm : (n, h) ∈ Track.reports infer o rs) : h.minimize = Track.dirOf infer o n :=
  Track.wf_reports infer o rs n h hm

theorem objective_direction_is_the_users (infer : String → Option Bool) (o : Track.Obj) :
    Track.dirOf infer o o.name = o.minimize ∧
    (∀ m d, o.name ≠ m → Track.partDir o.parts m = some d → Track.dirOf infer o m = d) ∧
    (∀ m, o.name ≠ m → Track.partDir o.parts m = none → Track.dirOf infer o m = (infer m).getD true) :=
  ⟨Track.dir_of_objective infer o, fun m d => Track.dir_of_component infer o m d, fun m => Track.dir_of_other infer o m⟩

/-- one `update_trial` report records, for each metric, exactly the value reported for it at that step and leaves every
other metric alone: the outcome does not depend on the order of the report's keys -/
theorem report_is_per_metric (infer : String → Option Bool) (o : Track.Obj) (step : Int) (kvs : List (String × FV))
    (hnd : (kvs.map (·.1)).Nodup) (t : Track.Tracker) (m : String) :
    (m ∉ kvs.map (·.1) → Track.lookup (Track.report infer o t step kvs) m = Track.lookup t m) ∧
    (∀ v, (m, v) ∈ kvs → Track.lookup (Track.report infer o t step kvs) m = some (Track.into infer o step m (Track.lookup t m) v)) :=
  Track.report_one_metric infer o step kvs hnd t m

/-- an execution whose objective diverges to NaN at some epoch: a NaN epoch is never the best one — when the first epoch is a number
the chosen epoch is the first that attains the best value among the numeric epochs (values framed so that smaller is better; `none` = NaN) -/
theorem nan_epoch_is_never_best (m : Int) (vs : List (Option Int)) :
    ∃ i m', NanEpoch.bestEpoch (some m :: vs) = some (i, some m') ∧ NanEpoch.FirstNumMin (some m :: vs) i m' :=
  NanEpoch.best_epoch_ignores_nan m vs

/-- … and a NaN at the very first epoch stays (nothing compares better than NaN): the execution's objective is NaN -/
theorem nan_first_epoch_stays (vs : List (Option Int)) : NanEpoch.bestEpoch (none :: vs) = some (0, none) :=
  NanEpoch.nan_first_stays vs

/-- non-vacuity: best of means vs mean of bests differ on [[3,1],[1,3]]: mean of bests is 1 -/
example : (listObjective true [[3, 1], [1, 3]]).isSome ∧ Results.bestValue true [3, 1] = some 1 ∧ Results.bestValue true [1, 3] = some 1 := by decide

end Props.C18
