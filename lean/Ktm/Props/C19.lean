import Ktm.Search
import Ktm.PersistOps
/-! # C19 — the search loop ends each started trial once, maps errors, and resumes

Model: `Search.search` = `BaseTuner.search` of one tuner over the generic oracle with a scripted
`run_trial` (one `Attempt` per call: returned results / ordinary exception / `FailedTrialError` / a
`FatalError` subclass / interrupt), `fuel` bounding the number of requests. Restart = `Core.reload`. -/
namespace Props.C19
open Core Search
variable {V A : Type}

/-- **every started trial is ended exactly once**: the trace of the loop is a sequence of
(start id, end id) pairs, followed by STOPPED, or by a start whose run raised a fatal error or was
interrupted (nothing is ended then: the error propagates), or by the end that aborts the search; the
loop keeps asking while told IDLE and stops when told STOPPED -/
theorem each_started_ended_once (alg : Alg V A) (fuel : Nat) (o : Oracle V A) (script : List Attempt) :
    ∃ p t, (search alg fuel o script []).2 = p ++ t ∧ Pairs p ∧ Terminal t := by
  have := search_trace alg fuel o script [] Pairs.nil
  simpa using this

/-- **error mapping**: returned results ⇒ COMPLETED, ordinary exception ⇒ INVALID, `FailedTrialError` ⇒
FAILED, in the order of the attempts; fatal errors and interrupts report nothing -/
theorem status_mapping (alg : Alg V A) (fuel : Nat) (o : Oracle V A) (script : List Attempt) :
    ∃ k, endsOf (search alg fuel o script []).2 = (script.take k).filterMap outcomeOf ∧
      ∀ a ∈ script.take k, (outcomeOf a).isSome := by
  have := Search.status_mapping alg fuel o script []
  simpa [endsOf] using this

/-- **resume**: a search interrupted while one trial was in hand, restarted on the same directory (at
any point at which the files are consistent — every crash point, by C08), re-runs that trial first with
the same id and values, and the number of distinct trials — hence the remaining budget — is unchanged -/
theorem resume_same_trial (alg : Alg V A) (o cfg : Oracle V A) (d : Disk V A) (h : Inv o) (hd : DiskOK o d)
    (hcfg : cfg.maxTrials = o.maxTrials ∧ cfg.maxRetries = o.maxRetries ∧ cfg.maxConsec = o.maxConsec ∧ cfg.aborted = o.aborted)
    (tuner id : Nat) (t : Trial V) (hon : o.ongoing = [(tuner, id)]) (ht : o.trials[id]? = some t) (tuner' c : Nat) :
    ∃ r, reload cfg d = some r ∧ (create alg r tuner' c).2 = .trial id t.vals ∧ r.trials.length = o.trials.length :=
  resume_reissues_interrupted alg o cfg d h hd hcfg tuner id t hon ht tuner' c

/-- **overwrite on starts from nothing**: a freshly constructed oracle has no trials and satisfies the invariant -/
theorem overwrite_fresh (a : A) (m : Option Nat) (r k : Nat) :
    (init (V := V) a m r k).trials = [] ∧ (init (V := V) a m r k).endOrder = [] ∧ Inv (init (V := V) a m r k) :=
  ⟨rfl, rfl, inv_init a m r k⟩

/-- non-vacuity: returned, raised (retried), FailedTrialError, then a fatal error -/
def demo : Bool :=
  let alg : Alg Nat Unit := { populate := fun _ c => ((), .run c), onEnd := fun a _ => a, scoreOf := fun l => l.getLast?.join }
  let r := search alg 20 (init () (some 5) 1 3) [.ret (some 1), .raise, .ret (some 2), .failedTrial, .fatal] []
  endsOf r.2 == [.completed, .invalid, .completed, .failed] && r.2.getLast? == some .fatalEv
example : demo = true := by decide

end Props.C19
