import Ktm.Results
import Ktm.HyperbandSched
/-! # C20 — kept checkpoints are the best epoch's weights; reload and resume use them

What a theorem can carry here is the *selection logic*: which epoch's weights the shared
`SaveBestEpoch` callback leaves on disk, that this is the epoch reported to the oracle, and which
epochs a promoted Hyperband trial trains. That the file then holds those weights, and that
`get_best_models` / a promoted trial load them, is Keras training and HDF5 I/O: validated end to end by
the `checkpoint` suite on real Keras searches, not proved. -/
namespace Props.C20
open Results

/-- for every finite curve set (all executions of a trial, one shared callback instance) the last
write happens at the first epoch, in execution order, attaining the best objective value over all
executions; ties and plateaus never move it (strict `better_than`) -/
theorem kept_is_first_global_best (minimize : Bool) (curves : List (List Int)) (h : curves.flatten ≠ []) :
    ∃ i, keptFlat minimize curves = some i ∧ BestEpoch.FirstMin (curves.flatten.map (frame minimize)) i :=
  Results.kept_is_first_global_best minimize curves h

/-- with a single execution the kept epoch is exactly the best step reported to the oracle (both use
the same strict comparison starting from ±inf / epoch 0) -/
theorem single_execution_kept_is_reported (minimize : Bool) (curve : List Int) (h : curve ≠ []) :
    keptFlat minimize [curve] = bestEpoch minimize curve :=
  single_execution_kept_eq_best_step minimize curve h

/-- and the reported objective value is the curve's value at that epoch -/
theorem single_execution_value (minimize : Bool) (curve : List Int) :
    bestValue minimize curve = (bestEpoch minimize curve).bind (fun e => curve[e]?) := rfl

/-- a promoted Hyperband trial trains exactly the epochs between its starting epoch (where its parent
stopped) and its budget: the interval is well-formed and ends at `max_epochs` in the last round -/
theorem promoted_epoch_range (m f b r : Nat) (hf : 1 ≤ f) (hr : r + 1 ≤ b) :
    HB.epochsOf m f b r ≤ HB.epochsOf m f b (r + 1) ∧ HB.epochsOf m f b b = m :=
  ⟨HB.epochs_mono m f b r hf hr, HB.epochs_last m f b hf⟩

/-- non-vacuity: two executions, plateau and tie: kept = flat epoch 1 when minimising (first 1), flat
epoch 3 when maximising (first 5) -/
example : keptFlat true [[3, 1, 2], [5, 1]] = some 1 ∧ keptFlat false [[3, 1, 2], [5, 5]] = some 3 := by decide

end Props.C20
