import Ktm.Codec
/-! C16: the protocol-buffer encoding of hyperparameters, values, search spaces, metric histories and trials, at
    message level. A message is a JSON-like tree (`Codec.J`) in a canonical form the harness derives from the real
    protobuf object field by field; `toP` is what `to_proto` builds, `fromP` what `from_proto` reads.

    What the encoding does to an entry (and the theorems say exactly this, no more):
    * every field survives, with its type (`Value` is a oneof of sint64 / double / string / bool; bounds and steps of
      `Float` are doubles, of `Int` sint64);
    * `step = None` travels as `0` and comes back as `None` (`step or None`), so a step of exactly `0` is not
      representable — excluded by `WF`, and by the constructors of the library;
    * the *effective* default travels (`self.default`: the given default, else `min_value` / the first choice), so the
      decoded entry carries it as its explicit default: `fromP (toP h) = norm h`, where `norm` makes the default
      explicit and is idempotent; every observable of `norm h` equals that of `h`;
    * `Choice` values and condition values are encoded with the kind of the FIRST value (homogeneous lists, as the
      constructors require); a Boolean-valued choice would travel as integers — excluded by `WF`;
    * the search space is grouped by type (fixed, float, int, choice, boolean when decoded): a permutation, put back
      in a parents-first order by `Reorder.reorder` (`Rpc.decode_parents_first`);
    * metric values and the score are single-precision floats: they come back rounded (`r32`, idempotent), nothing else
      changes; `Trial.message` has no field and comes back empty (known finding F19). -/
namespace Proto
open Codec

def valP : Val → J
  | .int i => .obj [("int", .int i)]
  | .flt t => .obj [("float", .flt t)]
  | .str s => .obj [("str", .str s)]
  | .bool b => .obj [("bool", .bool b)]

def valFromP : J → Option Val
  | .obj [("int", .int i)] => some (.int i)
  | .obj [("float", .flt t)] => some (.flt t)
  | .obj [("str", .str s)] => some (.str s)
  | .obj [("bool", .bool b)] => some (.bool b)
  | _ => none

theorem val_roundtrip (v : Val) : valFromP (valP v) = some v := by cases v <;> rfl

def valsFromP : List J → Option (List Val)
  | [] => some []
  | x :: xs => match valFromP x, valsFromP xs with
    | some v, some vs => some (v :: vs)
    | _, _ => none

theorem vals_roundtrip (l : List Val) : valsFromP (l.map valP) = some l := by
  induction l with
  | nil => rfl
  | cons v vs ih => simp [valsFromP, val_roundtrip, ih]

/-- the kind `to_proto` picks for a homogeneous value list from its first element -/
inductive VK | str | bool | int | float
  deriving DecidableEq, Repr

def kindOf : Val → VK
  | .str _ => .str | .bool _ => .bool | .int _ => .int | .flt _ => .float

def Homog (vs : List Val) : Prop := ∀ v ∈ vs, ∀ w ∈ vs, kindOf v = kindOf w

/-! ### conditions -/

def condP (c : Cond) : J := .obj [("name", .str c.name), ("values", .arr (c.vals.map valP))]

def condFromP (j : J) : Option Cond :=
  match j.get "name", j.get "values" with
  | some (.str n), some (.arr vs) => (valsFromP vs).map (fun vs => ⟨n, vs⟩)
  | _, _ => none

theorem cond_roundtrip (c : Cond) : condFromP (condP c) = some c := by
  simp [condFromP, condP, J.get, vals_roundtrip]

def condsFromP : List J → Option (List Cond)
  | [] => some []
  | x :: xs => match condFromP x, condsFromP xs with
    | some c, some cs => some (c :: cs)
    | _, _ => none

theorem conds_roundtrip (l : List Cond) : condsFromP (l.map condP) = some l := by
  induction l with
  | nil => rfl
  | cons c cs ih => simp [condsFromP, cond_roundtrip, ih]

/-! ### entries -/

def samplingP : String → String
  | "linear" => "LINEAR" | "log" => "LOG" | "reverse_log" => "REVERSE_LOG" | _ => "NONE"
def samplingFromP : String → Option String
  | "LINEAR" => some "linear" | "LOG" => some "log" | "REVERSE_LOG" => some "reverse_log" | _ => none

def ValidSampling (s : String) : Prop := s = "linear" ∨ s = "log" ∨ s = "reverse_log"

theorem sampling_roundtrip (s : String) (h : ValidSampling s) : samplingFromP (samplingP s) = some s := by
  rcases h with rfl | rfl | rfl <;> rfl

/-- `step=self.step if self.step is not None else 0` (a double `0.0` for `Float`) -/
def stepP (zero : Val) (st : Option Val) : J := (st.getD zero).toJ
/-- `step=proto.step or None` -/
def stepFromP (zero : Val) (j : J) : Option (Option Val) :=
  match Val.fromJ j with
  | some v => some (if v = zero then none else some v)
  | none => none

theorem step_roundtrip (zero : Val) (st : Option Val) (h : st ≠ some zero) : stepFromP zero (stepP zero st) = some st := by
  cases st with
  | none => simp [stepFromP, stepP, Val.roundtrip]
  | some v =>
    have hv : v ≠ zero := fun e => h (by rw [e])
    simp [stepFromP, stepP, Val.roundtrip, hv]

def zeroI : Val := .int 0
def zeroF : Val := .flt "0/1"

/-- `hp.default`: the given default, else the lower bound / first choice -/
def effDefault : Kind → Val
  | .int lo _ _ _ d => d.getD lo
  | .float lo _ _ _ d => d.getD lo
  | .choice vs _ d => d.getD (vs.headD (.int 0))
  | .boolean d => d
  | .fixed v => v

/-- the entry with its effective default made explicit (what the other side holds after decoding) -/
def normKind : Kind → Kind
  | .int lo hi st sa d => .int lo hi st sa (some (d.getD lo))
  | .float lo hi st sa d => .float lo hi st sa (some (d.getD lo))
  | .choice vs ord d => .choice vs ord (some (d.getD (vs.headD (.int 0))))
  | k => k

def norm (h : HP) : HP := { h with kind := normKind h.kind }

theorem norm_idem (h : HP) : norm (norm h) = norm h := by
  cases h with
  | mk n cs k => cases k <;> simp [norm, normKind]

theorem effDefault_norm (k : Kind) : effDefault (normKind k) = effDefault k := by
  cases k <;> simp [normKind, effDefault]

def hpP (h : HP) : J :=
  let base := [("name", J.str h.name), ("conditions", J.arr (h.conds.map condP))]
  match h.kind with
  | .int lo hi st sa _ => .obj ([("kind", .str "Int")] ++ base ++ [("min_value", lo.toJ), ("max_value", hi.toJ), ("step", stepP zeroI st),
      ("sampling", .str (samplingP sa)), ("default", (effDefault h.kind).toJ)])
  | .float lo hi st sa _ => .obj ([("kind", .str "Float")] ++ base ++ [("min_value", lo.toJ), ("max_value", hi.toJ), ("step", stepP zeroF st),
      ("sampling", .str (samplingP sa)), ("default", (effDefault h.kind).toJ)])
  | .choice vs ord _ => .obj ([("kind", .str "Choice")] ++ base ++ [("values", .arr (vs.map valP)), ("ordered", .bool ord),
      ("default", valP (effDefault h.kind))])
  | .boolean d => .obj ([("kind", .str "Boolean")] ++ base ++ [("default", d.toJ)])
  | .fixed v => .obj ([("kind", .str "Fixed")] ++ base ++ [("value", valP v)])

def numericFromP (zero : Val) (j : J) : Option (Val × Val × Option Val × String × Val) :=
  match j.get "min_value", j.get "max_value", j.get "step", j.get "sampling", j.get "default" with
  | some lo, some hi, some st, some (.str sa), some d =>
    match Val.fromJ lo, Val.fromJ hi, stepFromP zero st, samplingFromP sa, Val.fromJ d with
    | some lo, some hi, some st, some sa, some d => some (lo, hi, st, sa, d)
    | _, _, _, _, _ => none
  | _, _, _, _, _ => none

def hpFromP (j : J) : Option HP :=
  match j.get "kind", j.get "name", j.get "conditions" with
  | some (.str k), some (.str n), some (.arr cs) =>
    match condsFromP cs with
    | none => none
    | some cs =>
      if k == "Int" then (numericFromP zeroI j).map (fun (lo, hi, st, sa, d) => ⟨n, cs, .int lo hi st sa (some d)⟩)
      else if k == "Float" then (numericFromP zeroF j).map (fun (lo, hi, st, sa, d) => ⟨n, cs, .float lo hi st sa (some d)⟩)
      else if k == "Choice" then
        match j.get "values", j.get "ordered", j.get "default" with
        | some (.arr vs), some (.bool ord), some d =>
          match valsFromP vs, valFromP d with
          | some vs, some d => some ⟨n, cs, .choice vs ord (some d)⟩
          | _, _ => none
        | _, _, _ => none
      else if k == "Boolean" then
        match j.get "default" with
        | some d => (Val.fromJ d).map (fun d => ⟨n, cs, .boolean d⟩)
        | none => none
      else if k == "Fixed" then
        match j.get "value" with
        | some v => (valFromP v).map (fun v => ⟨n, cs, .fixed v⟩)
        | none => none
      else none
  | _, _, _ => none

/-- what the constructors of the library guarantee and the encoding needs: a known sampling mode, a step that is
    not exactly zero -/
def WF (h : HP) : Prop :=
  match h.kind with
  | .int _ _ st sa _ => ValidSampling sa ∧ st ≠ some zeroI
  | .float _ _ st sa _ => ValidSampling sa ∧ st ≠ some zeroF
  | _ => True

/-- **an entry survives the encoding**: every field, with its type; the effective default becomes explicit -/
theorem hp_roundtrip (h : HP) (hw : WF h) : hpFromP (hpP h) = some (norm h) := by
  cases h with
  | mk n cs k =>
    cases k with
    | int lo hi st sa d =>
      obtain ⟨hsa, hst⟩ := hw
      simp [hpFromP, hpP, J.get, conds_roundtrip, numericFromP, Val.roundtrip, step_roundtrip zeroI st hst,
        sampling_roundtrip sa hsa, norm, normKind, effDefault]
    | float lo hi st sa d =>
      obtain ⟨hsa, hst⟩ := hw
      simp [hpFromP, hpP, J.get, conds_roundtrip, numericFromP, Val.roundtrip, step_roundtrip zeroF st hst,
        sampling_roundtrip sa hsa, norm, normKind, effDefault]
    | choice vs ord d =>
      simp [hpFromP, hpP, J.get, conds_roundtrip, vals_roundtrip, val_roundtrip, norm, normKind, effDefault]
    | boolean d =>
      simp [hpFromP, hpP, J.get, conds_roundtrip, Val.roundtrip, norm, normKind]
    | fixed v =>
      simp [hpFromP, hpP, J.get, conds_roundtrip, val_roundtrip, norm, normKind]

/-- a second trip changes nothing more -/
theorem hp_roundtrip_twice (h : HP) (hw : WF h) (hw' : WF (norm h)) :
    (hpFromP (hpP h)).bind (fun h' => hpFromP (hpP h')) = some (norm h) := by
  rw [hp_roundtrip h hw]
  simp only [Option.bind_some]
  rw [hp_roundtrip (norm h) hw', norm_idem]

/-! ### values and the grouped space -/

def valuesP (vs : List (String × Val)) : J := .obj (vs.map (fun p => (p.1, valP p.2)))

def kvsFromP : List (String × J) → Option (List (String × Val))
  | [] => some []
  | (k, x) :: xs => match valFromP x, kvsFromP xs with
    | some v, some vs => some ((k, v) :: vs)
    | _, _ => none

def valuesFromP : J → Option (List (String × Val))
  | .obj kvs => kvsFromP kvs
  | _ => none

/-- **values are neither lost, added nor retyped** -/
theorem values_roundtrip (vs : List (String × Val)) : valuesFromP (valuesP vs) = some vs := by
  simp only [valuesFromP, valuesP]
  induction vs with
  | nil => rfl
  | cons p ps ih => obtain ⟨k, v⟩ := p; simp [kvsFromP, val_roundtrip, ih]

def isFixed (h : HP) : Bool := match h.kind with | .fixed _ => true | _ => false
def isFloat (h : HP) : Bool := match h.kind with | .float .. => true | _ => false
def isInt (h : HP) : Bool := match h.kind with | .int .. => true | _ => false
def isChoice (h : HP) : Bool := match h.kind with | .choice .. => true | _ => false
def isBoolean (h : HP) : Bool := match h.kind with | .boolean _ => true | _ => false

/-- the order in which `from_proto` lists the entries of the grouped message: fixed, float, int, choice, boolean -/
def decodedOrder (sp : List HP) : List HP :=
  sp.filter isFixed ++ sp.filter isFloat ++ sp.filter isInt ++ sp.filter isChoice ++ sp.filter isBoolean

theorem kinds_partition (h : HP) :
    (if isFixed h then 1 else 0) + (if isFloat h then 1 else 0) + (if isInt h then 1 else 0) +
    (if isChoice h then 1 else 0) + (if isBoolean h then 1 else 0) = 1 := by
  cases h with
  | mk n cs k => cases k <;> simp [isFixed, isFloat, isInt, isChoice, isBoolean]

/-- **the grouping by type loses and adds nothing**: the decoder's list is a permutation of the space (and
    `Rpc.decode_parents_first` puts any permutation back into a parents-first order) -/
theorem decodedOrder_perm (sp : List HP) : (decodedOrder sp).Perm sp := by
  rw [List.perm_iff_count]
  intro a
  simp only [decodedOrder, List.count_append]
  have hc : ∀ p : HP → Bool, List.count a (sp.filter p) = if p a = true then List.count a sp else 0 := by
    intro p
    by_cases hp : p a = true
    · simp only [hp, if_true]; exact List.count_filter hp
    · have : a ∉ sp.filter p := fun hm => hp (List.mem_filter.mp hm).2
      simp only [hp, if_false]; exact List.count_eq_zero_of_not_mem this
  rw [hc, hc, hc, hc, hc]
  have hk := kinds_partition a
  cases h1 : isFixed a <;> cases h2 : isFloat a <;> cases h3 : isInt a <;> cases h4 : isChoice a <;> cases h5 : isBoolean a <;>
    simp only [h1, h2, h3, h4, h5, if_true, if_false, Bool.false_eq_true] at hk ⊢ <;> omega

/-! ### metric histories, score, trial -/

structure PObs where
  vals : List String      -- float tokens
  step : Int
  deriving DecidableEq, Repr

structure PHist where
  maximize : Bool
  obs : List PObs
  deriving DecidableEq, Repr

structure PTrial where
  id : String
  status : String
  values : List (String × Val)
  metrics : List (String × PHist)
  score : Option (String × Int)      -- (value token, best step)
  message : Option String
  deriving DecidableEq, Repr

variable (r32 : String → String)

def obsP (o : PObs) : J := .obj [("value", .arr (o.vals.map (fun t => J.flt (r32 t)))), ("step", .int o.step)]

def toksFromP : List J → Option (List String)
  | [] => some []
  | .flt t :: xs => (toksFromP xs).map (t :: ·)
  | _ => none

def obsFromP (j : J) : Option PObs :=
  match j.get "value", j.get "step" with
  | some (.arr vs), some (.int s) => (toksFromP vs).map (fun vs => ⟨vs, s⟩)
  | _, _ => none

theorem toks_roundtrip (l : List String) : toksFromP (l.map (fun t => J.flt (r32 t))) = some (l.map r32) := by
  induction l with
  | nil => rfl
  | cons t ts ih => simp [toksFromP, ih]

theorem obs_roundtrip (o : PObs) : obsFromP (obsP r32 o) = some { o with vals := o.vals.map r32 } := by
  simp [obsFromP, obsP, J.get, toks_roundtrip]

def obssFromP : List J → Option (List PObs)
  | [] => some []
  | x :: xs => match obsFromP x, obssFromP xs with
    | some o, some os => some (o :: os)
    | _, _ => none

def roundObs (o : PObs) : PObs := { o with vals := o.vals.map r32 }
def roundHist (h : PHist) : PHist := { h with obs := h.obs.map (roundObs r32) }

theorem obss_roundtrip (l : List PObs) : obssFromP (l.map (obsP r32)) = some (l.map (roundObs r32)) := by
  induction l with
  | nil => rfl
  | cons o os ih => simp [obssFromP, obs_roundtrip, ih, roundObs]

def histP (h : PHist) : J := .obj [("maximize", .bool h.maximize), ("observations", .arr (h.obs.map (obsP r32)))]
def histFromP (j : J) : Option PHist :=
  match j.get "maximize", j.get "observations" with
  | some (.bool m), some (.arr os) => (obssFromP os).map (fun os => ⟨m, os⟩)
  | _, _ => none

/-- **a metric history survives up to single precision**: direction and steps exactly, every value rounded once -/
theorem hist_roundtrip (h : PHist) : histFromP (histP r32 h) = some (roundHist r32 h) := by
  simp [histFromP, histP, J.get, obss_roundtrip, roundHist]

/-- rounding twice is rounding once: a second trip changes nothing more -/
theorem roundHist_idem (hr : ∀ t, r32 (r32 t) = r32 t) (h : PHist) : roundHist r32 (roundHist r32 h) = roundHist r32 h := by
  cases h with
  | mk m obs =>
    simp only [roundHist, List.map_map, PHist.mk.injEq, true_and]
    apply List.map_congr_left
    intro o _
    cases o with
    | mk vals step =>
      simp only [Function.comp, roundObs, List.map_map, PObs.mk.injEq, and_true]
      apply List.map_congr_left
      intro t _
      exact hr t

def histsFromP : List (String × J) → Option (List (String × PHist))
  | [] => some []
  | (k, x) :: xs => match histFromP x, histsFromP xs with
    | some h, some hs => some ((k, h) :: hs)
    | _, _ => none

theorem hists_roundtrip (l : List (String × PHist)) :
    histsFromP (l.map (fun p => (p.1, histP r32 p.2))) = some (l.map (fun p => (p.1, roundHist r32 p.2))) := by
  induction l with
  | nil => rfl
  | cons p ps ih => obtain ⟨k, h⟩ := p; simp [histsFromP, hist_roundtrip, ih]

def scoreP : Option (String × Int) → J
  | none => .null
  | some (v, s) => .obj [("value", .flt (r32 v)), ("step", .int s)]
def scoreFromP : J → Option (Option (String × Int))
  | .null => some none
  | j => match j.get "value", j.get "step" with
    | some (.flt v), some (.int s) => some (some (v, s))
    | _, _ => none

/-- the Trial message: no field for `message` -/
def trialP (t : PTrial) : J :=
  .obj [("trial_id", .str t.id), ("status", .str t.status), ("values", valuesP t.values),
        ("metrics", .obj (t.metrics.map (fun p => (p.1, histP r32 p.2)))), ("score", scoreP r32 t.score)]

def trialFromP (j : J) : Option PTrial :=
  match j.get "trial_id", j.get "status", j.get "values", j.get "metrics", j.get "score" with
  | some (.str i), some (.str st), some vs, some (.obj ms), some sc =>
    match valuesFromP vs, histsFromP ms, scoreFromP sc with
    | some vs, some ms, some sc => some ⟨i, st, vs, ms, sc, none⟩
    | _, _, _ => none
  | _, _, _, _, _ => none

/-- **a trial survives the encoding**: id, status and values exactly, metric histories and score up to single
    precision — and the message is gone (there is no field for it: known finding F19) -/
theorem trial_roundtrip (t : PTrial) :
    trialFromP (trialP r32 t) = some { t with metrics := t.metrics.map (fun p => (p.1, roundHist r32 p.2)),
                                              score := t.score.map (fun p => (r32 p.1, p.2)), message := none } := by
  cases t with
  | mk i st vs ms sc msg =>
    cases sc with
    | none => simp [trialFromP, trialP, J.get, values_roundtrip, hists_roundtrip, scoreP, scoreFromP]
    | some p => obtain ⟨v, s⟩ := p; simp [trialFromP, trialP, J.get, values_roundtrip, hists_roundtrip, scoreP, scoreFromP]

/-- non-vacuity: an `Int` with no explicit default and no step, under a condition -/
example :
    let h : HP := ⟨"units", [⟨"model", [.str "mlp"]⟩], .int (.int 32) (.int 128) none "log" none⟩
    WF h ∧ hpFromP (hpP h) = some ⟨"units", [⟨"model", [.str "mlp"]⟩], .int (.int 32) (.int 128) none "log" (some (.int 32))⟩ := by
  refine ⟨⟨Or.inr (Or.inl rfl), by decide⟩, ?_⟩
  rfl

end Proto
#print axioms Proto.hp_roundtrip
#print axioms Proto.decodedOrder_perm
#print axioms Proto.trial_roundtrip
