import Ktm.CoreProps
/-! C06 prototype: random sampling with the tried-set (static space). The external choice supplies
    the candidate samples of one `_random_values` call (already computed from the seeded draws);
    the model keeps the first `maxCollisions+1` of them and takes the first that was not tried. -/
namespace RandomAlg
open Core

structure St (V : Type) where
  tried : List V
  maxCollisions : Nat

variable {V : Type} [DecidableEq V]

/-- `_random_values`: resample on collision, give up after `maxCollisions + 1` collisions -/
def pick (tried : List V) : List V → Option V
  | [] => none
  | c :: cs => if tried.contains c then pick tried cs else some c

def populateWith (cands : Nat → List V) (o : Oracle V (St V)) (choice : Nat) : St V × Pop V :=
  match pick o.alg.tried ((cands choice).take (o.alg.maxCollisions + 1)) with
  | some v => ({ o.alg with tried := o.alg.tried ++ [v] }, .run v)
  | none => (o.alg, .stop)

def alg (cands : Nat → List V) : Alg V (St V) :=
  { populate := populateWith cands, onEnd := fun s _ => s, scoreOf := fun l => l.getLast?.join }

theorem pick_spec (tried cs : List V) (v : V) (h : pick tried cs = some v) : v ∈ cs ∧ v ∉ tried := by
  induction cs with
  | nil => simp [pick] at h
  | cons c cs ih =>
    simp only [pick] at h
    split at h
    · obtain ⟨h1, h2⟩ := ih h; exact ⟨List.mem_cons_of_mem _ h1, h2⟩
    · rename_i hc
      cases h
      exact ⟨by simp, by simpa using hc⟩

/-- bounded effort: at most `maxCollisions + 1` candidates are examined -/
theorem pick_bounded (cands : Nat → List V) (o : Oracle V (St V)) (choice : Nat) :
    ((cands choice).take (o.alg.maxCollisions + 1)).length ≤ o.alg.maxCollisions + 1 := by
  simp [List.length_take]; omega

structure RInv (o : Oracle V (St V)) : Prop where
  recorded : ∀ (i : Nat) (t : Trial V), o.trials[i]? = some t → t.vals ∈ o.alg.tried
  distinct : (o.trials.map (·.vals)).Nodup

/-- C06: a newly started trial never repeats the values of an earlier one -/
theorem rinv_create (cands : Nat → List V) (o : Oracle V (St V)) (r : RInv o) (tuner c : Nat) :
    RInv (create (alg cands) o tuner c).1 := by
  unfold create
  have same : ∀ (o' : Oracle V (St V)), o'.alg = o.alg →
      (∀ (i : Nat) (t' : Trial V), o'.trials[i]? = some t' → ∃ t, o.trials[i]? = some t ∧ t.vals = t'.vals) →
      o'.trials.map (·.vals) = o.trials.map (·.vals) → RInv o' := by
    intro o' ha hv hm
    exact ⟨fun i t' ht' => by obtain ⟨t, ht, hvv⟩ := hv i t' ht'; rw [ha, ← hvv]; exact r.recorded i t ht,
           by rw [hm]; exact r.distinct⟩
  have setT : ∀ (id : Nat) (f : Trial V → Trial V), (∀ t, (f t).vals = t.vals) →
      (setTrial o.trials id f).map (·.vals) = o.trials.map (·.vals) := by
    intro id f hf
    apply List.ext_getElem?
    intro i
    simp only [List.getElem?_map, getElem?_setTrial]
    split
    · cases o.trials[i]? <;> simp [hf]
    · rfl
  split
  · split <;> exact r
  · simp only
    split
    · split
      · refine same _ rfl ?_ (setT _ _ (fun _ => rfl))
        intro i t' ht'
        rw [getElem?_setTrial] at ht'
        split at ht'
        · cases hti : o.trials[i]? with
          | none => simp [hti] at ht'
          | some t => simp [hti] at ht'; subst ht'; exact ⟨t, rfl, rfl⟩
        · exact ⟨t', ht', rfl⟩
      · exact same _ rfl (fun i t' h => ⟨t', h, rfl⟩) rfl
    · split
      · exact same _ rfl (fun i t' h => ⟨t', h, rfl⟩) rfl
      · have hpop : (alg cands).populate { o with tunerIds := addTuner o.tunerIds tuner } c
            = populateWith cands { o with tunerIds := addTuner o.tunerIds tuner } c := rfl
        rw [hpop]
        unfold populateWith
        simp only
        cases hp : pick o.alg.tried ((cands c).take (o.alg.maxCollisions + 1)) with
        | none => simp only; exact same _ rfl (fun i t' h => ⟨t', h, rfl⟩) rfl
        | some v =>
          simp only
          obtain ⟨_, hnt⟩ := pick_spec _ _ _ hp
          constructor
          · intro i t ht
            simp only [List.mem_append, List.mem_singleton]
            by_cases hi : i < o.trials.length
            · rw [List.getElem?_append_left hi] at ht; exact Or.inl (r.recorded i t ht)
            · rw [List.getElem?_append_right (by omega)] at ht
              by_cases h0 : i - o.trials.length = 0
              · simp [h0] at ht; subst ht; exact Or.inr rfl
              · simp [h0] at ht
          · simp only [List.map_append, List.map_cons, List.map_nil]
            refine List.nodup_append.mpr ⟨r.distinct, by simp, ?_⟩
            intro a ha b hb hab
            simp at hb; subst hb; subst hab
            obtain ⟨t, ht, hv⟩ := List.mem_map.mp ha
            obtain ⟨i, hi⟩ := List.getElem?_of_mem ht
            have := r.recorded i t hi
            rw [hv] at this
            exact hnt this

end RandomAlg
#print axioms RandomAlg.rinv_create
