import Ktm.Exact
/-! C05 bridge: a random sample (`_random_values`) is an element of `enum`, hence `enum_exact` applies. -/
namespace GridSucc

/-- `_random_values` for one pass over the space: `pickIdx k h` = index chosen for the k-th sampled entry
    (from the seeded draw); inactive entries are skipped and do not consume a seed -/
def sample (pickIdx : Nat → GHP → Nat) : List GHP → Env → Nat → Env × Nat
  | [], pre, k => (pre, k)
  | h :: hs, pre, k =>
    if active pre h then
      match h.vals[pickIdx k h % h.vals.length]? with
      | some v => sample pickIdx hs (pre ++ [(h.name, v)]) (k + 1)
      | none => sample pickIdx hs pre k          -- unreachable: value lists are non-empty
    else sample pickIdx hs pre k

theorem sample_mem_enum (pickIdx : Nat → GHP → Nat) (hs : List GHP) (hv : ∀ g ∈ hs, g.vals ≠ []) (pre : Env) (k : Nat) :
    (sample pickIdx hs pre k).1 ∈ enum hs pre := by
  induction hs generalizing pre k with
  | nil => simp [sample, enum]
  | cons h hs ih =>
    have hv' : ∀ g ∈ hs, g.vals ≠ [] := fun g hg => hv g (List.mem_cons_of_mem _ hg)
    simp only [sample, enum]
    split
    · have hne := hv h List.mem_cons_self
      have hlen : 0 < h.vals.length := List.length_pos_iff.mpr hne
      have hidx : pickIdx k h % h.vals.length < h.vals.length := Nat.mod_lt _ hlen
      rw [List.getElem?_eq_getElem hidx]
      simp only
      exact List.mem_flatMap.mpr ⟨_, List.getElem_mem hidx, ih hv' _ _⟩
    · exact ih hv' _ _

/-- the seed counter advances exactly once per sampled (= active) entry -/
theorem sample_seed_count (pickIdx : Nat → GHP → Nat) (hs : List GHP) (hv : ∀ g ∈ hs, g.vals ≠ []) (pre : Env) (k : Nat) :
    (sample pickIdx hs pre k).2 = k + ((sample pickIdx hs pre k).1.length - pre.length) := by
  induction hs generalizing pre k with
  | nil => simp [sample]
  | cons h hs ih =>
    have hv' : ∀ g ∈ hs, g.vals ≠ [] := fun g hg => hv g (List.mem_cons_of_mem _ hg)
    simp only [sample]
    split
    · have hne := hv h List.mem_cons_self
      have hlen : 0 < h.vals.length := List.length_pos_iff.mpr hne
      have hidx : pickIdx k h % h.vals.length < h.vals.length := Nat.mod_lt _ hlen
      rw [List.getElem?_eq_getElem hidx]
      simp only
      have := ih hv' (pre ++ [(h.name, h.vals[pickIdx k h % h.vals.length])]) (k + 1)
      have hge : (pre ++ [(h.name, h.vals[pickIdx k h % h.vals.length])]).length ≤
          (sample pickIdx hs (pre ++ [(h.name, h.vals[pickIdx k h % h.vals.length])]) (k + 1)).1.length := by
        obtain ⟨s, hs', _⟩ := enum_suffix_keys hs _ _ (sample_mem_enum pickIdx hs hv' _ (k + 1))
        rw [hs']; simp
      simp only [List.length_append, List.length_cons, List.length_nil] at this hge ⊢
      omega
    · exact ih hv' pre k

end GridSucc
#print axioms GridSucc.sample_mem_enum
#print axioms GridSucc.sample_seed_count
