import Ktm.RandomEnum
import Ktm.Transforms
import Ktm.CoreProps
/-! C05 / C06 / C12: `RandomSearchOracle.populate_space` with `_random_values` as the code runs it — one
    seeded draw per *active* entry, seed counter advanced by one each time, resample on collision with the
    tried set, give up after `max_collisions + 1` collisions. The PRNG itself is an input: `draw seed` is
    what `random.Random(seed).random()` returns (as an exact ratio), `none` = that seed was never drawn. -/
namespace RandomSeeded
open Core GridSucc

structure St where
  space : List GHP
  perms : List (Nat × List Nat)      -- per name: grid index of the i-th element of `hp.values` (sampling order)
  seed : Nat                         -- `_seed_state`
  tried : List Env                   -- `_tried_so_far` (the hash is modelled as the assignment itself)
  maxCollisions : Nat

/-- index (into the grid-ordered value list) chosen for entry `h` by the draw of seed `k` -/
def pickIdx (draw : Nat → Option (Nat × Nat)) (perms : List (Nat × List Nat)) (k : Nat) (h : GHP) : Nat :=
  match draw k, perms.lookup h.name with
  | some (num, den), some perm => perm.getD (Transforms.probToIndex num den perm.length) 0
  | _, _ => 0

/-- one pass of the `for hp in space` loop starting with seed `k` -/
def pass (draw : Nat → Option (Nat × Nat)) (s : St) (k : Nat) : Env × Nat :=
  sample (pickIdx draw s.perms) s.space [] k

/-- `_random_values`: at most `fuel` passes; returns the first untried assignment and the seed state -/
def randomValues (draw : Nat → Option (Nat × Nat)) (s : St) : Nat → Nat → Option Env × Nat
  | 0, k => (none, k)
  | fuel + 1, k =>
    let r := pass draw s k
    if s.tried.contains r.1 then randomValues draw s fuel r.2 else (some r.1, r.2)

def populate (draw : Nat → Option (Nat × Nat)) (o : Oracle Env St) (_choice : Nat) : St × Pop Env :=
  let s := o.alg
  match randomValues draw s (s.maxCollisions + 1) s.seed with
  | (some v, k) => ({ s with seed := k, tried := s.tried ++ [v] }, .run v)
  | (none, k) => ({ s with seed := k }, .stop)

def alg (draw : Nat → Option (Nat × Nat)) : Alg Env St :=
  { populate := populate draw, onEnd := fun s _ => s, scoreOf := fun l => l.getLast?.join }

/-- every sampled assignment is one of the enumerated combinations — hence (by `enum_exact`) it assigns
    exactly the active entries, each a member of its value list — and it was not tried before -/
theorem randomValues_spec (draw : Nat → Option (Nat × Nat)) (s : St) (hv : ∀ g ∈ s.space, g.vals ≠ []) :
    ∀ (fuel k : Nat) (v : Env) (k' : Nat), randomValues draw s fuel k = (some v, k') →
      v ∈ enum s.space [] ∧ v ∉ s.tried ∧ k ≤ k' := by
  intro fuel
  induction fuel with
  | zero => intro k v k' h; simp [randomValues] at h
  | succ fuel ih =>
    intro k v k' h
    simp only [randomValues] at h
    have hcount := sample_seed_count (pickIdx draw s.perms) s.space hv [] k
    split at h
    · obtain ⟨h1, h2, h3⟩ := ih _ v k' h
      exact ⟨h1, h2, by simp only [pass] at h3; omega⟩
    · rename_i hnt
      simp only [Prod.mk.injEq, Option.some.injEq] at h
      obtain ⟨rfl, rfl⟩ := h
      exact ⟨sample_mem_enum _ _ hv _ _, by simpa using hnt, by simp only [pass]; omega⟩

/-- the seed counter advances exactly once per sampled (= active) entry of a pass -/
theorem pass_seed_count (draw : Nat → Option (Nat × Nat)) (s : St) (hv : ∀ g ∈ s.space, g.vals ≠ []) (k : Nat) :
    (pass draw s k).2 = k + (pass draw s k).1.length := by
  have := sample_seed_count (pickIdx draw s.perms) s.space hv [] k
  simpa [pass] using this

/-- giving up is bounded: `none` is returned only after `fuel` passes that all collided -/
theorem randomValues_none (draw : Nat → Option (Nat × Nat)) (s : St) :
    ∀ (fuel k k' : Nat), randomValues draw s fuel k = (none, k') →
      ∃ ks : List Nat, ks.length = fuel ∧ ∀ j ∈ ks, s.tried.contains (pass draw s j).1 = true := by
  intro fuel
  induction fuel with
  | zero => intro k k' _; exact ⟨[], rfl, by simp⟩
  | succ fuel ih =>
    intro k k' h
    simp only [randomValues] at h
    split at h
    · rename_i hc
      obtain ⟨ks, hl, hall⟩ := ih _ k' h
      refine ⟨k :: ks, by simp [hl], ?_⟩
      intro j hj
      simp only [List.mem_cons] at hj
      rcases hj with rfl | hj
      · exact hc
      · exact hall j hj
    · simp at h

end RandomSeeded
#print axioms RandomSeeded.randomValues_spec
