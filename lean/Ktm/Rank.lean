-- feasibility: promotion rank lemma (C10) with core only
namespace Rank

/-- count of elements of `R` satisfying `p` is at most the number of elements of `R` outside `C`
    when no element of `C` satisfies `p`. -/
theorem count_le_outside {α} [DecidableEq α] (R C : List α) (p : α → Bool)
    (hC : ∀ c ∈ C, p c = false) :
    R.countP p ≤ (R.filter (fun x => !(C.contains x))).length := by
  induction R with
  | nil => simp
  | cons x xs ih =>
    simp only [List.contains_eq_mem] at ih ⊢
    by_cases hxC : x ∈ C
    · have : p x = false := hC x hxC
      simp [List.countP_cons, List.filter_cons, hxC, this]; exact ih
    · simp only [List.countP_cons, List.filter_cons, hxC, decide_false, Bool.not_false, if_true,
        List.length_cons]
      split <;> omega

theorem filter_outside_len {α} [DecidableEq α] (R C : List α)
    (hnodupC : C.Nodup) (hnodupR : R.Nodup) (hsub : ∀ c ∈ C, c ∈ R) :
    (R.filter (fun x => !(C.contains x))).length + C.length = R.length := by
  induction R generalizing C with
  | nil =>
    cases C with
    | nil => simp
    | cons c cs => exact absurd (hsub c (by simp)) (by simp)
  | cons x xs ih =>
    have hx : x ∉ xs := (List.nodup_cons.mp hnodupR).1
    have hxs : xs.Nodup := (List.nodup_cons.mp hnodupR).2
    by_cases hxC : x ∈ C
    · -- remove x from C
      have hC' : (C.erase x).Nodup := hnodupC.erase x
      have hsub' : ∀ c ∈ C.erase x, c ∈ xs := by
        intro c hc
        have hcC : c ∈ C := List.mem_of_mem_erase hc
        have hne : c ≠ x := by
          intro h; subst h
          exact (List.Nodup.mem_erase_iff hnodupC).mp hc |>.1 rfl
        rcases List.mem_cons.mp (hsub c hcC) with h | h
        · exact absurd h hne
        · exact h
      have ih' := ih (C.erase x) hC' hxs hsub'
      have hlen : (C.erase x).length + 1 = C.length := by
        rw [List.length_erase_of_mem hxC]
        have : 0 < C.length := List.length_pos_of_mem hxC
        omega
      have hfilt : xs.filter (fun y => !(C.contains y)) = xs.filter (fun y => !((C.erase x).contains y)) := by
        apply List.filter_congr
        intro y hy
        have hyx : y ≠ x := fun h => hx (h ▸ hy)
        simp [List.mem_erase_of_ne hyx]
      simp only [List.filter_cons, List.contains_eq_mem, hxC, decide_true, Bool.not_true,
        Bool.false_eq_true, if_false, List.length_cons]
      simp only [List.contains_eq_mem] at hfilt ih'
      rw [hfilt]; omega
    · have hsub' : ∀ c ∈ C, c ∈ xs := by
        intro c hc
        rcases List.mem_cons.mp (hsub c hc) with h | h
        · subst h; exact absurd hc hxC
        · exact h
      have ih' := ih C hnodupC hxs hsub'
      simp only [List.filter_cons, List.contains_eq_mem, hxC, decide_false, Bool.not_false,
        if_true, List.length_cons]
      simp only [List.contains_eq_mem] at ih'
      omega

/-- C10 promotion bound: `R` = final previous round (≤ P entries), `C` = candidates at promotion
    time (more than `P - S` of them), nobody in `C` is strictly better than the promoted one:
    then fewer than `S` members of `R` are strictly better. -/
theorem promotion_rank {α} [DecidableEq α] (R C : List α) (better : α → Bool) (P S : Nat)
    (hR : R.length ≤ P) (hRn : R.Nodup) (hCn : C.Nodup) (hsub : ∀ c ∈ C, c ∈ R)
    (hC : P - S < C.length) (hS : 0 < S) (hbest : ∀ c ∈ C, better c = false) :
    R.countP better < S := by
  have h1 := count_le_outside R C better hbest
  have h2 := filter_outside_len R C hCn hRn hsub
  omega

end Rank
#print axioms Rank.promotion_rank
