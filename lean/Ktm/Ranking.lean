import Ktm.Sc
/-! C04: `get_best_trials` = stable sort of the COMPLETED trials by score in the objective's
    direction, padded with the others only when short; direction symmetry. Scores are extended
    rationals (−inf, finite, +inf; never NaN: a COMPLETED trial always has a non-NaN score by C01). -/
namespace Ranking

structure T where
  id : Nat
  completed : Bool
  score : Sc
  deriving DecidableEq, Repr

def le (maximize : Bool) (a b : T) : Bool := if maximize then Sc.le b.score a.score else Sc.le a.score b.score

def negT (t : T) : T := { t with score := t.score.neg }

def bestTrials (maximize : Bool) (ts : List T) (n : Nat) : List T :=
  let sorted := (ts.filter (·.completed)).mergeSort (le maximize)
  let padded := if sorted.length < n then sorted ++ ts.filter (fun t => !t.completed) else sorted
  padded.take n

theorem le_total (m : Bool) (a b : T) : (le m a b || le m b a) = true := by
  unfold le; cases m <;> simp <;> first | exact Sc.le_total _ _ | (have := Sc.le_total a.score b.score; simpa using this) | (have := Sc.le_total b.score a.score; simpa using this)

theorem le_trans (m : Bool) (a b c : T) (h1 : le m a b = true) (h2 : le m b c = true) : le m a c = true := by
  unfold le at *; cases m <;> simp_all
  · exact Sc.le_trans _ _ _ h1 h2
  · exact Sc.le_trans _ _ _ h2 h1

/-- the sorted part is ordered by score in the objective's direction -/
theorem sorted_pairwise (m : Bool) (ts : List T) :
    ((ts.filter (·.completed)).mergeSort (le m)).Pairwise (fun a b => le m a b = true) :=
  List.pairwise_mergeSort (le_trans m) (le_total m) _

/-- no non-completed trial is ever placed ahead of a completed one -/
theorem completed_prefix (m : Bool) (ts : List T) (n : Nat) :
    ∃ k, ((bestTrials m ts n).take k).all (·.completed) = true ∧ ((bestTrials m ts n).drop k).all (fun t => !t.completed) = true := by
  unfold bestTrials
  simp only
  have hs : ∀ t ∈ (ts.filter (·.completed)).mergeSort (le m), t.completed = true := by
    intro t ht
    have := (List.mergeSort_perm _ _).mem_iff.mp ht
    exact (List.mem_filter.mp this).2
  generalize (ts.filter (·.completed)).mergeSort (le m) = S at hs
  have hr : ∀ t ∈ ts.filter (fun t => !t.completed), (!t.completed) = true := fun t ht => (List.mem_filter.mp ht).2
  generalize ts.filter (fun t => !t.completed) = R at hr
  split
  · rename_i hlt
    refine ⟨S.length, ?_, ?_⟩
    · rw [List.all_eq_true]
      intro t ht
      rw [List.take_take] at ht
      have : min S.length n = S.length := by omega
      rw [this, List.take_append_of_le_length (Nat.le_refl _), List.take_of_length_le (Nat.le_refl _)] at ht
      exact hs t ht
    · rw [List.all_eq_true]
      intro t ht
      have ht' := List.mem_of_mem_drop ht
      rw [List.drop_take] at ht
      have ht2 := List.mem_of_mem_take ht
      rw [List.drop_append_of_le_length (Nat.le_refl _), List.drop_length, List.nil_append] at ht2
      exact hr t ht2
  · refine ⟨n, ?_, ?_⟩
    · rw [List.all_eq_true]
      intro t ht
      exact hs t (List.mem_of_mem_take (List.mem_of_mem_take ht))
    · simp

/-- direction symmetry: maximising `s` ranks exactly like minimising `-s` -/
theorem symmetric (ts : List T) (n : Nat) :
    (bestTrials true ts n).map negT =
      bestTrials false (ts.map negT) n := by
  unfold bestTrials
  simp only
  have hneg : ∀ (p : T → Bool), (∀ t, p (negT t) = p t) → ∀ l : List T,
      (l.map negT).filter p = (l.filter p).map negT := by
    intro p hp l
    induction l with
    | nil => rfl
    | cons a as ih => simp only [List.map_cons, List.filter_cons, hp a]; split <;> simp [ih]
  rw [hneg (·.completed) (fun _ => rfl), hneg (fun t => !t.completed) (fun _ => rfl)]
  have hsort : ((ts.filter (·.completed)).mergeSort (le true)).map negT
      = ((ts.filter (·.completed)).map negT).mergeSort (le false) := by
    apply List.map_mergeSort
    intro a _ b _
    simp only [le, if_true, Bool.false_eq_true, if_false, negT]
    exact (Sc.neg_le_neg _ _).symm
  rw [← hsort]
  simp only [List.length_map]
  split
  · rw [List.map_take, List.map_append]
  · rw [List.map_take]

end Ranking
#print axioms Ranking.symmetric
#print axioms Ranking.completed_prefix
