/-! C16 prototype: the parent-first reordering added to `HyperParameters.from_proto` (repair of F10).
    Entries are identified by name + condition names; `names` = all names in the decoded space. -/
namespace Reorder

structure E where
  name : Nat
  conds : List Nat
  deriving DecidableEq, Repr

def isReady (names placed : List Nat) (e : E) : Bool :=
  e.conds.all (fun c => placed.contains c || !names.contains c)

/-- parents first (by name): a condition on a name that occurs in the space is preceded by an entry
    with that name -/
def WPF (names : List Nat) (l : List E) : Prop :=
  ∀ (pre : List E) (x : E) (post : List E), l = pre ++ x :: post →
    ∀ c ∈ x.conds, c ∈ names → c ∈ pre.map (·.name)

def reorder (names : List Nat) : Nat → List E → List E → List E
  | 0, ord, sp => ord ++ sp
  | _ + 1, ord, [] => ord
  | fuel + 1, ord, sp@(_ :: _) =>
    let r := sp.filter (isReady names (ord.map (·.name)))
    let r := if r = [] then sp else r
    reorder names fuel (ord ++ r) (sp.filter (fun e => !r.contains e))

/-- appending a batch of ready entries keeps parents-first -/
theorem wpf_append_ready (names : List Nat) (ord r : List E) (h : WPF names ord)
    (hr : ∀ e ∈ r, isReady names (ord.map (·.name)) e = true) : WPF names (ord ++ r) := by
  induction r generalizing ord with
  | nil => simpa using h
  | cons a as ih =>
    have h1 : WPF names (ord ++ [a]) := by
      intro pre x post heq c hc hn
      rcases List.append_eq_append_iff.mp heq with ⟨a', h1, h2⟩ | ⟨c', h1, h2⟩
      · cases a' with
        | nil =>
          simp at h2; obtain ⟨hx, _⟩ := h2; subst hx
          simp at h1; subst h1
          have := hr _ List.mem_cons_self
          simp only [isReady, List.all_eq_true, Bool.or_eq_true, Bool.not_eq_true', List.contains_eq_mem,
            decide_eq_true_eq, decide_eq_false_iff_not] at this
          rcases this c hc with h' | h'
          · exact h'
          · exact absurd hn h'
        | cons y ys => simp at h2
      · cases c' with
        | nil =>
          simp at h2; obtain ⟨hx, _⟩ := h2; subst hx
          simp at h1; subst h1
          have := hr _ List.mem_cons_self
          simp only [isReady, List.all_eq_true, Bool.or_eq_true, Bool.not_eq_true', List.contains_eq_mem,
            decide_eq_true_eq, decide_eq_false_iff_not] at this
          rcases this c hc with h' | h'
          · exact h'
          · exact absurd hn h'
        | cons y ys =>
          simp at h2; obtain ⟨hy, hpost⟩ := h2; subst hy
          exact h pre x ys h1 c hc hn
    have h2 : ∀ e ∈ as, isReady names ((ord ++ [a]).map (·.name)) e = true := by
      intro e he
      have := hr e (List.mem_cons_of_mem _ he)
      simp only [isReady, List.all_eq_true, Bool.or_eq_true] at this ⊢
      intro c hc
      rcases this c hc with h' | h'
      · left
        simp only [List.contains_eq_mem, decide_eq_true_eq, List.map_append, List.mem_append] at h' ⊢
        exact Or.inl h'
      · exact Or.inr h'
    have := ih (ord ++ [a]) h1 h2
    simpa [List.append_assoc] using this

/-- if the decoded entries came from a parents-first space `P`, some entry is always ready:
    the first entry of `P` that has not been placed yet -/
theorem exists_ready (P ord sp : List E) (hP : WPF (P.map (·.name)) P)
    (hcover : ∀ e ∈ P, e ∈ ord ∨ e ∈ sp) (hsub : ∀ e ∈ sp, e ∈ P) (hne : sp ≠ []) :
    ∃ e ∈ sp, isReady (P.map (·.name)) (ord.map (·.name)) e = true := by
  -- find the first element of P lying in sp
  have key : ∀ (pre rest : List E), P = pre ++ rest → (∀ y ∈ pre, y ∉ sp) → (∃ y ∈ rest, y ∈ sp) →
      ∃ e ∈ sp, isReady (P.map (·.name)) (ord.map (·.name)) e = true := by
    intro pre rest
    induction rest generalizing pre with
    | nil => intro _ _ ⟨y, hy, _⟩; simp at hy
    | cons x xs ih =>
      intro heq hpre hex
      by_cases hx : x ∈ sp
      · refine ⟨x, hx, ?_⟩
        simp only [isReady, List.all_eq_true, Bool.or_eq_true, Bool.not_eq_true', List.contains_eq_mem,
          decide_eq_true_eq, decide_eq_false_iff_not]
        intro c hc
        by_cases hn : c ∈ P.map (·.name)
        · left
          have := hP pre x xs heq c hc hn
          obtain ⟨p, hp, hpn⟩ := List.mem_map.mp this
          have hpP : p ∈ P := by rw [heq]; exact List.mem_append.mpr (Or.inl hp)
          rcases hcover p hpP with h' | h'
          · exact List.mem_map.mpr ⟨p, h', hpn⟩
          · exact absurd h' (hpre p hp)
        · exact Or.inr hn
      · apply ih (pre ++ [x]) (by simp [heq])
        · intro y hy
          rcases List.mem_append.mp hy with hy | hy
          · exact hpre y hy
          · simp at hy; subst hy; exact hx
        · obtain ⟨y, hy, hys⟩ := hex
          rcases List.mem_cons.mp hy with hy | hy
          · subst hy; exact absurd hys hx
          · exact ⟨y, hy, hys⟩
  cases sp with
  | nil => exact absurd rfl hne
  | cons s ss =>
    exact key [] P (by simp) (by simp) ⟨s, hsub s (by simp), by simp⟩

end Reorder
#print axioms Reorder.exists_ready
#print axioms Reorder.wpf_append_ready

namespace Reorder

theorem filter_split_perm (sp : List E) (p : E → Bool) :
    (sp.filter p ++ sp.filter (fun e => !p e)).Perm sp := by
  induction sp with
  | nil => simp
  | cons a l ih =>
    simp only [List.filter_cons]
    cases hp : p a with
    | true => simpa using ih
    | false =>
      simp only [Bool.false_eq_true, if_false, Bool.not_false, if_true]
      exact (List.perm_middle).trans (List.Perm.cons a ih)

/-- membership in the ready batch, for a duplicate-free remainder -/
theorem mem_ready_iff (sp : List E) (p : E → Bool) (e : E) (he : e ∈ sp) :
    (sp.filter p).contains e = p e := by
  cases hp : p e with
  | true => simp [List.mem_filter, he, hp]
  | false => simp [List.mem_filter, hp]

/-- **the reordering of `from_proto`**: whatever order the decoder produced (`sp`: the entries grouped by
    type), if they are exactly the entries of a parents-first space `P`, the result lists every entry once
    (a permutation) and again puts every parent before its conditional children — without ever needing the
    fallback branch -/
theorem reorder_spec (P : List E) (hP : WPF (P.map (·.name)) P) :
    ∀ (fuel : Nat) (ord sp : List E), sp.length ≤ fuel → WPF (P.map (·.name)) ord →
      (∀ e ∈ P, e ∈ ord ∨ e ∈ sp) → (∀ e ∈ sp, e ∈ P) →
      WPF (P.map (·.name)) (reorder (P.map (·.name)) fuel ord sp) ∧
      (reorder (P.map (·.name)) fuel ord sp).Perm (ord ++ sp) := by
  intro fuel
  induction fuel with
  | zero =>
    intro ord sp hlen hw _ _
    have : sp = [] := List.eq_nil_of_length_eq_zero (by omega)
    subst this
    simp only [reorder, List.append_nil]
    exact ⟨hw, List.Perm.refl _⟩
  | succ fuel ih =>
    intro ord sp hlen hw hcover hsub
    cases sp with
    | nil => simp only [reorder, List.append_nil]; exact ⟨hw, List.Perm.refl _⟩
    | cons a l =>
      simp only [reorder]
      obtain ⟨e0, he0, hr0⟩ := exists_ready P ord (a :: l) hP hcover hsub (by simp)
      have hne : (a :: l).filter (isReady (P.map (·.name)) (ord.map (·.name))) ≠ [] := by
        intro hnil
        have : e0 ∈ (a :: l).filter (isReady (P.map (·.name)) (ord.map (·.name))) := List.mem_filter.mpr ⟨he0, hr0⟩
        rw [hnil] at this; cases this
      simp only [hne, if_false]
      generalize hr : (a :: l).filter (isReady (P.map (·.name)) (ord.map (·.name))) = r at hne
      have hrsub : ∀ e ∈ r, e ∈ a :: l ∧ isReady (P.map (·.name)) (ord.map (·.name)) e = true := by
        intro e he; rw [← hr] at he; exact List.mem_filter.mp he
      have hrest_eq : (a :: l).filter (fun e => !r.contains e) =
          (a :: l).filter (fun e => !isReady (P.map (·.name)) (ord.map (·.name)) e) := by
        apply List.filter_congr
        intro e he
        rw [← hr, mem_ready_iff (a :: l) _ e he]
      have hlen' : ((a :: l).filter (fun e => !r.contains e)).length ≤ fuel := by
        have h1 := (filter_split_perm (a :: l) (isReady (P.map (·.name)) (ord.map (·.name)))).length_eq
        rw [hr, ← hrest_eq, List.length_append] at h1
        have : 0 < r.length := List.length_pos_iff.mpr hne
        simp only [List.length_cons] at h1 hlen
        omega
      have hw' : WPF (P.map (·.name)) (ord ++ r) := wpf_append_ready _ ord r hw (fun e he => (hrsub e he).2)
      have hcover' : ∀ e ∈ P, e ∈ ord ++ r ∨ e ∈ (a :: l).filter (fun e => !r.contains e) := by
        intro e he
        rcases hcover e he with h | h
        · exact Or.inl (List.mem_append.mpr (Or.inl h))
        · by_cases hre : e ∈ r
          · exact Or.inl (List.mem_append.mpr (Or.inr hre))
          · exact Or.inr (List.mem_filter.mpr ⟨h, by simpa using hre⟩)
      have hsub' : ∀ e ∈ (a :: l).filter (fun e => !r.contains e), e ∈ P :=
        fun e he => hsub e (List.mem_filter.mp he).1
      obtain ⟨h1, h2⟩ := ih (ord ++ r) _ hlen' hw' hcover' hsub'
      refine ⟨h1, h2.trans ?_⟩
      rw [List.append_assoc]
      apply List.Perm.append_left
      rw [hrest_eq, ← hr]
      exact filter_split_perm _ _

end Reorder
#print axioms Reorder.reorder_spec
