import Ktm.CoreC23
namespace Core
variable {V A : Type}

/-- what `reload` produces from a state whose trial files may be newer/older than memory only for the
    trials that were ongoing: all ongoing trials go to the retry queue, nothing is ongoing -/
def requeueWith (o : Oracle V A) (ts' : List (Trial V)) (a : A) : Oracle V A :=
  { o with trials := ts', retryQ := o.retryQ ++ o.ongoing.map (·.2), ongoing := [], tunerIds := [], alg := a }

theorem inv_requeue (o : Oracle V A) (h : Inv o) (ts' : List (Trial V)) (a : A)
    (hlen : ts'.length = o.trials.length)
    (hsame : ∀ (i : Nat), i ∉ o.ongoing.map (·.2) → ts'[i]? = o.trials[i]?) :
    Inv (requeueWith o ts' a) := by
  have hex : ∀ (i : Nat), (∃ t, o.trials[i]? = some t) → ∃ t', ts'[i]? = some t' := by
    intro i ⟨t, ht⟩
    have hlt := (List.getElem?_eq_some_iff.mp ht).1
    exact ⟨ts'[i]'(by omega), List.getElem?_eq_getElem (by omega)⟩
  have hend_same : ∀ i ∈ o.endOrder, ts'[i]? = o.trials[i]? := by
    intro i hi
    apply hsame
    intro hon
    exact (ongoing_facts o h i hon).2.2 hi
  constructor
  · intro p hp; simp [requeueWith] at hp
  · simp [requeueWith]
  · simp [requeueWith]
  · intro i hi
    simp only [requeueWith, List.mem_append] at hi
    rcases hi with hi | hi
    · exact hex i (h.retry_ok i hi)
    · obtain ⟨⟨t, ht, _⟩, _, _⟩ := ongoing_facts o h i hi
      exact hex i ⟨t, ht⟩
  · simp only [requeueWith]
    refine List.nodup_append.mpr ⟨h.retry_nodup, h.ongoing_ids, ?_⟩
    intro a ha b hb hab
    subst hab
    exact h.retry_not_ongoing a ha hb
  · intro i _ hm; simp [requeueWith] at hm
  · intro i hi hm
    simp only [requeueWith, List.mem_append] at hi
    simp only [requeueWith] at hm
    rcases hi with hi | hi
    · exact h.retry_not_end i hi hm
    · exact (ongoing_facts o h i hi).2.2 hm
  · intro i hi
    simp only [requeueWith] at hi ⊢
    obtain ⟨t, ht, hs⟩ := h.end_ok i hi
    exact ⟨t, by rw [hend_same i hi]; exact ht, hs⟩
  · exact h.end_nodup
  · intro i t ht
    simp only [requeueWith] at ht ⊢
    have hlt : i < o.trials.length := by
      have := (List.getElem?_eq_some_iff.mp ht).1; omega
    have ht0 : o.trials[i]? = some (o.trials[i]'hlt) := List.getElem?_eq_getElem hlt
    rcases h.cover i _ ht0 with h1 | h1 | h1
    · right; left; exact List.mem_append.mpr (Or.inr h1)
    · right; left; exact List.mem_append.mpr (Or.inl h1)
    · right; right; exact h1
  · intro i hi t ht hs
    simp only [requeueWith] at hi ht
    rw [hend_same i hi] at ht
    exact h.scored i hi t ht hs
  · intro m hm
    simp only [requeueWith] at hm ⊢
    rw [hlen]; exact h.budget m hm
  · simp only [requeueWith]
    have : o.endOrder.map (statusOf ts') = o.endOrder.map (statusOf o.trials) := by
      apply List.map_congr_left
      intro i hi
      simp [statusOf, hend_same i hi]
    rw [this]; exact h.no_streak
  · exact h.not_aborted

/-- C08 (stability): a trial listed in the end order keeps its record through a requeue/reload -/
theorem requeue_committed_stable (o : Oracle V A) (h : Inv o) (ts' : List (Trial V)) (a : A)
    (hsame : ∀ (i : Nat), i ∉ o.ongoing.map (·.2) → ts'[i]? = o.trials[i]?) :
    ∀ i ∈ o.endOrder, (requeueWith o ts' a).trials[i]? = o.trials[i]? ∧
      i ∉ (requeueWith o ts' a).retryQ ∧ i ∉ (requeueWith o ts' a).ongoing.map (·.2) := by
  intro i hi
  have hnon : i ∉ o.ongoing.map (·.2) := fun hon => (ongoing_facts o h i hon).2.2 hi
  refine ⟨hsame i hnon, ?_, by simp [requeueWith]⟩
  simp only [requeueWith, List.mem_append, not_or]
  exact ⟨fun hq => h.retry_not_end i hq hi, hnon⟩

/-- C08: nothing is left RUNNING outside the retry queue after a requeue/reload -/
theorem requeue_running_queued (o : Oracle V A) (h : Inv o) (ts' : List (Trial V)) (a : A)
    (hlen : ts'.length = o.trials.length)
    (hsame : ∀ (i : Nat), i ∉ o.ongoing.map (·.2) → ts'[i]? = o.trials[i]?) :
    ∀ (i : Nat) (t : Trial V), (requeueWith o ts' a).trials[i]? = some t → t.status = .running →
      i ∈ (requeueWith o ts' a).retryQ := by
  intro i t ht hs
  have hinv := inv_requeue o h ts' a hlen hsame
  rcases hinv.cover i t ht with h1 | h1 | h1
  · simp [requeueWith] at h1
  · exact h1
  · obtain ⟨t', ht', hs'⟩ := hinv.end_ok i h1
    rw [ht] at ht'; cases ht'; rw [hs] at hs'; rcases hs' with h | h <;> cases h

end Core
#print axioms Core.inv_requeue
