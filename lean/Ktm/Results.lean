import Ktm.Metrics
import Ktm.BestEpoch
/-! C18/C20: history order, `MetricHistory.update` lookup semantics, result conversion
    (`convert_to_metrics_dict`, `get_best_step`), multi-objective value, shared `SaveBestEpoch`. -/
namespace Metrics

/-- observations of a step -/
def valsAt (h : List Obs) (s : Int) : List FV := match h.find? (·.step = s) with | some o => o.vals | none => []

/-- reporting `(s, v)` appends `v` to the observation of step `s` and leaves every other step alone -/
theorem update_records (h : List Obs) (s : Int) (v : FV) (s' : Int) :
    valsAt (update h s v) s' = if s' = s then valsAt h s ++ [v] else valsAt h s' := by
  induction h with
  | nil =>
    simp only [update, valsAt, List.find?]
    by_cases hs : s' = s
    · subst hs; simp
    · have : ¬ s = s' := fun h => hs h.symm
      simp [hs, this]
  | cons o os ih =>
    simp only [update]
    by_cases ho : o.step = s
    · simp only [ho, if_true]
      by_cases hs : s' = s
      · subst hs; simp [valsAt, List.find?, ho]
      · have : ¬ s = s' := fun h => hs h.symm
        simp [valsAt, List.find?, ho, hs, this]
    · simp only [ho, if_false]
      by_cases hos : o.step = s'
      · have hs : ¬ s' = s := by intro h; rw [h] at hos; exact ho hos
        simp [valsAt, List.find?, hos, hs]
      · have := ih
        simp only [valsAt] at this
        simp only [valsAt, List.find?_cons, hos, ho, decide_false]
        exact this

/-- steps stay distinct: a repeated step is merged, never duplicated -/
theorem update_steps (h : List Obs) (s : Int) (v : FV) :
    (update h s v).map (·.step) = if s ∈ h.map (·.step) then h.map (·.step) else h.map (·.step) ++ [s] := by
  induction h with
  | nil => simp [update]
  | cons o os ih =>
    simp only [update]
    by_cases ho : o.step = s
    · simp [ho]
    · have hne : ¬ s = o.step := fun h => ho h.symm
      simp only [ho, if_false, List.map_cons, ih, List.mem_cons, hne, false_or]
      split <;> simp

/-- `get_history`: the observations sorted by step -/
def history (h : List Obs) : List Obs := h.mergeSort (fun a b => decide (a.step ≤ b.step))

/-- histories come back in step order and contain exactly what was recorded -/
theorem history_sorted_perm (h : List Obs) :
    (history h).Pairwise (fun a b => a.step ≤ b.step) ∧ (history h).Perm h := by
  refine ⟨?_, List.mergeSort_perm _ _⟩
  have := List.pairwise_mergeSort (le := fun (a b : Obs) => decide (a.step ≤ b.step))
    (fun a b c h1 h2 => by simp at *; omega) (fun a b => by simp; omega) h
  simpa [history] using this

end Metrics

namespace Results

/-- a multi-objective's value on one set of logs: sum of the minimised metrics minus sum of the maximised
ones (`MultiObjective.get_value`, a left fold over the logs) -/
def multiValue : List (Bool × Int) → Int
  | [] => 0
  | (minimize, v) :: rest => (if minimize then v else -v) + multiValue rest

def sumWhere (p : Bool) (l : List (Bool × Int)) : Int := ((l.filter (·.1 == p)).map (·.2)).sum

theorem multiValue_eq (l : List (Bool × Int)) : multiValue l = sumWhere true l - sumWhere false l := by
  induction l with
  | nil => rfl
  | cons x xs ih =>
    obtain ⟨m, v⟩ := x
    have e1 : ∀ (p : Bool), sumWhere p ((m, v) :: xs) = (if m == p then v else 0) + sumWhere p xs := by
      intro p; simp only [sumWhere, List.filter_cons]; split <;> simp
    rw [multiValue, ih, e1, e1]
    cases m <;> simp <;> omega

/-- a value in the "minimise frame": maximising `v` = minimising `−v` -/
def frame (minimize : Bool) (v : Int) : Int := if minimize then v else -v

/-- best epoch of one execution's curve (History post-processing) -/
def bestEpoch (minimize : Bool) (curve : List Int) : Option Nat := BestEpoch.histBestEpoch (curve.map (frame minimize))

/-- objective value of one execution = the curve's value at its best epoch -/
def bestValue (minimize : Bool) (curve : List Int) : Option Int := (bestEpoch minimize curve).bind (fun e => curve[e]?)

/-- `convert_to_metrics_dict` on a list of executions: the mean of each execution's best value -/
def listObjective (minimize : Bool) (curves : List (List Int)) : Option Rat :=
  let bests := curves.filterMap (bestValue minimize)
  if bests.length = curves.length ∧ curves ≠ [] then some ((bests.sum : Int) / (curves.length : Rat)) else none

/-- `get_best_step` on a list: `int(mean(best epochs))` -/
def listBestStep (minimize : Bool) (curves : List (List Int)) : Option Nat :=
  let es := curves.filterMap (bestEpoch minimize)
  if es.length = curves.length ∧ curves ≠ [] then some (es.sum / curves.length) else none

/-- `SaveBestEpoch` shared by all executions of a trial: the flat index (over the concatenated curves) of
the last write -/
def keptFlat (minimize : Bool) (curves : List (List Int)) : Option Nat :=
  (BestEpoch.saves (curves.flatten.map (frame minimize)) none 0).getLast?

/-- the best epoch of an execution is the first epoch attaining the best value in the objective's direction -/
theorem bestEpoch_first (minimize : Bool) (curve : List Int) (h : curve ≠ []) :
    ∃ i, bestEpoch minimize curve = some i ∧ BestEpoch.FirstMin (curve.map (frame minimize)) i := by
  have hne : curve.map (frame minimize) ≠ [] := by simpa using h
  obtain ⟨i, hi, hf⟩ := BestEpoch.kept_is_first_best _ hne
  exact ⟨i, by rw [bestEpoch, ← BestEpoch.callback_eq_history _ hne]; exact hi, hf⟩

/-- **C20**: the weights kept on disk are those of the first epoch, in execution order, attaining the best
objective value over all executions -/
theorem kept_is_first_global_best (minimize : Bool) (curves : List (List Int)) (h : curves.flatten ≠ []) :
    ∃ i, keptFlat minimize curves = some i ∧ BestEpoch.FirstMin (curves.flatten.map (frame minimize)) i := by
  have hne : curves.flatten.map (frame minimize) ≠ [] := by simpa using h
  exact BestEpoch.kept_is_first_best _ hne

/-- **C20**, single execution: the kept epoch is the best step reported to the oracle -/
theorem single_execution_kept_eq_best_step (minimize : Bool) (curve : List Int) (h : curve ≠ []) :
    keptFlat minimize [curve] = bestEpoch minimize curve := by
  have hne : curve.map (frame minimize) ≠ [] := by simpa using h
  simp only [keptFlat, bestEpoch, List.flatten_cons, List.flatten_nil, List.append_nil]
  exact BestEpoch.callback_eq_history _ hne

example : (listObjective true [[3, 1, 2], [5, 4]]).isSome ∧ listBestStep true [[3, 1, 2], [5, 4]] = some 1 ∧
    keptFlat true [[3, 1, 2], [5, 4]] = some 1 ∧ keptFlat false [[3, 1, 2], [5, 4]] = some 3 ∧
    multiValue [(true, 3), (false, 2), (true, 1)] = 2 := by decide

end Results
#print axioms Results.kept_is_first_global_best
#print axioms Metrics.update_records
