import Ktm.Reorder
import Ktm.CoreProps
/-! C16: what the chief/worker layer adds to the oracle: the space decoder (entries regrouped by type, then
    reordered parents-first) and the chief's exit condition over the set of client tuner ids. -/
namespace Rpc
open Reorder

/-- `HyperParameters.from_proto` on the space: `sp` is the order in which the decoder lists the entries
    (grouped by type), the result is `reorder` started with nothing placed -/
def decodeSpace (names : List Nat) (sp : List E) : List E := reorder names sp.length [] sp

/-- **nothing lost, nothing added, parents first**: for ANY regrouping `sp` of a parents-first space `P`
    (in particular the grouping by type of the proto message) the decoded space is a permutation of `P`
    and lists every parent before its conditional children -/
theorem decode_parents_first (P sp : List E) (hP : WPF (P.map (·.name)) P) (hperm : sp.Perm P) :
    (decodeSpace (P.map (·.name)) sp).Perm P ∧ WPF (P.map (·.name)) (decodeSpace (P.map (·.name)) sp) := by
  have h := reorder_spec P hP sp.length [] sp (Nat.le_refl _)
    (by intro pre x post he; cases pre <;> simp at he)
    (fun e he => Or.inr (hperm.symm.subset he)) (fun e he => hperm.subset he)
  exact ⟨by simpa [decodeSpace] using h.2.trans hperm, h.1⟩

open Core
variable {V A : Type}

/-- `exit_chief`: no trial is running and every client that asked has been told STOPPED -/
def exitChief (o : Oracle V A) : Bool := o.ongoing.isEmpty && o.tunerIds.isEmpty

theorem exitChief_iff (o : Oracle V A) : exitChief o = true ↔ o.ongoing = [] ∧ o.tunerIds = [] := by
  simp [exitChief]

/-- the client set: after `create_trial(t)` the tuner `t` is in the set unless it was just told STOPPED — so
    the chief cannot exit while a worker that was not told to stop exists -/
theorem tuner_ids_after_create (alg : Alg V A) (o : Oracle V A) (tuner c : Nat) (hh : holds o tuner = none)
    (hnd : o.tunerIds.Nodup) :
    ((create alg o tuner c).2 = .stopped → tuner ∉ (create alg o tuner c).1.tunerIds) ∧
    ((∃ id v, (create alg o tuner c).2 = .trial id v) ∨ (create alg o tuner c).2 = .idle →
        tuner ∈ (create alg o tuner c).1.tunerIds) := by
  have hadd : tuner ∈ addTuner o.tunerIds tuner := by
    unfold addTuner; split
    · rename_i h; simpa using h
    · simp
  have hnd' : (addTuner o.tunerIds tuner).Nodup := by
    unfold addTuner; split
    · exact hnd
    · rename_i h
      rw [List.nodup_append]
      refine ⟨hnd, by simp, ?_⟩
      intro a ha b hb hab
      simp at hb; subst hb; subst hab
      exact h (by simpa using ha)
  have herase : tuner ∉ (addTuner o.tunerIds tuner).erase tuner := fun hm => (List.Nodup.mem_erase_iff hnd').mp hm |>.1 rfl
  unfold create
  simp only [hh]
  cases hq : o.retryQ.getLast? with
  | some rid =>
    simp only []
    cases ht : o.trials[rid]? with
    | some t => exact ⟨(by intro hc; cases hc), fun _ => hadd⟩
    | none => exact ⟨(by intro hc; cases hc), fun h => by rcases h with ⟨id, v, h⟩ | h <;> cases h⟩
  | none =>
    simp only []
    split
    · exact ⟨fun _ => herase, fun h => by rcases h with ⟨id, v, h⟩ | h <;> cases h⟩
    · cases hp : alg.populate { o with tunerIds := addTuner o.tunerIds tuner } c with
      | mk a pop =>
        cases pop with
        | run v => exact ⟨(by intro hc; cases hc), fun _ => hadd⟩
        | idle => exact ⟨(by intro hc; cases hc), fun _ => hadd⟩
        | stop => exact ⟨fun _ => herase, fun h => by rcases h with ⟨id, v, h⟩ | h <;> cases h⟩

end Rpc
#print axioms Rpc.decode_parents_first
