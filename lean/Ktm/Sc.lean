/-! Extended rationals: the non-NaN doubles as the model sees them (−inf, an exact rational, +inf). -/

/-- a non-NaN float: −inf, an exact rational, +inf -/
inductive Sc | ninf | fin (q : Rat) | pinf
  deriving DecidableEq, Repr

namespace Sc

def le : Sc → Sc → Bool
  | .ninf, _ => true
  | _, .pinf => true
  | .fin a, .fin b => decide (a ≤ b)
  | _, _ => false

def neg : Sc → Sc
  | .ninf => .pinf | .pinf => .ninf | .fin q => .fin (-q)

/-- IEEE addition without NaN operands: `inf + (-inf)` is NaN (`none`) -/
def add : Sc → Sc → Option Sc
  | .fin a, .fin b => some (.fin (a + b))
  | .pinf, .ninf => none
  | .ninf, .pinf => none
  | .pinf, _ => some .pinf
  | _, .pinf => some .pinf
  | .ninf, _ => some .ninf
  | _, .ninf => some .ninf

/-- division by a positive count -/
def divNat : Sc → Nat → Sc
  | .fin a, n => .fin (a / (n : Rat))
  | .pinf, _ => .pinf
  | .ninf, _ => .ninf

theorem le_total (a b : Sc) : (le a b || le b a) = true := by
  cases a <;> cases b <;> simp [le]
  exact Rat.le_total

theorem le_total' (a b : Sc) : le a b = true ∨ le b a = true := by
  have := le_total a b; simpa using this

theorem le_refl (a : Sc) : le a a = true := by
  cases a <;> simp [le, Rat.le_refl]

theorem le_trans (a b c : Sc) (h1 : le a b = true) (h2 : le b c = true) : le a c = true := by
  cases a <;> cases b <;> cases c <;> simp_all [le]
  exact Rat.le_trans h1 h2

theorem le_antisymm (a b : Sc) (h1 : le a b = true) (h2 : le b a = true) : a = b := by
  cases a <;> cases b <;> simp_all [le]
  exact Rat.le_antisymm h1 h2

theorem neg_le_neg (a b : Sc) : le (neg b) (neg a) = le a b := by
  cases a <;> cases b <;> simp [le, neg, Rat.neg_le_neg_iff]

theorem neg_neg (a : Sc) : neg (neg a) = a := by
  cases a <;> simp [neg, Rat.neg_neg]

end Sc
