import Ktm.CoreProps
/-! C19 prototype: `BaseTuner.search` over the core oracle with a scripted `run_trial`. -/
namespace Search
open Core
variable {V A : Type}

inductive Attempt
  | ret (report : Option Int)     -- run_trial returned a result (none = NaN objective)
  | raise                         -- ordinary exception  → INVALID
  | failedTrial                   -- FailedTrialError    → FAILED
  | fatal                         -- FatalError subclass → propagates
  | interrupt                     -- KeyboardInterrupt / crash

inductive Ev
  | start (id : Nat) | ended (id : Nat) (oc : Outcome) | stoppedEv | fatalEv | interruptEv | abortEv | outOfFuel
  deriving DecidableEq

/-- the loop of `BaseTuner.search` for tuner 0; `choices` feeds the algorithm -/
def search (alg : Alg V A) : Nat → Oracle V A → List Attempt → List Ev → Oracle V A × List Ev
  | 0, o, _, acc => (o, acc ++ [.outOfFuel])
  | fuel + 1, o, script, acc =>
    let r := create alg o 0 fuel
    match r.2 with
    | .stopped => (r.1, acc ++ [.stoppedEv])
    | .idle => search alg fuel r.1 script acc
    | .trial id _ =>
      match script with
      | [] => (r.1, acc ++ [.start id, .interruptEv])
      | .ret rep :: rest =>
        let o1 := (update r.1 id rep).1
        let e := endT alg o1 id .completed
        match e.2 with
        | .abort => (e.1, acc ++ [.start id, .ended id .completed, .abortEv])
        | _ => search alg fuel e.1 rest (acc ++ [.start id, .ended id .completed])
      | .raise :: rest =>
        let e := endT alg r.1 id .invalid
        match e.2 with
        | .abort => (e.1, acc ++ [.start id, .ended id .invalid, .abortEv])
        | _ => search alg fuel e.1 rest (acc ++ [.start id, .ended id .invalid])
      | .failedTrial :: rest =>
        let e := endT alg r.1 id .failed
        match e.2 with
        | .abort => (e.1, acc ++ [.start id, .ended id .failed, .abortEv])
        | _ => search alg fuel e.1 rest (acc ++ [.start id, .ended id .failed])
      | .fatal :: _ => (r.1, acc ++ [.start id, .fatalEv])
      | .interrupt :: _ => (r.1, acc ++ [.start id, .interruptEv])
    | _ => (r.1, acc ++ [.interruptEv])

/-- prefix made of complete (start, ended) pairs for the same id -/
inductive Pairs : List Ev → Prop
  | nil : Pairs []
  | snoc (l : List Ev) (id : Nat) (oc : Outcome) : Pairs l → Pairs (l ++ [.start id, .ended id oc])

/-- how a search can end -/
inductive Terminal : List Ev → Prop
  | stopped : Terminal [.stoppedEv]
  | fuel : Terminal [.outOfFuel]
  | interrupted : Terminal [.interruptEv]
  | fatal (id : Nat) : Terminal [.start id, .fatalEv]
  | interruptedIn (id : Nat) : Terminal [.start id, .interruptEv]
  | abort (id : Nat) (oc : Outcome) : Terminal [.start id, .ended id oc, .abortEv]

/-- C19: the loop ends every trial it starts exactly once — the trace is a sequence of
    (start, end) pairs followed by STOPPED, or by a start whose run raised a fatal error / was
    interrupted, or by the aborting end — and the reported status follows the error mapping -/
theorem search_trace (alg : Alg V A) (fuel : Nat) : ∀ (o : Oracle V A) (script : List Attempt) (acc : List Ev),
    Pairs acc → ∃ p t, (search alg fuel o script acc).2 = p ++ t ∧ Pairs p ∧ Terminal t := by
  induction fuel with
  | zero => intro o script acc hacc; exact ⟨acc, _, rfl, hacc, .fuel⟩
  | succ fuel ih =>
    intro o script acc hacc
    simp only [search]
    cases hr : (create alg o 0 fuel).2 with
    | stopped => exact ⟨acc, _, rfl, hacc, .stopped⟩
    | idle => exact ih _ _ _ hacc
    | ok => exact ⟨acc, _, rfl, hacc, .interrupted⟩
    | bad => exact ⟨acc, _, rfl, hacc, .interrupted⟩
    | abort => exact ⟨acc, _, rfl, hacc, .interrupted⟩
    | trial id v =>
      simp only
      cases script with
      | nil => exact ⟨acc, _, rfl, hacc, .interruptedIn id⟩
      | cons a rest =>
        cases a with
        | ret rep =>
          simp only
          cases he : (endT alg (update (create alg o 0 fuel).1 id rep).1 id .completed).2 with
          | abort => exact ⟨acc, [.start id, .ended id .completed, .abortEv], by simp, hacc, .abort id _⟩
          | ok => exact ih _ _ _ (.snoc acc id .completed hacc)
          | bad => exact ih _ _ _ (.snoc acc id .completed hacc)
          | idle => exact ih _ _ _ (.snoc acc id .completed hacc)
          | stopped => exact ih _ _ _ (.snoc acc id .completed hacc)
          | trial i w => exact ih _ _ _ (.snoc acc id .completed hacc)
        | raise =>
          simp only
          cases he : (endT alg (create alg o 0 fuel).1 id .invalid).2 with
          | abort => exact ⟨acc, [.start id, .ended id .invalid, .abortEv], by simp, hacc, .abort id _⟩
          | ok => exact ih _ _ _ (.snoc acc id .invalid hacc)
          | bad => exact ih _ _ _ (.snoc acc id .invalid hacc)
          | idle => exact ih _ _ _ (.snoc acc id .invalid hacc)
          | stopped => exact ih _ _ _ (.snoc acc id .invalid hacc)
          | trial i w => exact ih _ _ _ (.snoc acc id .invalid hacc)
        | failedTrial =>
          simp only
          cases he : (endT alg (create alg o 0 fuel).1 id .failed).2 with
          | abort => exact ⟨acc, [.start id, .ended id .failed, .abortEv], by simp, hacc, .abort id _⟩
          | ok => exact ih _ _ _ (.snoc acc id .failed hacc)
          | bad => exact ih _ _ _ (.snoc acc id .failed hacc)
          | idle => exact ih _ _ _ (.snoc acc id .failed hacc)
          | stopped => exact ih _ _ _ (.snoc acc id .failed hacc)
          | trial i w => exact ih _ _ _ (.snoc acc id .failed hacc)
        | fatal => exact ⟨acc, _, rfl, hacc, .fatal id⟩
        | interrupt => exact ⟨acc, _, rfl, hacc, .interruptedIn id⟩

end Search
#print axioms Search.search_trace

namespace Search
open Core
variable {V A : Type}

/-- what the loop reports for an attempt of `run_trial` (fatal errors and interrupts report nothing) -/
def outcomeOf : Attempt → Option Outcome
  | .ret _ => some .completed
  | .raise => some .invalid
  | .failedTrial => some .failed
  | .fatal => none
  | .interrupt => none

/-- the statuses reported to `end_trial`, in order -/
def endsOf : List Ev → List Outcome
  | [] => []
  | .ended _ oc :: rest => oc :: endsOf rest
  | _ :: rest => endsOf rest

theorem endsOf_append (a b : List Ev) : endsOf (a ++ b) = endsOf a ++ endsOf b := by
  induction a with
  | nil => rfl
  | cons e es ih => cases e <;> simp [endsOf, ih]

/-- **status mapping**: the statuses reported to the oracle are exactly the images of the first `k`
    attempts of `run_trial` (returned ⇒ COMPLETED, ordinary exception ⇒ INVALID, `FailedTrialError` ⇒
    FAILED), in order, none skipped, none invented; a fatal error or an interrupt reports nothing -/
theorem status_mapping (alg : Alg V A) (fuel : Nat) : ∀ (o : Oracle V A) (script : List Attempt) (acc : List Ev),
    ∃ k, endsOf (search alg fuel o script acc).2 = endsOf acc ++ (script.take k).filterMap outcomeOf ∧
      ∀ a ∈ script.take k, (outcomeOf a).isSome := by
  induction fuel with
  | zero => intro o script acc; exact ⟨0, by simp [search, endsOf_append, endsOf], by simp⟩
  | succ fuel ih =>
    intro o script acc
    simp only [search]
    have stop : ∀ (st : Oracle V A) (tail : List Ev), endsOf tail = [] →
        ∃ k, endsOf ((st, acc ++ tail) : Oracle V A × List Ev).2 = endsOf acc ++ (script.take k).filterMap outcomeOf ∧
          ∀ a ∈ script.take k, (outcomeOf a).isSome :=
      fun st tail ht => ⟨0, by simp [endsOf_append, ht], by simp⟩
    cases hr : (create alg o 0 fuel).2 with
    | stopped => exact stop _ _ rfl
    | idle => exact ih _ _ _
    | ok => exact stop _ _ rfl
    | bad => exact stop _ _ rfl
    | abort => exact stop _ _ rfl
    | trial id v =>
      simp only
      cases script with
      | nil => exact stop _ _ rfl
      | cons a rest =>
        have step : ∀ (oc : Outcome) (o' : Oracle V A), outcomeOf a = some oc →
            (∃ k, endsOf (search alg fuel o' rest (acc ++ [.start id, .ended id oc])).2 =
                endsOf (acc ++ [.start id, .ended id oc]) ++ (rest.take k).filterMap outcomeOf ∧
              ∀ a ∈ rest.take k, (outcomeOf a).isSome) →
            ∃ k, endsOf (search alg fuel o' rest (acc ++ [.start id, .ended id oc])).2 =
                endsOf acc ++ ((a :: rest).take k).filterMap outcomeOf ∧
              ∀ b ∈ (a :: rest).take k, (outcomeOf b).isSome := by
          intro oc o' ha ⟨k, hk, hall⟩
          refine ⟨k + 1, ?_, ?_⟩
          · rw [hk]; simp [endsOf_append, endsOf, ha]
          · intro b hb
            simp only [List.take_succ_cons, List.mem_cons] at hb
            rcases hb with hb | hb
            · rw [hb, ha]; rfl
            · exact hall b hb
        have abortCase : ∀ (oc : Outcome) (st : Oracle V A), outcomeOf a = some oc →
            ∃ k, endsOf ((st, acc ++ [.start id, .ended id oc, .abortEv]) : Oracle V A × List Ev).2 =
                endsOf acc ++ ((a :: rest).take k).filterMap outcomeOf ∧
              ∀ b ∈ (a :: rest).take k, (outcomeOf b).isSome := by
          intro oc st ha
          exact ⟨1, by simp [endsOf_append, endsOf, ha], by intro b hb; simp at hb; rw [hb, ha]; rfl⟩
        cases a with
        | ret rep =>
          simp only
          cases he : (endT alg (update (create alg o 0 fuel).1 id rep).1 id .completed).2 with
          | abort => exact abortCase .completed _ rfl
          | ok => exact step .completed _ rfl (ih _ _ _)
          | bad => exact step .completed _ rfl (ih _ _ _)
          | idle => exact step .completed _ rfl (ih _ _ _)
          | stopped => exact step .completed _ rfl (ih _ _ _)
          | trial i w => exact step .completed _ rfl (ih _ _ _)
        | raise =>
          simp only
          cases he : (endT alg (create alg o 0 fuel).1 id .invalid).2 with
          | abort => exact abortCase .invalid _ rfl
          | ok => exact step .invalid _ rfl (ih _ _ _)
          | bad => exact step .invalid _ rfl (ih _ _ _)
          | idle => exact step .invalid _ rfl (ih _ _ _)
          | stopped => exact step .invalid _ rfl (ih _ _ _)
          | trial i w => exact step .invalid _ rfl (ih _ _ _)
        | failedTrial =>
          simp only
          cases he : (endT alg (create alg o 0 fuel).1 id .failed).2 with
          | abort => exact abortCase .failed _ rfl
          | ok => exact step .failed _ rfl (ih _ _ _)
          | bad => exact step .failed _ rfl (ih _ _ _)
          | idle => exact step .failed _ rfl (ih _ _ _)
          | stopped => exact step .failed _ rfl (ih _ _ _)
          | trial i w => exact step .failed _ rfl (ih _ _ _)
        | fatal => exact ⟨0, by simp [endsOf_append, endsOf], by simp⟩
        | interrupt => exact ⟨0, by simp [endsOf_append, endsOf], by simp⟩

end Search
#print axioms Search.status_mapping
