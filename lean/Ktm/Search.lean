import Ktm.CoreProps
/-! C19 prototype: `BaseTuner.search` over the core oracle with a scripted `run_trial`. -/
namespace Search
open Core
variable {V A : Type}

inductive Attempt
  | ret (report : Option Int)     -- run_trial returned a result (none = NaN objective)
  | raise                         -- ordinary exception  → INVALID
  | failedTrial                   -- FailedTrialError    → FAILED
  | fatal                         -- FatalError subclass → propagates
  | interrupt                     -- KeyboardInterrupt / crash

inductive Ev
  | start (id : Nat) | ended (id : Nat) (oc : Outcome) | stoppedEv | fatalEv | interruptEv | abortEv | outOfFuel
  deriving DecidableEq

/-- the loop of `BaseTuner.search` for tuner 0; `choices` feeds the algorithm -/
def search (alg : Alg V A) : Nat → Oracle V A → List Attempt → List Ev → Oracle V A × List Ev
  | 0, o, _, acc => (o, acc ++ [.outOfFuel])
  | fuel + 1, o, script, acc =>
    let r := create alg o 0 fuel
    match r.2 with
    | .stopped => (r.1, acc ++ [.stoppedEv])
    | .idle => search alg fuel r.1 script acc
    | .trial id _ =>
      match script with
      | [] => (r.1, acc ++ [.start id, .interruptEv])
      | .ret rep :: rest =>
        let o1 := (update r.1 id rep).1
        let e := endT alg o1 id .completed
        match e.2 with
        | .abort => (e.1, acc ++ [.start id, .ended id .completed, .abortEv])
        | _ => search alg fuel e.1 rest (acc ++ [.start id, .ended id .completed])
      | .raise :: rest =>
        let e := endT alg r.1 id .invalid
        match e.2 with
        | .abort => (e.1, acc ++ [.start id, .ended id .invalid, .abortEv])
        | _ => search alg fuel e.1 rest (acc ++ [.start id, .ended id .invalid])
      | .failedTrial :: rest =>
        let e := endT alg r.1 id .failed
        match e.2 with
        | .abort => (e.1, acc ++ [.start id, .ended id .failed, .abortEv])
        | _ => search alg fuel e.1 rest (acc ++ [.start id, .ended id .failed])
      | .fatal :: _ => (r.1, acc ++ [.start id, .fatalEv])
      | .interrupt :: _ => (r.1, acc ++ [.start id, .interruptEv])
    | _ => (r.1, acc ++ [.interruptEv])

/-- prefix made of complete (start, ended) pairs for the same id -/
inductive Pairs : List Ev → Prop
  | nil : Pairs []
  | snoc (l : List Ev) (id : Nat) (oc : Outcome) : Pairs l → Pairs (l ++ [.start id, .ended id oc])

/-- how a search can end -/
inductive Terminal : List Ev → Prop
  | stopped : Terminal [.stoppedEv]
  | fuel : Terminal [.outOfFuel]
  | interrupted : Terminal [.interruptEv]
  | fatal (id : Nat) : Terminal [.start id, .fatalEv]
  | interruptedIn (id : Nat) : Terminal [.start id, .interruptEv]
  | abort (id : Nat) (oc : Outcome) : Terminal [.start id, .ended id oc, .abortEv]

/-- C19: the loop ends every trial it starts exactly once — the trace is a sequence of
    (start, end) pairs followed by STOPPED, or by a start whose run raised a fatal error / was
    interrupted, or by the aborting end — and the reported status follows the error mapping -/
theorem search_trace (alg : Alg V A) (fuel : Nat) : ∀ (o : Oracle V A) (script : List Attempt) (acc : List Ev),
    Pairs acc → ∃ p t, (search alg fuel o script acc).2 = p ++ t ∧ Pairs p ∧ Terminal t := by
  induction fuel with
  | zero => intro o script acc hacc; exact ⟨acc, _, rfl, hacc, .fuel⟩
  | succ fuel ih =>
    intro o script acc hacc
    simp only [search]
    cases hr : (create alg o 0 fuel).2 with
    | stopped => exact ⟨acc, _, rfl, hacc, .stopped⟩
    | idle => exact ih _ _ _ hacc
    | ok => exact ⟨acc, _, rfl, hacc, .interrupted⟩
    | bad => exact ⟨acc, _, rfl, hacc, .interrupted⟩
    | abort => exact ⟨acc, _, rfl, hacc, .interrupted⟩
    | trial id v =>
      simp only
      cases script with
      | nil => exact ⟨acc, _, rfl, hacc, .interruptedIn id⟩
      | cons a rest =>
        cases a with
        | ret rep =>
          simp only
          cases he : (endT alg (update (create alg o 0 fuel).1 id rep).1 id .completed).2 with
          | abort => exact ⟨acc, [.start id, .ended id .completed, .abortEv], by simp, hacc, .abort id _⟩
          | ok => exact ih _ _ _ (.snoc acc id .completed hacc)
          | bad => exact ih _ _ _ (.snoc acc id .completed hacc)
          | idle => exact ih _ _ _ (.snoc acc id .completed hacc)
          | stopped => exact ih _ _ _ (.snoc acc id .completed hacc)
          | trial i w => exact ih _ _ _ (.snoc acc id .completed hacc)
        | raise =>
          simp only
          cases he : (endT alg (create alg o 0 fuel).1 id .invalid).2 with
          | abort => exact ⟨acc, [.start id, .ended id .invalid, .abortEv], by simp, hacc, .abort id _⟩
          | ok => exact ih _ _ _ (.snoc acc id .invalid hacc)
          | bad => exact ih _ _ _ (.snoc acc id .invalid hacc)
          | idle => exact ih _ _ _ (.snoc acc id .invalid hacc)
          | stopped => exact ih _ _ _ (.snoc acc id .invalid hacc)
          | trial i w => exact ih _ _ _ (.snoc acc id .invalid hacc)
        | failedTrial =>
          simp only
          cases he : (endT alg (create alg o 0 fuel).1 id .failed).2 with
          | abort => exact ⟨acc, [.start id, .ended id .failed, .abortEv], by simp, hacc, .abort id _⟩
          | ok => exact ih _ _ _ (.snoc acc id .failed hacc)
          | bad => exact ih _ _ _ (.snoc acc id .failed hacc)
          | idle => exact ih _ _ _ (.snoc acc id .failed hacc)
          | stopped => exact ih _ _ _ (.snoc acc id .failed hacc)
          | trial i w => exact ih _ _ _ (.snoc acc id .failed hacc)
        | fatal => exact ⟨acc, _, rfl, hacc, .fatal id⟩
        | interrupt => exact ⟨acc, _, rfl, hacc, .interruptedIn id⟩

end Search
#print axioms Search.search_trace
