/-! C13 prototype: the `HyperParameters` container (define-by-run lookup, scopes) and a build-program
    interpreter. Values are `Int`s here; the five kinds only matter through `dflt`. -/
namespace Space

abbrev Val := Int

structure Cond where
  name : String
  vals : List Val
  deriving DecidableEq, Repr

structure HP where
  name : String
  conds : List Cond
  dflt : Val
  deriving DecidableEq, Repr

inductive Err | notDefined (n : String) | sameAsParent (n : String) | inactive (n : String) | unknown (n : String)
  | missingValue (n : String)     -- the `KeyError` of F16: active entry without a value
  deriving DecidableEq, Repr

structure S where
  hps : List HP                       -- `_space` (`_hps` = filter by name)
  values : List (String × Val)
  nameScopes : List String
  conds : List Cond                   -- current conditional-scope stack
  activeScopes : List (List Cond)
  inactiveScopes : List (List Cond)
  deriving Repr

def lookup (vs : List (String × Val)) (n : String) : Option Val := (vs.find? (·.1 == n)).map (·.2)

def setVal (vs : List (String × Val)) (n : String) (v : Val) : List (String × Val) :=
  if vs.any (·.1 == n) then vs.map (fun p => if p.1 == n then (n, v) else p) else vs ++ [(n, v)]

def condActive (vs : List (String × Val)) (c : Cond) : Bool :=
  match lookup vs c.name with
  | some v => c.vals.contains v
  | none => false

def condsActive (vs : List (String × Val)) (cs : List Cond) : Bool := cs.all (condActive vs)

def S.isActive (s : S) (h : HP) : Bool := condsActive s.values h.conds
def S.isActiveName (s : S) (n : String) : Bool := s.hps.any (fun h => h.name == n && s.isActive h)
def S.exists_ (s : S) (n : String) (cs : List Cond) : Bool := s.hps.any (fun h => h.name == n && h.conds == cs)
def S.qualify (s : S) (n : String) : String := "/".intercalate (s.nameScopes ++ [n])

/-- `_register` (overwrite = False) -/
def S.register (s : S) (h : HP) : Except Err (S × Option Val) :=
  if s.conds.any (·.name == h.name) then .error (.sameAsParent h.name) else
  let s' := { s with hps := s.hps ++ [h] }
  if s'.isActive h then
    match lookup s'.values h.name with
    | some v => .ok (s', some v)
    | none => .ok ({ s' with values := s'.values ++ [(h.name, h.dflt)] }, some h.dflt)
  else .ok (s', none)

/-- `_retrieve`: `hp.Int(...)` etc. with the name already qualified and `conds` = current stack -/
def S.retrieve (s : S) (name : String) (dflt : Val) : Except Err (S × Option Val) :=
  let h : HP := { name := s.qualify name, conds := s.conds, dflt := dflt }
  if s.exists_ h.name h.conds then
    if s.isActive h then
      match lookup s.values h.name with
      | some v => .ok (s, some v)
      | none => .error (.missingValue h.name)
    else .ok (s, none)
  else s.register h

/-- `get` -/
def S.get (s : S) (name : String) : Except Err Val :=
  let n := s.qualify name
  match lookup s.values n with
  | some v => .ok v
  | none => if s.hps.any (·.name == n) then .error (.inactive n) else .error (.unknown n)

inductive Stmt
  | decl (name : String) (dflt : Val)
  | nameScope (n : String) (body : List Stmt)
  | condScope (parent : String) (vals : List Val) (lazy : Bool) (body : List Stmt)
  | get (name : String)             -- `hp.get(name)` / `hp[name]`; the harness catches the error and goes on

inductive Ev | ret (name : String) (v : Option Val) | err (e : Err)
  deriving Repr

/-- run a build function; `last` = value returned by the preceding declaration (for lazy children) -/
def run (fuel : Nat) (s : S) (prog : List Stmt) (last : Option Val) : S × List Ev :=
  match fuel with
  | 0 => (s, [])
  | fuel + 1 =>
    match prog with
    | [] => (s, [])
    | .decl n d :: rest =>
      match s.retrieve n d with
      | .ok (s', v) => let r := run fuel s' rest v; (r.1, .ret (s.qualify n) v :: r.2)
      | .error e => (s, [.err e])
    | .get n :: rest =>
      let r := run fuel s rest last
      (r.1, (match s.get n with | .ok v => Ev.ret (s.qualify n) (some v) | .error e => Ev.err e) :: r.2)
    | .nameScope n body :: rest =>
      let r1 := run fuel { s with nameScopes := s.nameScopes ++ [n] } body none
      let s1 := { r1.1 with nameScopes := s.nameScopes }
      let r2 := run fuel s1 rest last
      (r2.1, r1.2 ++ r2.2)
    | .condScope parent vals isLazy body :: rest =>
      let pn := s.qualify parent
      if !(s.exists_ pn s.conds) then (s, [.err (.notDefined pn)]) else
      let c : Cond := { name := pn, vals := vals }
      let stack := s.conds ++ [c]
      let s0 := if condActive s.values c then { s with conds := stack, activeScopes := s.activeScopes ++ [stack] }
                else { s with conds := stack, inactiveScopes := s.inactiveScopes ++ [stack] }
      let enter := !isLazy || (match last with | some v => vals.contains v | none => false)
      let r1 := if enter then run fuel s0 body none else (s0, [])
      let s1 := { r1.1 with conds := s.conds }
      let r2 := run fuel s1 rest last
      (r2.1, r1.2 ++ r2.2)

def empty : S := { hps := [], values := [], nameScopes := [], conds := [], activeScopes := [], inactiveScopes := [] }

-- the repo's own nested example (test_nested_conditional_scopes_and_name_scopes)
def demo : List Stmt :=
  [.decl "a" 3,
   .condScope "a" [1, 3] false [.decl "b" 6, .condScope "b" [6] false [.decl "c" 7, .nameScope "d" [.decl "e" 10]]],
   .condScope "a" [2] false [.decl "f" 13, .nameScope "g" [.decl "h" 0]]]
#eval (run 100 empty demo none).1.values
#eval (run 100 empty demo none).2
#eval (run 100 empty demo none).1.hps.map (fun h => (h.name, h.conds.map (·.name)))

end Space
