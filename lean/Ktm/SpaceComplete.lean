import Ktm.SpaceDisc
/-! C13, completeness of discovery: *every hyperparameter declared under any nested conditional scope the build
    function opens is registered* — by a single build, whatever values the container holds, because the body of a
    `with hp.conditional_scope(...)` block always runs (an inactive scope only makes its declarations return `None`).
    `eagerDecls` lists those declarations syntactically (qualified name, full condition stack); declarations that
    user code guards with a Python `if` (the model's *lazy* scopes) are not claimed here — they are what the
    activation loop of `_populate_initial_space` is for, and stay in `discovery_partial`.

    * `run_registers_eager` — after a build that does not raise, every eager declaration exists in the container
      (same qualified name, same condition stack);
    * `discovery_registers_eager` — after `_populate_initial_space` (both flags on) every eager declaration exists in
      the ORACLE's space, however many further builds the activation loop performs: the loop only ever adds entries. -/
namespace Space

def qual (ns : List String) (n : String) : String := "/".intercalate (ns ++ [n])

theorem qualify_eq (s : S) (n : String) : s.qualify n = qual s.nameScopes n := rfl

/-- the declarations a build function makes outside Python-`if` guards: name scopes and conditional scopes are
    followed, lazily guarded bodies are skipped; same fuel discipline as `run` -/
def eagerDecls : Nat → List String → List Cond → List Stmt → List (String × List Cond)
  | 0, _, _, _ => []
  | fuel + 1, ns, cs, prog =>
    match prog with
    | [] => []
    | .decl n _ :: rest => (qual ns n, cs) :: eagerDecls fuel ns cs rest
    | .get _ :: rest => eagerDecls fuel ns cs rest
    | .nameScope n body :: rest => eagerDecls fuel (ns ++ [n]) cs body ++ eagerDecls fuel ns cs rest
    | .condScope p vals isLazy body :: rest =>
      (if isLazy then [] else eagerDecls fuel ns (cs ++ [{ name := qual ns p, vals := vals }]) body) ++ eagerDecls fuel ns cs rest

/-- the build does not raise: every declaration is accepted and every conditional scope names a defined parent
    (`hp.get` errors are caught by the caller and do not count) -/
def runOk : Nat → S → List Stmt → Option Val → Bool
  | 0, _, _, _ => true
  | fuel + 1, s, prog, last =>
    match prog with
    | [] => true
    | .decl n d :: rest =>
      match s.retrieve n d with
      | .ok (s', v) => runOk fuel s' rest v
      | .error _ => false
    | .get _ :: rest => runOk fuel s rest last
    | .nameScope n body :: rest =>
      let r1 := run fuel { s with nameScopes := s.nameScopes ++ [n] } body none
      runOk fuel { s with nameScopes := s.nameScopes ++ [n] } body none &&
        runOk fuel { r1.1 with nameScopes := s.nameScopes } rest last
    | .condScope parent vals isLazy body :: rest =>
      let pn := s.qualify parent
      if !(s.exists_ pn s.conds) then false else
      let c : Cond := { name := pn, vals := vals }
      let stack := s.conds ++ [c]
      let s0 := if condActive s.values c then { s with conds := stack, activeScopes := s.activeScopes ++ [stack] }
                else { s with conds := stack, inactiveScopes := s.inactiveScopes ++ [stack] }
      let enter := !isLazy || (match last with | some v => vals.contains v | none => false)
      let r1 := if enter then run fuel s0 body none else (s0, [])
      (if enter then runOk fuel s0 body none else true) && runOk fuel { r1.1 with conds := s.conds } rest last

theorem exists_mono (s s' : S) (ext : List HP) (h : s'.hps = s.hps ++ ext) (n : String) (cs : List Cond)
    (he : s.exists_ n cs = true) : s'.exists_ n cs = true := by
  simp only [S.exists_, List.any_eq_true] at he ⊢
  obtain ⟨p, hp, hpp⟩ := he
  exact ⟨p, by rw [h]; exact List.mem_append.mpr (Or.inl hp), hpp⟩

/-- an accepted declaration exists afterwards, under its qualified name and the current condition stack -/
theorem retrieve_exists (s s' : S) (n : String) (d : Val) (v : Option Val) (h : s.retrieve n d = .ok (s', v)) :
    s'.exists_ (s.qualify n) s.conds = true := by
  unfold S.retrieve at h
  simp only at h
  split at h
  · rename_i hex
    split at h
    · split at h
      · cases h; exact hex
      · cases h
    · cases h; exact hex
  · unfold S.register at h
    simp only at h
    split at h
    · cases h
    · have hnew : ∀ (t : S), t.hps = s.hps ++ [{ name := s.qualify n, conds := s.conds, dflt := d }] →
          t.exists_ (s.qualify n) s.conds = true := by
        intro t ht
        simp only [S.exists_, List.any_eq_true, ht]
        exact ⟨{ name := s.qualify n, conds := s.conds, dflt := d }, by simp, by simp⟩
      split at h
      · split at h <;> (cases h; exact hnew _ rfl)
      · cases h; exact hnew _ rfl

/-- **one build registers every eager declaration** -/
theorem run_registers_eager (fuel : Nat) : ∀ (s : S) (prog : List Stmt) (last : Option Val), Good s →
    runOk fuel s prog last = true →
    ∀ d ∈ eagerDecls fuel s.nameScopes s.conds prog, (run fuel s prog last).1.exists_ d.1 d.2 = true := by
  induction fuel with
  | zero => intro s prog last _ _ d hd; simp [eagerDecls] at hd
  | succ fuel ih =>
    intro s prog last g hok d hd
    cases prog with
    | nil => simp [eagerDecls] at hd
    | cons st rest =>
      cases st with
      | decl n dv =>
        simp only [runOk] at hok
        simp only [run]
        cases hr : s.retrieve n dv with
        | error e => rw [hr] at hok; cases hok
        | ok r =>
          obtain ⟨s', v⟩ := r
          rw [hr] at hok
          simp only at hok ⊢
          obtain ⟨g', hc, hns, ext, hext⟩ := retrieve_good s s' n dv v g hr
          obtain ⟨_, _, _, ext2, hext2⟩ := run_good fuel s' rest v g'
          simp only [eagerDecls, List.mem_cons] at hd
          rcases hd with hd | hd
          · subst hd
            have := retrieve_exists s s' n dv v hr
            rw [qualify_eq] at this
            exact exists_mono s' _ ext2 hext2 _ _ this
          · have := ih s' rest v g' hok d (by rw [hns, hc]; exact hd)
            exact this
      | get n =>
        simp only [runOk] at hok
        simp only [run]
        simp only [eagerDecls] at hd
        exact ih s rest last g hok d hd
      | nameScope n body =>
        simp only [runOk, Bool.and_eq_true] at hok
        simp only [run]
        have g0 : Good { s with nameScopes := s.nameScopes ++ [n] } := ⟨g.pf, g.si⟩
        obtain ⟨g1, hc1, _, ext1, hext1⟩ := run_good fuel { s with nameScopes := s.nameScopes ++ [n] } body none g0
        have g1' : Good { (run fuel { s with nameScopes := s.nameScopes ++ [n] } body none).1 with nameScopes := s.nameScopes } :=
          ⟨g1.pf, g1.si⟩
        obtain ⟨_, _, _, ext2, hext2⟩ := run_good fuel _ rest last g1'
        simp only [eagerDecls, List.mem_append] at hd
        rcases hd with hd | hd
        · have h1 := ih { s with nameScopes := s.nameScopes ++ [n] } body none g0 hok.1 d hd
          exact exists_mono { (run fuel { s with nameScopes := s.nameScopes ++ [n] } body none).1 with nameScopes := s.nameScopes } _ ext2 hext2 _ _ h1
        · exact ih _ rest last g1' hok.2 d (by simp only; rw [hc1]; exact hd)
      | condScope parent vals isLazy body =>
        simp only [runOk] at hok
        simp only [run]
        by_cases hex : s.exists_ (s.qualify parent) s.conds = true
        · simp only [hex, Bool.not_true, Bool.false_eq_true, if_false, Bool.and_eq_true] at hok ⊢
          obtain ⟨p, hp, hpn⟩ := exists_mem s _ _ hex
          have hsi0 : ∀ c ∈ s.conds ++ [{ name := s.qualify parent, vals := vals : Cond }], ∃ q ∈ s.hps, q.name = c.name := by
            intro c hc
            rcases List.mem_append.mp hc with hc | hc
            · exact g.si c hc
            · simp at hc; subst hc; exact ⟨p, hp, hpn⟩
          generalize hs0 : (if condActive s.values { name := s.qualify parent, vals := vals } = true then
              ({ s with conds := s.conds ++ [{ name := s.qualify parent, vals := vals }],
                        activeScopes := s.activeScopes ++ [s.conds ++ [{ name := s.qualify parent, vals := vals }]] } : S)
            else { s with conds := s.conds ++ [{ name := s.qualify parent, vals := vals }],
                          inactiveScopes := s.inactiveScopes ++ [s.conds ++ [{ name := s.qualify parent, vals := vals }]] }) = s0 at hok ⊢
          have hs0_hps : s0.hps = s.hps := by subst hs0; split <;> rfl
          have hs0_conds : s0.conds = s.conds ++ [{ name := s.qualify parent, vals := vals }] := by subst hs0; split <;> rfl
          have hs0_ns : s0.nameScopes = s.nameScopes := by subst hs0; split <;> rfl
          have g0 : Good s0 := ⟨by rw [hs0_hps]; exact g.pf, by intro c hc; rw [hs0_conds] at hc; rw [hs0_hps]; exact hsi0 c hc⟩
          revert hd
          revert hok
          cases hen : (!isLazy || match last with | some v => vals.contains v | none => false) with
          | true =>
            intro hok hd
            simp only [↓reduceIte] at hok ⊢
            obtain ⟨g1, _, hns1', ext1, hext1'⟩ := run_good fuel s0 body none g0
            have hns1 : (run fuel s0 body none).1.nameScopes = s.nameScopes := hns1'.trans hs0_ns
            have hext1 : (run fuel s0 body none).1.hps = s.hps ++ ext1 := by rw [hext1', hs0_hps]
            have g1' : Good { (run fuel s0 body none).1 with conds := s.conds } := by
              refine ⟨g1.pf, ?_⟩
              intro c hc
              obtain ⟨q, hq, hqn⟩ := g.si c hc
              exact ⟨q, by show q ∈ (run fuel s0 body none).1.hps; rw [hext1]; exact List.mem_append.mpr (Or.inl hq), hqn⟩
            obtain ⟨_, _, _, ext2, hext2⟩ := run_good fuel { (run fuel s0 body none).1 with conds := s.conds } rest last g1'
            simp only [eagerDecls, List.mem_append] at hd
            rcases hd with hd | hd
            · cases isLazy with
              | true => simp at hd
              | false =>
                simp only [Bool.false_eq_true, if_false] at hd
                have h1 := ih s0 body none g0 hok.1 d (by rw [hs0_ns, hs0_conds, qualify_eq]; exact hd)
                exact exists_mono { (run fuel s0 body none).1 with conds := s.conds } _ ext2 hext2 _ _ h1
            · exact ih { (run fuel s0 body none).1 with conds := s.conds } rest last g1' hok.2 d (by simp only; rw [hns1]; exact hd)
          | false =>
            intro hok hd
            simp only [Bool.false_eq_true, ↓reduceIte, Bool.true_and] at hok ⊢
            have g1' : Good { s0 with conds := s.conds } := by
              refine ⟨g0.pf, ?_⟩
              intro c hc
              obtain ⟨q, hq, hqn⟩ := g.si c hc
              exact ⟨q, by show q ∈ s0.hps; rw [hs0_hps]; exact hq, hqn⟩
            simp only [eagerDecls, List.mem_append] at hd
            rcases hd with hd | hd
            · -- not entered: then the scope is lazy, and lazy bodies are not claimed
              cases isLazy with
              | true => simp at hd
              | false => simp at hen
            · exact ih { s0 with conds := s.conds } rest last g1' hok.2 d (by simp only; rw [hs0_ns]; exact hd)
        · have hex' : s.exists_ (s.qualify parent) s.conds = false := by simpa using hex
          simp [hex'] at hok

/-! ### the discovery loop only adds entries -/

theorem updateSpace_grows (allowNew tuneNew : Bool) (o o' : S) (hps : List HP) (h : updateSpace allowNew tuneNew o hps = .ok o') :
    ∃ ext, o'.hps = o.hps ++ ext := by
  unfold updateSpace at h
  simp only at h
  split at h
  · cases h
  · split at h
    · cases h; exact ⟨[], by simp⟩
    · cases h; exact ⟨_, foldl_registerOver_hps _ _⟩

theorem recordActive_o (d : Disc) (sc : List (List Cond)) : (recordActive d sc).o = d.o := by
  unfold recordActive
  induction sc generalizing d with
  | nil => rfl
  | cons c cs ih =>
    simp only [List.foldl_cons]
    rw [ih]
    split <;> split <;> rfl

theorem recordInactive_o (d : Disc) (sc : List (List Cond)) : (recordInactive d sc).o = d.o := by
  unfold recordInactive
  induction sc generalizing d with
  | nil => rfl
  | cons c cs ih =>
    simp only [List.foldl_cons]
    rw [ih]
    split <;> rfl

theorem activateAll_grows (allowNew tuneNew : Bool) (prog : List Stmt) (fuel : Nat) : ∀ (d : Disc) (hp : S),
    ∃ ext, (activateAll allowNew tuneNew prog fuel d hp).o.hps = d.o.hps ++ ext := by
  induction fuel with
  | zero => intro d hp; exact ⟨[], by simp [activateAll]⟩
  | succ fuel ih =>
    intro d hp
    simp only [activateAll]
    cases hu : updateSpace allowNew tuneNew d.o (run 10000 hp prog none).1.hps with
    | error e => exact ⟨[], by simp⟩
    | ok o' =>
      obtain ⟨ext1, hext1⟩ := updateSpace_grows allowNew tuneNew d.o o' _ hu
      simp only
      generalize hd2 : recordInactive (recordActive { d with o := o', builds := d.builds + 1 } (run 10000 hp prog none).1.activeScopes)
          (run 10000 hp prog none).1.inactiveScopes = d2
      have hd2o : d2.o = o' := by rw [← hd2, recordInactive_o, recordActive_o]
      cases hn : d2.never with
      | nil => exact ⟨ext1, by rw [hd2o]; exact hext1⟩
      | cons conds rest =>
        simp only
        obtain ⟨ext2, hext2⟩ := ih { d2 with never := conds :: rest, fills := (ensureActive (copyOf d2.o).hps
            { copyOf d2.o with values := conds.foldl (fun vs c => setVal vs c.name (c.vals.headD 0)) (copyOf d2.o).values } d2.fills).2 }
          (ensureActive (copyOf d2.o).hps
            { copyOf d2.o with values := conds.foldl (fun vs c => setVal vs c.name (c.vals.headD 0)) (copyOf d2.o).values } d2.fills).1
        refine ⟨ext1 ++ ext2, ?_⟩
        have h3 := hext2
        simp only [hd2o, hext1] at h3
        simp only [hd2o]
        rw [h3, List.append_assoc]

/-- every entry a build registered is in the oracle's space after `update_space` with both flags on -/
theorem updateSpace_has_all (o : S) (hps : List HP) (h : HP) (hh : h ∈ hps) :
    ∃ o', updateSpace true true o hps = .ok o' ∧ o'.exists_ h.name h.conds = true := by
  obtain ⟨o', hok, hhps⟩ := updateSpace_adds o hps
  refine ⟨o', hok, ?_⟩
  by_cases hex : o.exists_ h.name h.conds = true
  · exact exists_mono o o' _ hhps _ _ hex
  · have hex' : o.exists_ h.name h.conds = false := by simpa using hex
    have hmem : h ∈ List.filter (fun h => !o.exists_ h.name h.conds) hps := List.mem_filter.mpr ⟨hh, by rw [hex']; rfl⟩
    simp only [S.exists_, List.any_eq_true, hhps]
    exact ⟨h, List.mem_append.mpr (Or.inr hmem), by simp⟩

/-- **discovery is complete for the scopes the build function opens**: after `_populate_initial_space` (new entries
    allowed and tuned; at least one build) every eager declaration of the build function — whatever the nesting of
    name scopes and conditional scopes — is an entry of the ORACLE's search space, provided the first build does not
    raise; later builds of the activation loop never remove anything -/
theorem discovery_registers_eager (prog : List Stmt) (o : S) (go : Good (copyOf o)) (fills : List Val) (fuel : Nat)
    (hok : runOk 10000 (copyOf o) prog none = true) :
    ∀ d ∈ eagerDecls 10000 [] [] prog, (populateInitial true true prog o fills (fuel + 1)).o.exists_ d.1 d.2 = true := by
  intro d hd
  have hreg := run_registers_eager 10000 (copyOf o) prog none go hok d (by simpa [copyOf] using hd)
  -- the entry is in the container after the first build
  simp only [S.exists_, List.any_eq_true, Bool.and_eq_true, beq_iff_eq] at hreg
  obtain ⟨h, hh, hn, hcs⟩ := hreg
  obtain ⟨o', hu, hex⟩ := updateSpace_has_all o (run 10000 (copyOf o) prog none).1.hps h hh
  rw [hn, hcs] at hex
  unfold populateInitial
  simp only [activateAll, hu]
  generalize hd2 : recordInactive (recordActive { o := o', never := [], once := [], fills := fills, builds := 0 + 1, err := none }
      (run 10000 (copyOf o) prog none).1.activeScopes) (run 10000 (copyOf o) prog none).1.inactiveScopes = d2
  have hd2o : d2.o = o' := by rw [← hd2, recordInactive_o, recordActive_o]
  cases hnv : d2.never with
  | nil => simp only; rw [hd2o]; exact hex
  | cons conds rest =>
    simp only
    obtain ⟨ext, hext⟩ := activateAll_grows true true prog fuel
      { d2 with never := conds :: rest, fills := (ensureActive (copyOf d2.o).hps
          { copyOf d2.o with values := conds.foldl (fun vs c => setVal vs c.name (c.vals.headD 0)) (copyOf d2.o).values } d2.fills).2 }
      (ensureActive (copyOf d2.o).hps
          { copyOf d2.o with values := conds.foldl (fun vs c => setVal vs c.name (c.vals.headD 0)) (copyOf d2.o).values } d2.fills).1
    refine exists_mono o' _ ext ?_ _ _ hex
    have h3 := hext
    simp only [hd2o] at h3 ⊢
    exact h3

/-- non-vacuity: the repository's nested example declares a, b, c, d/e, f, g/h under two levels of conditional scopes
    and name scopes; one build on an empty container registers all six -/
example : (eagerDecls 100 [] [] demo).map (·.1) = ["a", "b", "c", "d/e", "f", "g/h"] ∧ runOk 100 empty demo none = true ∧
    ((eagerDecls 100 [] [] demo).all (fun d => (run 100 empty demo none).1.exists_ d.1 d.2)) = true := by
  refine ⟨?_, ?_, ?_⟩ <;> decide

end Space
#print axioms Space.run_registers_eager
#print axioms Space.discovery_registers_eager
